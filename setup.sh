#!/bin/bash
# Offline setup: overlay venv on top of /venv (python 3.12 + torch + repo deps) with z3/cvc5/hypothesis/jsonschema.
set -e
cd "$(dirname "$0")"
VENV=.venv
if [ -x $VENV/bin/python ] && $VENV/bin/python -c "import z3, cvc5, torch, jsonschema" 2>/dev/null; then
  echo "setup: $VENV already usable"; exit 0
fi
(
  flock 9
  if [ -x $VENV/bin/python ] && $VENV/bin/python -c "import z3, cvc5, torch, jsonschema" 2>/dev/null; then exit 0; fi
  rm -rf $VENV
  /venv/bin/python -m venv $VENV
  SP=$($VENV/bin/python -c "import sysconfig; print(sysconfig.get_paths()['purelib'])")
  echo "import site; site.addsitedir('/venv/lib/python3.12/site-packages')" > "$SP/zz_base_venv.pth"
  PIP_NO_INDEX=1 $VENV/bin/python -m pip install --quiet --no-index --find-links /opt/veriftools/wheels z3-solver cvc5 jsonschema hypothesis icontract 2>&1 | grep -v WARNING || true
  $VENV/bin/python -c "import z3, cvc5, torch, jsonschema; print('setup: ok', z3.get_version_string(), torch.__version__)"
) 9>.venv.lock
