#!/usr/bin/env python3
"""Markdown table of seeded/RESULTS.tsv joined with seeded/<name>/meta.json (used for DESIGN.md 12.5)."""
import csv, json, os
root = os.path.dirname(os.path.dirname(os.path.abspath(__file__)))
rows = list(csv.DictReader(open(os.path.join(root, "seeded", "RESULTS.tsv")), delimiter="\t"))
print("| change | check | outcome | VIOLATION lines | reproduced natively | undecided | what it changes (site) |")
print("|---|---|---|---|---|---|---|")
caught_by = {}
for r in rows:
    if r.get("exit") == "1":
        caught_by.setdefault(r["mutant"], []).append(r["check"])
for r in rows:
    n = r["mutant"]
    try:
        m = json.load(open(os.path.join(root, "seeded", n, "meta.json")))
    except Exception:
        m = {}
    summ = " ".join(str(m.get("summary", "")).split())[:150].replace("|", "/")
    ex = r.get("exit", "")
    out = {"1": "caught", "0": "not caught" if r.get("undecided", "0") in ("0", "") else "undecided (exit 0)", "3": "checker error"}.get(ex, ex)
    if ex == "0" and caught_by.get(n):
        out = "not by this check - caught by " + ", ".join(caught_by[n]) + " (owner of the edited function)"
    print(f"| {n} | {r['check']} | {out} | {r.get('violations','')} | {r.get('reproduced_natively','')} | {r.get('undecided','')} | {summ} |")
