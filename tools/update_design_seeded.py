#!/usr/bin/env python3
"""Regenerates the seeded-changes table in DESIGN.md (between the SEEDED-TABLE markers) and seeded/README.md from seeded/RESULTS.tsv."""
import os, subprocess, sys
root = os.path.dirname(os.path.dirname(os.path.abspath(__file__)))
table = subprocess.run([sys.executable, os.path.join(root, "tools", "seeded_table.py")], capture_output=True, text=True, check=True).stdout
p = os.path.join(root, "DESIGN.md")
s = open(p).read()
a, b = s.index("<!-- SEEDED-TABLE-BEGIN -->"), s.index("<!-- SEEDED-TABLE-END -->")
s = s[:a] + "<!-- SEEDED-TABLE-BEGIN -->\n" + table + s[b:]
open(p, "w").write(s)
open(os.path.join(root, "seeded", "README.md"), "w").write(
    "# Seeded property-breaking changes\n\nSee DESIGN.md section 12.5. `tools/run_seeded.sh [name ...]` re-runs them in scratch worktrees; results in RESULTS.tsv; "
    "`tools/update_design_seeded.py` regenerates this table.\n\n" + table)
print("updated")
