#!/bin/bash
# like try_patch.sh but prints the refuted obligations (name | native) of each VIOLATION
P=$1; shift
WT=/tmp/wtm_$$; OUT=/tmp/wtm_out_$$
git -C /repo worktree add -q --detach $WT HEAD || exit 2
( cd $WT && git apply "$P" ) || { echo "patch does not apply"; git -C /repo worktree remove --force $WT; exit 2; }
mkdir -p $OUT
for id in "$@"; do
  echo "=== $id on $(basename $(dirname $P))/$(basename $P)"
  QVC_REPO=$WT QVC_OUT=$OUT /verif/check $id > $OUT/$id.log 2>&1; echo "exit=$?"
  grep -E "^UNDECIDED|^\[C" $OUT/$id.log | cut -c1-250 | head -8
  for f in $(grep -o "replay=[^ ]*" $OUT/$id.log | cut -d= -f2 | head -${TRY_LINES:-12}); do
    python3 -c "
import json,sys
d=json.load(open('$f')); print('  ', d['obligation'][:150], '|', str(d.get('native_failing_input'))[:160])"
  done
done
git -C /repo worktree remove --force $WT; rm -rf $OUT
