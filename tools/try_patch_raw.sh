#!/bin/bash
# like try_patch.sh but prints the tail of the raw log
P=$1; shift
WT=/tmp/wtm_$$; OUT=/tmp/wtm_out_$$
git -C /repo worktree add -q --detach $WT HEAD || exit 2
( cd $WT && git apply "$P" ) || { echo "patch does not apply"; git -C /repo worktree remove --force $WT; exit 2; }
mkdir -p $OUT
for id in "$@"; do
  QVC_REPO=$WT QVC_OUT=$OUT /verif/check $id > $OUT/$id.log 2>&1; echo "exit=$?"
  grep -v "^KNOWN" $OUT/$id.log | tail -${TRY_LINES:-25}
done
git -C /repo worktree remove --force $WT; rm -rf $OUT
