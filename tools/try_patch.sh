#!/bin/bash
# usage: tools/try_patch.sh <abs patch.diff> <Cxx> [more ids...]
# Applies the patch to a scratch worktree of /repo HEAD (under /tmp, removed afterwards), runs the checks against it with
# QVC_REPO / QVC_OUT pointing away from /repo and from the committed evidence, and prints the verdict lines.  /repo is not touched.
P=$1; shift
WT=/tmp/wtm_$$; OUT=/tmp/wtm_out_$$
git -C /repo worktree add -q --detach $WT HEAD || exit 2
( cd $WT && git apply "$P" ) || { echo "patch does not apply"; git -C /repo worktree remove --force $WT; exit 2; }
mkdir -p $OUT
for id in "$@"; do
  echo "=== $id on $(basename $(dirname $P))/$(basename $P)"
  QVC_REPO=$WT QVC_OUT=$OUT /verif/check $id 2>&1 | grep -E "VIOLATION|UNDECIDED|CONTRACT-DRIFT|^\[C|error|Error" | cut -c1-220 | head -${TRY_LINES:-12}
  echo "exit=${PIPESTATUS[0]}"
done
git -C /repo worktree remove --force $WT; rm -rf $OUT
