#!/bin/bash
# usage: tools/try_patch.sh <patch.diff> <Cxx> [more ids...]   -- applies the patch to /repo, runs the checks, reverts.
P=$1; shift
git -C /repo diff --quiet || { echo "/repo not clean"; exit 2; }
git -C /repo apply "$P" || { echo "patch does not apply"; exit 2; }
for id in "$@"; do
  echo "=== $id on $(basename $(dirname $P))"
  /verif/check $id 2>&1 | grep -E "VIOLATION|UNDECIDED|KNOWN|CONTRACT-DRIFT|^\[C|error|Error" | cut -c1-220 | head -20
  echo "exit=${PIPESTATUS[0]}"
done
git -C /repo checkout -- .
