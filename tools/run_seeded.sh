#!/bin/bash
# Runs every kept seeded mutant against the check of its property (plus extra checks given in seeded/<name>/also.txt).
# Writes seeded/RESULTS.tsv : name, check, exit code, #VIOLATION lines, #reproduced natively, #UNDECIDED
cd "$(dirname "$0")/.."
out=seeded/RESULTS.tsv
echo -e "mutant\tcheck\texit\tviolations\treproduced_natively\tundecided" > $out
for d in seeded/C*_*/; do
  n=$(basename $d); p=${n%%_*}
  checks="$p"; [ -f $d/also.txt ] && checks="$checks $(cat $d/also.txt)"
  git -C /repo diff --quiet || { echo "/repo not clean"; exit 2; }
  git -C /repo apply $PWD/$d/patch.diff || { echo -e "$n\t-\tpatch-does-not-apply" >> $out; continue; }
  for c in $checks; do
    timeout 1500 ./check $c > /tmp/seeded_$n_$c.log 2>&1; rc=$?
    v=$(grep -c "^VIOLATION" /tmp/seeded_$n_$c.log); nf=$(grep -c "no-failing-input-found" /tmp/seeded_$n_$c.log); u=$(grep -c "^UNDECIDED" /tmp/seeded_$n_$c.log)
    echo -e "$n\t$c\t$rc\t$v\t$((v-nf))\t$u" >> $out
  done
  git -C /repo checkout -- .
done
git checkout -- evidence 2>/dev/null
cat $out
