#!/bin/bash
# Runs kept seeded changes against the check of their property (plus extra checks given in seeded/<name>/also.txt), each in a scratch
# worktree of /repo HEAD under /tmp (QVC_REPO / QVC_OUT; /repo and the committed evidence are not touched; the worktree is removed).
# usage: tools/run_seeded.sh [name ...]      (default: all)   Updates seeded/RESULTS.tsv rows of the mutants run:
#   name, check, exit code, #VIOLATION lines, #reproduced natively, #UNDECIDED
cd "$(dirname "$0")/.."
out=${SEEDED_OUT:-seeded/RESULTS.tsv}
[ -f $out ] || echo -e "mutant\tcheck\texit\tviolations\treproduced_natively\tundecided" > $out
names="$@"; [ -z "$names" ] && names=$(ls -d seeded/C*_*/ | xargs -n1 basename)
for n in $names; do
  d=seeded/$n; p=${n%%_*}
  checks="$p"; [ -f $d/also.txt ] && checks="$checks $(cat $d/also.txt)"
  WT=/tmp/wts_$$_$n; OUT=/tmp/wts_out_$$_$n
  git -C /repo worktree add -q --detach $WT HEAD || exit 2
  grep -v -P "^$n\t" $out > $out.tmp; mv $out.tmp $out
  if ! ( cd $WT && git apply $OLDPWD/$d/patch.diff ); then echo -e "$n\t-\tpatch-does-not-apply" >> $out; git -C /repo worktree remove --force $WT; continue; fi
  mkdir -p $OUT
  for c in $checks; do
    QVC_REPO=$WT QVC_OUT=$OUT timeout 1500 ./check $c > $OUT/$c.log 2>&1; rc=$?
    v=$(grep -c "^VIOLATION" $OUT/$c.log); nf=$(grep -c "no-failing-input-found" $OUT/$c.log); u=$(grep -c "^UNDECIDED" $OUT/$c.log)
    echo -e "$n\t$c\t$rc\t$v\t$((v-nf))\t$u" >> $out
  done
  git -C /repo worktree remove --force $WT; rm -rf $OUT
done
{ head -1 $out; tail -n +2 $out | sort; } > $out.tmp; mv $out.tmp $out
cat $out
