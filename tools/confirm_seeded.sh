#!/bin/bash
# usage: tools/confirm_seeded.sh <name> ...   (name = dir under /tmp/seeded_out, e.g. C04_1)
# Development-time tool, kept as a record of how each seeded change was confirmed: it reads the sub-agents' scratch directory
# /tmp/seeded_out (candidate patches, demos and run_suite.py = the pinned pytest command of /root/.vp/BASELINE.json with OMP threads
# limited), which was removed when the rounds were over.  No registered command uses it.
# Confirms in a scratch worktree: patch applies, demo fails with it, pinned suite still passes, demo passes without it.
# On success copies patch.diff, demo.py, meta.json (+ what was run) to /verif/seeded/<name>/.
WT=/tmp/wtc/confirm_$$; mkdir -p /tmp/wtc
git -C /repo worktree add -q --detach $WT HEAD || exit 2
for n in "$@"; do
  D=/tmp/seeded_out/$n
  ( cd $WT && git checkout -q -- . && git apply $D/patch.diff ) || { echo "$n: patch does not apply"; continue; }
  ( cd $WT && PYTHONPATH=$WT /venv/bin/python $D/demo.py >/tmp/seeded_out/$n.demo_with.log 2>&1 ); with=$?
  /tmp/seeded_out/run_suite.py $WT > /tmp/seeded_out/$n.suite.log 2>&1; suite=$?
  ( cd $WT && git checkout -q -- . )
  ( cd $WT && PYTHONPATH=$WT /venv/bin/python $D/demo.py >/tmp/seeded_out/$n.demo_without.log 2>&1 ); without=$?
  echo "$n: demo_with_patch=$with suite=$suite demo_without_patch=$without"
  if [ $with -ne 0 ] && [ $suite -eq 0 ] && [ $without -eq 0 ]; then
    mkdir -p /verif/seeded/$n && cp $D/patch.diff $D/demo.py /verif/seeded/$n/
    /venv/bin/python - "$n" "$D" <<'PY'
import json,sys
n,D=sys.argv[1],sys.argv[2]
m=json.load(open(D+"/meta.json"))
m["confirmed_by_main_session"]={"scratch_worktree":"git worktree of /repo HEAD under /tmp/wt (removed afterwards)",
 "ran":["git apply patch.diff","PYTHONPATH=<wt> /venv/bin/python demo.py -> non-zero exit","pinned pytest suite (1129 baseline-passing tests) -> all still pass","git checkout -- . ; demo.py -> exit 0"]}
json.dump(m,open(f"/verif/seeded/{n}/meta.json","w"),indent=1)
PY
    echo "$n: kept"
  fi
done
git -C /repo worktree remove --force $WT
