#!/usr/bin/env python3
"""Regenerates MANIFEST.json from the table below (keeps it valid at all times)."""
import json, os
V = os.path.dirname(os.path.dirname(os.path.abspath(__file__)))
props = [json.loads(l)["id"] for l in open(os.path.join(V, "properties.jsonl"))]
CHECKS = json.load(open(os.path.join(V, "tools", "checks.json")))
base_cmd = "cd /repo && /venv/bin/python -m pytest -ra -q -p no:cacheprovider --timeout=900 --continue-on-collection-errors"
m = {"version": 1, "setup_cmd": "./setup.sh",
     "hooks": {"guard": "QUANTO_VERIF", "enable": "unused - contracts are sidecar files under /verif/contracts and /verif/props; /repo carries no hooks, only 'fix:' commits",
               "baseline_off_cmd": base_cmd, "source_commits": [], "add_only": True},
     "engines": [{"name": "qvc", "path": "qvc/", "serves_properties": sorted(CHECKS),
                  "kind_free_text": "self-built verification-condition generator: symbolic execution of the Python ast of the real /repo sources (re-read on every run) against sidecar contracts; obligations discharged by z3 / cvc5"}],
     "checks": [], "not_applicable": [],
     "notes": "see DESIGN.md; known findings in known_findings.json; seeded mutants in seeded/"}
for p in props:
    if p in CHECKS:
        c = CHECKS[p]
        m["checks"].append({"property_id": p, "quick_cmd": f"./check {p} --tier quick", "thorough_cmd": f"./check {p} --tier thorough",
                            "evidence_file": f"evidence/{p}.json", "replay_cmd_template": f"./check {p} --replay {{path}}", "engine": "qvc",
                            "level_claimed": {"category": c.get("category", "proof"), "text": c["text"], "design_ref": c["design_ref"]},
                            "level_note": c["note"], "technique": c["technique"]})
    else:
        m["not_applicable"].append({"property_id": p, "reason": "check not built yet (build in progress; see DESIGN.md section 6)"})
json.dump(m, open(os.path.join(V, "MANIFEST.json"), "w"), indent=1)
print("checks:", [c["property_id"] for c in m["checks"]])
