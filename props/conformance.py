"""Conformance cases: real repository functions executed natively and by the symbolic executor on the same concrete inputs
(see qvc/conform.py).  Grouped by the properties whose trusted base they exercise."""
from qvc.run import REPO as _REPO
import z3

from contracts import packed as CP
from qvc import conform
from qvc.sym import Unsupported
from qvc.values import Builtin, DType, Obj, STensor


def _engine(run, **kw):
    E = run.engine(**kw)
    E.concrete_reductions = True
    from qvc import lib
    from qvc.tm_tensor import raise_

    lib.install_os_model(E)
    # this sandbox cannot build the C++ extension (no ninja): Extension.lib raises, the router falls back to the python kernel
    E.contracts["optimum/quanto/library/ext/extension.py::Extension.lib"] = lambda E2, a, k: raise_(E2, "RuntimeError", "Ninja is required to load C++ extensions")
    E.load_module("optimum/quanto/tensor/__init__.py")
    E.load_module("optimum/quanto/library/__init__.py")
    return E


def cases(tags, seed):
    import torch
    from optimum.quanto import qtypes

    g = torch.Generator().manual_seed(1234 + seed)
    out = []

    def rnd(*shape, dtype=torch.float16, scale=1.0):
        return (torch.randn(*shape, generator=g) * scale).to(dtype)

    if "pack" in tags:
        for bits in (2, 4):
            for shape in ((5, 3), (4,), (7, 2, 2)):
                t = torch.randint(0, 2**bits, shape, generator=g, dtype=torch.uint8)
                out.append((f"pack_weights/b{bits}/{shape}", "bv", "optimum/quanto/tensor/qbits/packed.py::pack_weights",
                            lambda t_, b_: __import__("optimum.quanto.tensor.qbits.packed", fromlist=["x"]).pack_weights(t_, b_), [t, bits], True, None))
                d = torch.randint(0, 256, shape, generator=g, dtype=torch.uint8)
                out.append((f"python-unpack/b{bits}/{shape}", "bv", ("oplib", "quanto_py", "unpack"),
                            lambda d_, b_: torch.ops.quanto_py.unpack(d_, b_), [d, bits], True, None))
    if "symmetric" in tags:
        from optimum.quanto.tensor.quantizers import SymmetricQuantizer
        for qn in ("qint8", "qfloat8_e4m3fn", "qfloat8_e5m2"):
            for dt in (torch.float16, torch.bfloat16, torch.float32):
                for axis in (None, 0, -1):
                    x = rnd(3, 4, dtype=dt, scale=3.0)
                    x[0, 0] = 0.0
                    sc = (x.abs().max() / 100).to(dt) if axis is None else (x.abs().amax(dim=1 if axis == 0 else 0, keepdim=True) / 90).to(dt)

                    def nat(x_, sc_, qn=qn, axis=axis):
                        q = SymmetricQuantizer.apply(x_, qtypes[qn], axis, sc_)
                        return [q._data, q.dequantize()]

                    out.append((f"SymmetricQuantizer+dequantize/{qn}/{str(dt)[6:]}/axis{axis}", "F", ("sym", qn, axis), nat, [x, sc], True, None))
    if "affine" in tags:
        from optimum.quanto import quantize_weight
        for qn in ("qint4", "qint2"):
            for dt in (torch.float16, torch.float32):
                for axis, gs in ((0, None), (-1, None), (0, 4), (-1, 2)):
                    x = rnd(4, 8, dtype=dt, scale=2.0)
                    x[1] = x[1].abs() + 1

                    def nat(x_, qn=qn, axis=axis, gs=gs):
                        q = quantize_weight(x_, qtypes[qn], axis, gs)
                        return [q._scale, q._zeropoint, q._data.unpack(), q.dequantize()]

                    out.append((f"quantize_weight+dequantize/{qn}/{str(dt)[6:]}/axis{axis}/g{gs}", "F", ("qw", qn, axis, gs), nat, [x], True, None))
        for qn in ("qint8", "qfloat8_e4m3fn"):
            x = rnd(3, 5, dtype=torch.float16)

            def nat8(x_, qn=qn):
                q = quantize_weight(x_, qtypes[qn], 0)
                return [q._scale, q._data, q.dequantize()]

            out.append((f"quantize_weight+dequantize/{qn}/float16/axis0", "F", ("qw8", qn), nat8, [x], True, None))
    if "awq" in tags:
        import re
        import types
        src = open(_REPO + "/optimum/quanto/tensor/qbits/awq/packed.py").read()
        kept = "\n".join(ln for ln in src.split("\n") if not re.match(r'\s*assert .*device\.type == "cuda"\s*$', ln))
        P = types.ModuleType("awq_packed_cpu")
        exec(compile(kept, "awq/packed.py", "exec"), P.__dict__)
        t = torch.randint(0, 16, (4, 64), generator=g, dtype=torch.uint8)
        out.append(("awq.pack_v2", "bv", "optimum/quanto/tensor/qbits/awq/packed.py::pack_v2", lambda t_: P.pack_v2(t_), [t], True, "cuda"))
        pk = P.pack_v2(t)
        out.append(("awq.unpack_v2", "bv", "optimum/quanto/tensor/qbits/awq/packed.py::unpack_v2", lambda p_: P.unpack_v2(p_), [pk], True, "cuda"))
        t1 = torch.randint(0, 16, (3, 16), generator=g, dtype=torch.uint8)
        for ro in (False, True):
            out.append((f"awq.pack(v1)/reorder={ro}", "bv", ("awq1", "pack", ro), lambda t_, ro=ro: P.pack(t_, reorder=ro), [t1], True, "cuda"))
            p1 = P.pack(t1, reorder=ro)
            out.append((f"awq.unpack(v1)/reorder={ro}", "bv", ("awq1", "unpack", ro), lambda p_, ro=ro: P.unpack(p_, reorder=ro), [p1], True, "cuda"))
    if "group" in tags:
        from optimum.quanto.tensor.qbits import group, ungroup
        for axis, gs, shape in ((0, 4, (3, 8)), (-1, 2, (4, 3)), (-1, 3, (2, 3, 2)), (0, 2, (2, 2, 3))):
            x = rnd(*shape, dtype=torch.float32)
            out.append((f"group/axis{axis}/g{gs}/{shape}", "R", ("group", axis, gs), lambda x_, axis=axis, gs=gs: group(x_, axis, gs), [x], True, None))
            gx = group(x, axis, gs)
            out.append((f"ungroup/axis{axis}/g{gs}/{shape}", "R", ("ungroup", axis, tuple(shape)), lambda g_, axis=axis, shape=shape: ungroup(g_, axis, torch.Size(shape)), [gx], True, None))
    if "ops" in tags:
        from optimum.quanto import absmax_scale, quantize_activation
        from optimum.quanto.tensor.quantizers import SymmetricQuantizer
        table = [("transpose", [0, 1]), ("permute", [[1, 0]]), ("t", []), ("view", [[-1]]), ("select", [0, 1]), ("slice", [0, 0, 2]), ("unsqueeze", [1]),
                 ("expand1", None), ("mul", [2.5]), ("div", [4.0]), ("neg", []), ("relu", []), ("clone", []), ("detach", []), ("split", [2, 0]),
                 ("cat", None), ("stack", None), ("lt", None), ("add", None), ("where", None), ("_to_copy", None)]
        for qn in ("qint8", "qfloat8_e4m3fn"):
            for axis in (None, 0):
                x = rnd(3, 4, dtype=torch.float32, scale=2.0)
                y = rnd(3, 4, dtype=torch.float32, scale=2.0)
                for op, args in table:
                    out.append((f"aten.{op}/{qn}/axis{axis}", "F", ("op", op, args, qn, axis), None, [x, y], True, None))
    return out


def _native_q(x, qn, axis):
    from optimum.quanto import absmax_scale, qtypes, quantize_activation
    from optimum.quanto.tensor.quantizers import SymmetricQuantizer
    sc = absmax_scale(x, qtypes[qn], axis)
    return SymmetricQuantizer.apply(x, qtypes[qn], axis, sc) if axis is not None else quantize_activation(x, qtypes[qn], sc)


def _op_native(x, y, op, args, qn, axis):
    import torch
    q, q2 = _native_q(x, qn, axis), _native_q(y, qn, axis)
    A = torch.ops.aten
    if op == "expand1":
        r = A.expand(_native_q(x[:1], qn, None if axis is None else -1), [3, 4])
    elif op == "cat":
        r = A.cat([q, q], 0)
    elif op == "stack":
        r = A.stack([q, q2], 0)
    elif op == "lt":
        r = A.lt(q, q2)
    elif op == "add":
        r = A.add(q, q2)
    elif op == "where":
        r = A.where(x > 0, q, y)
    elif op == "_to_copy":
        r = q.to(torch.float16)
    else:
        r = getattr(A, op)(q, *args)
    rl = list(r) if isinstance(r, (list, tuple)) else [r]
    flat = []
    from optimum.quanto import QTensor
    for o in rl:
        if isinstance(o, QTensor):
            flat += [o._data, o._scale, o.dequantize()]
        else:
            flat.append(o)
    return flat


def resolve(E, key):
    if isinstance(key, str):
        return E.closure_for(key) if "::" in key and E.contracts.get(key) is None else E.get(key)
    if key[0] == "oplib":
        E.load_module("optimum/quanto/library/python/unpack.py")
        return E.oplib[(key[1], key[2], "default")]
    qtmod = E.load_module("optimum/quanto/tensor/qtype.py").env
    if key[0] == "sym":
        SQ = E.get("optimum/quanto/tensor/quantizers/symmetric.py::SymmetricQuantizer")

        def f(E2, x, sc, qn=key[1], axis=key[2]):
            q = E2.call(E2.getattr(SQ, "apply"), [x, qtmod.lookup(qn), axis, sc], {})
            return [q.fields["_data"], E2.call(E2.getattr(q, "dequantize"), [], {})]
        return Builtin("sym", f)
    if key[0] in ("qw", "qw8"):
        QW = E.get("optimum/quanto/tensor/qweight.py::quantize_weight")

        def f(E2, x, key=key):
            if key[0] == "qw":
                q = E2.call(QW, [x, qtmod.lookup(key[1]), key[2], key[3]], {})
                codes = E2.call(E2.getattr(q.fields["_data"], "unpack"), [], {})
                return [q.fields["_scale"], q.fields["_zeropoint"], codes, E2.call(E2.getattr(q, "dequantize"), [], {})]
            q = E2.call(QW, [x, qtmod.lookup(key[1]), 0], {})
            return [q.fields["_scale"], q.fields["_data"], E2.call(E2.getattr(q, "dequantize"), [], {})]
        return Builtin("qw", f)
    if key[0] == "op":
        from qvc.tm_tensor import call_aten, is_wrapper
        from qvc.values import AtenOp, contiguous_strides
        _, op, args, qn, axis = key
        SQ = E.get("optimum/quanto/tensor/quantizers/symmetric.py::SymmetricQuantizer")
        AB = E.get("optimum/quanto/calibrate.py::absmax_scale")

        def mkq(E2, x, ax):
            sc = E2.call(AB, [x, qtmod.lookup(qn), ax], {})
            return E2.call(E2.getattr(SQ, "apply"), [x, qtmod.lookup(qn), ax, sc], {})

        def f(E2, x, y):
            from qvc.tm_index import slice_dim
            from qvc.tm_tensor import binary
            q, q2 = mkq(E2, x, axis), mkq(E2, y, axis)
            if op == "expand1":
                r = call_aten(E2, AtenOp("expand"), [mkq(E2, slice_dim(E2, x, 0, 0, 1), None if axis is None else -1), [3, 4]], {})
            elif op == "cat":
                r = call_aten(E2, AtenOp("cat"), [[q, q], 0], {})
            elif op == "stack":
                r = call_aten(E2, AtenOp("stack"), [[q, q2], 0], {})
            elif op in ("lt", "add"):
                r = call_aten(E2, AtenOp(op), [q, q2], {})
            elif op == "where":
                r = call_aten(E2, AtenOp("where"), [binary(E2, "gt", x, 0), q, y], {})
            elif op == "_to_copy":
                r = call_aten(E2, AtenOp("_to_copy"), [q], {"dtype": DType("float16")})
            else:
                r = call_aten(E2, AtenOp(op), [q] + list(args), {})
            rl = list(r) if isinstance(r, (list, tuple)) else [r]
            flat = []
            for o in rl:
                if is_wrapper(o):
                    flat += [o.fields["_data"], o.fields["_scale"], E2.call(E2.getattr(o, "dequantize"), [], {})]
                else:
                    flat.append(o)
            return flat
        return Builtin("op", f)
    if key[0] == "awq1":
        fn = E.get(f"optimum/quanto/tensor/qbits/awq/packed.py::{key[1]}")
        return Builtin("awq1", lambda E2, t, fn=fn, ro=key[2]: E2.call(fn, [t], {"reorder": ro}))
    if key[0] == "group":
        fn = E.get("optimum/quanto/tensor/qbits/group.py::group")
        return Builtin("group", lambda E2, x, fn=fn, key=key: E2.call(fn, [x, key[1], key[2]], {}))
    if key[0] == "ungroup":
        fn = E.get("optimum/quanto/tensor/qbits/group.py::ungroup")
        return Builtin("ungroup", lambda E2, x, fn=fn, key=key: E2.call(fn, [x, key[1], tuple(key[2])], {}))
    raise KeyError(key)


def run_conformance(run, tags):
    """Runs the cases of `tags`; records them in the evidence; a disagreement makes the run undecided (trusted base broken)."""
    try:
        cs = cases(set(tags), run.seed)
    except Exception as e:  # native side unavailable
        run.conformance.append({"error": f"conformance cases could not be built: {e!r}"})
        return
    n_ok = 0
    for name, mode, key, nat, nargs, exact, device in cs:
        kw = {"bv": dict(intmode="bv"), "F": dict(intmode="bv", floatmode="F"), "R": dict()}[mode]
        E = _engine(run, **kw)
        if mode == "F" and isinstance(key, tuple) and key[0] in ("qw",):
            pass  # real pack_weights / unpack are executed in bv mode (no contract)
        if nat is None and isinstance(key, tuple) and key[0] == "op":
            nat = (lambda x, y, key=key: _op_native(x, y, key[1], key[2], key[3], key[4]))
            E.load_module("optimum/quanto/calibrate.py")
            E.load_module("optimum/quanto/tensor/qbytes_ops.py")
        try:
            fn = resolve(E, key)
            sargs = (lambda E2, nargs=nargs, device=device: [conform.wrap_native(E2, a, f"a{i}", device) for i, a in enumerate(nargs)])
            diff = conform.run_case(E, fn, nat, nargs, symbolic_args=sargs, exact=exact)
        except Unsupported as u:
            diff = f"unsupported by the model: {u}"
        except Exception as e:
            diff = f"conformance harness error: {e!r}"
        run.conformance.append({"case": name, "algebra": mode, "agrees": diff is None, "difference": diff})
        if diff is None:
            n_ok += 1
        else:
            run.undecide(f"conformance:{name}", f"symbolic model and native execution disagree (trusted base): {diff}")
    run.notes.append(f"conformance: {n_ok}/{len(cs)} cases agree exactly with native execution")
