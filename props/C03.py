"""C03 - scale selection is non-saturating, full-range and local to its axis / group (DESIGN 6.3).  Algebra R + reduction axioms."""
import z3

from contracts import group as CG
from contracts import packed as CP
from props import inv
from qvc import lib
from qvc.lib import idx_vars, zi
from qvc.sym import Unsupported
from qvc.tm_tensor import new_input, reduction_facts
from qvc.values import Obj, numel_of

QW = "optimum/quanto/tensor/qweight.py"
CAL = "optimum/quanto/calibrate.py"
ABSO = "optimum/quanto/tensor/optimizers/absmax_optimizer.py"
MAXO = "optimum/quanto/tensor/optimizers/max_optimizer.py"
SYMO = "optimum/quanto/tensor/optimizers/symmetric_optimizer.py"
AFFO = "optimum/quanto/tensor/optimizers/affine_optimizer.py"
CORE = "optimum/quanto/tensor/core.py"
QTYPE = "optimum/quanto/tensor/qtype.py"
QMAX = {"qint8": 127, "qfloat8_e4m3fn": 448, "qfloat8_e5m2": 57344}


def absr(t):
    return z3.If(t >= 0, t, -t)


def engine(run):
    E = run.engine()
    E.load_module("optimum/quanto/tensor/__init__.py")
    CP.install(E)
    CG.install(E)
    return E


def eight_bit(run):
    srcw = """
def prog(t, qtype, axis):
    return quantize_weight(t, qtype, axis)
"""
    srca = """
def prog(t, qtype, axis):
    return absmax_scale(t, qtype, axis)
"""
    for path in ("weights", "activations"):
        for qname in ("qint8", "qfloat8_e4m3fn", "qfloat8_e5m2"):
            for axis in ((0, -1) if path == "weights" else (None, 0, -1)):
                for rank in (1, 2, 3, 4):
                    for dtype in ("float32", "float16", "bfloat16"):
                        if dtype != "float32" and (rank not in (2,) or qname != "qint8"):
                            continue  # the dtype only matters for the dtype clause: one instance per dtype is enough
                        if path == "weights" and rank == 1:
                            continue  # 8-bit per-axis on a vector is refused (C14)
                        if path == "activations" and rank == 1 and axis is not None:
                            continue
                        inst = {"path": path, "qtype": qname, "axis": axis, "rank": rank, "dtype": dtype}
                        run.count_instance(**inst)
                        E = engine(run)
                        if path == "activations":
                            E.load_module(CAL)
                        qt = E.load_module(QTYPE).env.lookup(qname)
                        prog = E.snippet(srcw if path == "weights" else srca, QW if path == "weights" else CAL)
                        ds, dpos = lib.dims("d", rank)

                        def setup(E2, ds=ds, dpos=dpos, qt=qt, axis=axis, dtype=dtype):
                            for c in dpos:
                                E2.assume(c)
                            return [new_input(E2, "X", dtype, ds), qt, axis], {}

                        res = E.explore(prog, setup, name="C03.8bit")
                        run.absorb(E)
                        tag = f"{path}/{qname}/axis{axis}/r{rank}/{dtype}"
                        if not run.expect_paths(res, f"C03/8bit[{tag}]", inst):
                            continue
                        rp = lambda m, s, i=dict(inst): replay(m, s, i, ("shape", "raise"))
                        rp_sat = lambda m, s, i=dict(inst): replay(m, s, i, ("saturation",))
                        rp_full = lambda m, s, i=dict(inst): replay(m, s, i, ("full-range",))
                        rp_pos = lambda m, s, i=dict(inst): replay(m, s, i, ("sign",))
                        for pi, r in enumerate(res):
                            if r.outcome == "raise":
                                run.add(f"C03/no-exception[{tag}]/path{pi}:{r.value.tname}", r.hyps, z3.BoolVal(False), "property", inst, replay=rp)
                                continue
                            E.focus(r)
                            if path == "weights":
                                q = r.value
                                scale, eff_axis = q.fields["_scale"], q.fields["_axis"]
                            else:
                                scale, eff_axis = r.value, axis
                            k = None if eff_axis is None else eff_axis % rank
                            reds = [ri for ri in E.ps.get("reductions", []) if ri.kind == "amax"]
                            # (b) one value per kept index, dtype of the source
                            run.add(f"C03/scale-shape-and-dtype[{tag}]/path{pi}", r.hyps,
                                    z3.And(lib.shape_eq(scale.shape, inv.keepdim_shape(ds, eff_axis)), z3.BoolVal(scale.dtype == dtype)), "property", inst, replay=rp)
                            if len(reds) != 1:
                                run.undecide(f"C03/reduction[{tag}]", f"expected one amax reduction, found {len(reds)}", inst)
                                continue
                            ri = reds[0]
                            # (a) reduced dims = all dims but the kept axis
                            want = [j for j in range(rank) if j != k]
                            run.add(f"C03/range-over-all-dims-but-kept-axis[{tag}]/path{pi}", r.hyps, z3.BoolVal(sorted(ri.dims) == want), "property", inst, replay=rp)
                            ids, inb = idx_vars("i", ds)
                            E.ps["touched"] = []
                            E.drain()
                            xfn = z3.Function("X", *([z3.IntSort()] * rank), z3.RealSort())
                            x = xfn(*ids)
                            kidx = [] if eff_axis is None else [i if j == k else 0 for j, i in enumerate(ids)]
                            s = scale.elem(kidx)
                            absmax = ri.res_fn(ri.kept(ids))
                            facts = E.drain() + reduction_facts(E, extra_points=[ids])
                            hy = r.hyps + inb + facts
                            qmax = QMAX[qname]
                            # (c) non-saturation: |x| <= qmax * scale   (division-free form of |x/scale| <= qmax)
                            run.add(f"C03/non-saturating[{tag}]/path{pi}", hy, absr(x) <= qmax * s, "property", inst, replay=rp_sat)
                            # (d) full range: scale <= absmax / qmax(qtype)
                            fr = "C03/float8-weights" if (path == "weights" and qname != "qint8") else "C03"
                            run.add(f"{fr}/full-range[{tag}]/path{pi}", hy, s * qmax <= absmax, "property", inst, replay=rp_full)
                            # absmax really is the largest magnitude of the slice (attained): from the axioms, stated for the record
                            run.add(f"C03/scale-nonnegative[{tag}]/path{pi}", hy, s >= 0, "property", inst, replay=rp_pos)
                            run.add_path_obligations([r], f"C03/exec[{tag}]", inst, kinds=("assert", "torch-pre", "callee-pre"))


def locality(run):
    """Relational obligation: if row/group k of x equals row/group k' of x' element-wise then the scales (and zero-points)
    and the codes of that row are equal.  k' != k allowed: permutation equivariance; the rest of x' is unconstrained."""
    src = """
def prog(a, b, qtype, axis, group_size):
    return quantize_weight(a, qtype, axis, group_size), quantize_weight(b, qtype, axis, group_size)
"""
    for qname in ("qint8", "qfloat8_e4m3fn", "qint4", "qint2"):
        low = qname in ("qint2", "qint4")
        for axis in (0, -1):
            for rank in (2, 3):
                for grouped in ((False, True) if low else (False,)):
                    inst = {"lemma": "locality", "qtype": qname, "axis": axis, "rank": rank, "grouped": grouped}
                    run.count_instance(**inst)
                    E = engine(run)
                    qt = E.load_module(QTYPE).env.lookup(qname)
                    prog = E.snippet(src, QW)
                    ds, dpos = lib.dims("d", rank)
                    G, ag = z3.Int("G"), z3.Int("ag")
                    kk = axis % rank
                    others = [d for j, d in enumerate(ds) if j != kk]
                    n = numel_of(others)

                    def setup(E2, ds=ds, dpos=dpos, qt=qt, axis=axis, grouped=grouped, kk=kk, n=n):
                        for c in dpos:
                            E2.assume(c)
                        if grouped:
                            E2.assume(G >= 1)
                            E2.assume(ag >= 1)
                            E2.assume(zi(n) == G * ag)
                            for h in CG.hints(ds, kk, n, G, ag):
                                E2.assume(h)
                        return [new_input(E2, "XA", "float32", ds), new_input(E2, "XB", "float32", ds), qt, axis, G if grouped else None], {}

                    res = E.explore(prog, setup, name="C03.locality")
                    run.absorb(E)
                    tag = f"{qname}/axis{axis}/r{rank}/{'grouped' if grouped else 'per-axis'}"
                    if not run.expect_paths(res, f"C03/locality[{tag}]", inst):
                        continue
                    rp = lambda m, s, i=dict(inst): replay_locality(m, s, i)
                    for pi, r in enumerate(res):
                        if r.outcome != "return":
                            continue
                        qa, qb = r.value
                        E.focus(r)
                        reds = E.ps.get("reductions", [])
                        # the two calls are executed one after the other: first half of the reductions belongs to `a`
                        ra, rb = reds[: len(reds) // 2], reds[len(reds) // 2:]
                        if not ra or len(ra) != len(rb) or [x.kind for x in ra] != [x.kind for x in rb]:
                            run.undecide(f"C03/locality[{tag}]", "could not pair the reductions of the two runs", inst)
                            continue
                        # the space in which rows are compared: the grouped tensor (rows/cols = groups) or the tensor itself
                        if grouped:
                            ga = [g for g in E.ps.get("groups", []) if "XA" in g.name]
                            gb = [g for g in E.ps.get("groups", []) if "XB" in g.name]
                            shape = list(ga[0].shape)
                            fa = [g.snap() for g in ga]
                            fb = [g.snap() for g in gb]
                            kdim = 0 if axis == 0 else 1
                        else:
                            shape = list(ds)
                            fa = [z3.Function("XA", *([z3.IntSort()] * rank), z3.RealSort())]
                            fb = [z3.Function("XB", *([z3.IntSort()] * rank), z3.RealSort())]
                            fa = [lambda idx, f=fa[0]: f(*[zi(i) for i in idx])]
                            fb = [lambda idx, f=fb[0]: f(*[zi(i) for i in idx])]
                            kdim = kk
                        k1, k2 = z3.Int("k1"), z3.Int("k2")
                        rrank = len(shape)
                        # quantified row equality: for all positions j of the row: A[k1, j] == B[k2, j]  (all group tensors agree)
                        jv = [z3.Int(f"j{t}") for t in range(rrank)]

                        def at(kv, j):
                            return [kv if t == kdim else j[t] for t in range(rrank)]

                        inb_j = z3.And(*[z3.And(jv[t] >= 0, jv[t] < zi(shape[t])) for t in range(rrank) if t != kdim])
                        row_eq = z3.ForAll([jv[t] for t in range(rrank) if t != kdim],
                                           z3.Implies(inb_j, z3.And(*[f1(at(k1, jv)) == f2(at(k2, jv)) for f1 in fa for f2 in fb])))
                        hy0 = r.hyps + [k1 >= 0, k1 < zi(shape[kdim]), k2 >= 0, k2 < zi(shape[kdim]), row_eq]
                        # instantiate reduction axioms at each other's witnesses
                        E.ps["touched"] = []
                        E.drain()
                        pts = []
                        for x in ra + rb:
                            nkept = len(x.src.shape) - len(x.dims)
                            kept = [k1 if x in ra else k2][:nkept]
                            w = [wf(kept) for wf in x.wit_fns]
                            for kv in (k1, k2):
                                full = x.full([kv][:nkept], w)
                                pts.append(full)
                        facts = reduction_facts(E, extra_points=pts, rounds=1) + E.drain()
                        sa, sb = qa.fields["_scale"], qb.fields["_scale"]
                        kidxa = [k1 if t == kdim else 0 for t in range(len(sa.shape))]
                        kidxb = [k2 if t == kdim else 0 for t in range(len(sb.shape))]
                        goal = [sa.elem(kidxa) == sb.elem(kidxb)]
                        if low:
                            goal.append(qa.fields["_zeropoint"].elem(kidxa) == qb.fields["_zeropoint"].elem(kidxb))
                        facts += E.drain()
                        run.add(f"C03/locality-scale[{tag}]/path{pi}", hy0 + facts, z3.And(*goal), "property", inst, replay=rp, timeout=40)
                        # codes of the row
                        jc = [z3.Int(f"c{t}") for t in range(rrank)]
                        ia, ib = at(k1, jc), at(k2, jc)
                        inb_c = [z3.And(jc[t] >= 0, jc[t] < zi(shape[t])) for t in range(rrank) if t != kdim]
                        if low:
                            ca = qa.fields["_data"].fields["_ghost_codes"].elem(ia)
                            cb = qb.fields["_data"].fields["_ghost_codes"].elem(ib)
                        else:
                            ca, cb = qa.fields["_data"].elem(ia), qb.fields["_data"].elem(ib)
                        facts2 = E.drain()
                        run.add(f"C03/locality-codes[{tag}]/path{pi}", hy0 + facts + facts2 + inb_c + [z3.And(*goal)], ca == cb, "property", inst, replay=rp, timeout=40)


def low_bit(run):
    """Non-saturation (up to the half step) and full range for the affine optimizer, in quotient space (see C02 decomposition)."""
    RNE = z3.Function("RNE", z3.RealSort(), z3.IntSort())
    half = z3.RealVal("1/2")
    for bits in (2, 4):
        N = (1 << bits) - 1
        a, y, b = z3.Reals("a y b")
        zp = z3.ToReal(RNE(-a))
        ax = z3.And(zp + a <= half, -a - zp <= half)
        run.add(f"C03/lemma:affine-non-saturating[bits{bits}]", [a <= 0, 0 <= b, a <= y, y <= b, b - a == N, ax],
                z3.And(y + zp >= -half, y + zp <= N + half), "property", {"bits": bits, "lemma": "quotient space; the expression-shape obligations are C02/structure:*"})


def build(run):
    lib.lean_lemmas(run, ["group_hints", "inj_bij"])
    from props import conformance

    conformance.run_conformance(run, ['symmetric', 'affine'])
    run.assume("A-ENGINE qvc VC generator + z3/cvc5", "A-PY", "A-REAL", "A-TORCH-RED amax/amin: upper bound of the reduced slice and attained in it",
               "A-TORCH-EW abs / division by a python int keeps the tensor dtype", "group / PackedTensor contracts (C02, C04)")
    run.assumptions += ["dimensions >= 1", "a group of the grouped tensor is G consecutive positions of the row-major flattening of one axis index "
                        "(split-one-dimension lemma, lemmas/Arith.lean split_dim_div); locality is stated in grouped space",
                        "the affine non-saturation / full-range clauses reuse the expression-shape obligations of C02"]
    E0 = run.engine()
    for key in (f"{ABSO}::AbsmaxOptimizer.optimize", f"{SYMO}::SymmetricOptimizer.__call__", f"{MAXO}::MaxOptimizer.optimize", f"{AFFO}::AffineOptimizer.__call__",
                f"{CAL}::absmax_scale", f"{CORE}::axis_to_dim", f"{QW}::quantize_weight"):
        run.under_contract(E0, key)
    lib.lean_lemmas(run, ["split_dim_div"])
    from props import C02

    def affine_on_real_code(r):
        # the 2/4-bit clauses of C03 (range contains the group and zero, step == (hi-lo)/(2^bits-1), zero-point on the grid,
        # elements within half a step of the grid = non-saturating) are the obligations of C02's main lemma on the real code
        C02.math_lemmas(r)
        C02.main_lemma(r)

    for part in (eight_bit, low_bit, affine_on_real_code, locality):
        try:
            part(run)
        except Unsupported as u:
            run.undecide(f"C03/{part.__name__}", f"unsupported: {u}")


# ------------------------------------------------------------------------------------------------ native replay
def replay(model, seed, inst, clauses=("shape", "raise", "saturation", "full-range", "sign")):
    """Native oracle, one clause at a time (so that a failure is attributed to the clause whose obligation was refuted)."""
    import torch
    from optimum.quanto import absmax_scale, qtypes, quantize_weight

    torch.manual_seed(seed)
    qname, axis, rank = inst["qtype"], inst["axis"], inst["rank"]
    dt = {"float32": torch.float32, "float16": torch.float16, "bfloat16": torch.bfloat16}[inst["dtype"]]
    info = torch.finfo(qtypes[qname].dtype) if qtypes[qname].is_floating_point else torch.iinfo(qtypes[qname].dtype)
    for trial in range(30):
        shape = [2, 3, 4, 2][:rank]
        x = (torch.randn(shape) * 10 ** torch.randint(-3, 3, (1,)).item()).to(dt)
        try:
            if inst["path"] == "weights":
                q = quantize_weight(x, qtypes[qname], axis)
                scale, ax = q._scale, q.axis
            else:
                scale, ax = absmax_scale(x, qtypes[qname], axis), axis
        except Exception as e:
            if "raise" in clauses:
                return {"what": f"raises {type(e).__name__}: {str(e)[:120]}", "shape": shape}
            return None
        if "shape" in clauses and scale.dtype != dt:
            return {"what": "scale dtype differs from the source", "got": str(scale.dtype)}
        if "sign" in clauses and (scale < 0).any():
            return {"what": "negative scale", "scale": scale.flatten().tolist()[:4], "input": x.flatten().tolist()[:8]}
        x64, s64 = x.to(torch.float64), scale.to(torch.float64)
        if ax is None:
            am = x64.abs().max()
        else:
            dims = [d for d in range(rank) if d != ax % rank]
            am = x64.abs().amax(dim=dims, keepdim=True)
        eps = torch.finfo(dt).eps
        den = float(torch.finfo(dt).tiny) * eps     # spacing of the subnormal range: the absolute rounding error of a tiny scale
        if "saturation" in clauses and (x64.abs() / (s64 + den) > info.max * (1 + 4 * eps)).any():
            return {"what": "an element saturates", "shape": shape}
        if "full-range" in clauses and (s64 > am / info.max * (1 + 4 * eps) + den).any():
            return {"what": "scale larger than absmax/qmax", "scale": s64.flatten()[0].item(), "absmax_over_qmax": (am / info.max).flatten()[0].item(),
                    "shape": shape, "qtype": qname}
    return None


def replay_locality(model, seed, inst):
    import torch
    from optimum.quanto import qtypes, quantize_weight

    torch.manual_seed(seed)
    qname, axis, rank = inst["qtype"], inst["axis"], inst["rank"]
    for trial in range(24):
        shape = [4, 8, 2][:rank] if axis == 0 else [2, 8, 4][:rank]
        if trial % 4 == 3 and rank >= 2 and not inst.get("grouped"):
            # degenerate shapes: every dimension other than the quantization axis has length 1 (a Linear with one input feature)
            shape = ([4] + [1] * (rank - 1)) if axis == 0 else ([1] * (rank - 1) + [4])
        a = torch.randn(shape)
        b = torch.randn(shape) * 7
        k = axis % rank
        ia = [slice(None)] * rank
        ib = [slice(None)] * rank
        ia[k], ib[k] = 1, 3
        b[tuple(ib)] = a[tuple(ia)]
        gs = None
        if inst.get("grouped"):
            n = a.numel() // shape[k]
            gs = [g for g in range(2, n + 1) if n % g == 0][0]
        qa, qb = quantize_weight(a, qtypes[qname], axis, gs), quantize_weight(b, qtypes[qname], axis, gs)
        da, db = qa.dequantize(), qb.dequantize()
        if not torch.equal(da[tuple(ia)], db[tuple(ib)]):
            return {"what": "the quantized values of a row changed when other rows changed", "shape": shape, "axis": axis, "qtype": qname, "group_size": gs}
    return None


def replay_file(path):
    import json
    rec = json.load(open(path))
    inst = rec["instance"]
    r = replay_locality(rec.get("model") or {}, rec.get("seed", 0), inst) if inst.get("lemma") == "locality" else replay(rec.get("model") or {}, rec.get("seed", 0), inst)
    print(json.dumps(r, indent=1, default=str))
    return 1 if r else 0
