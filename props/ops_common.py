"""Shared machinery of C05 / C06 / C07: one homomorphism + invariant obligation set per registered op x argument pattern.

For each case the REAL dispatch entry (QBytesTensor/QBitsTensor.__torch_dispatch__, reached as PyTorch reaches it: A-TORCH-DISPATCH)
is executed symbolically on tensors satisfying the representation invariant, next to the reference `op(dequantized args)` executed on
the PyTorch model.  Obligations: no undocumented exception when the float program is valid; deq(result) REL reference; Inv(result).
"""
import z3

from contracts import group as CG
from contracts import packed as CP
from props import inv
from qvc import lib
from qvc.interp import RaiseEx
from qvc.lib import idx_vars, zi
from qvc.sym import Unsupported
from qvc.tm_tensor import call_aten, is_wrapper, new_input
from qvc.values import AtenOp, Builtin, DType, ExcVal, Obj, STensor, contiguous_strides

QBYTES = "optimum/quanto/tensor/qbytes.py"
QBITS = "optimum/quanto/tensor/qbits/qbits.py"
QOPS = "optimum/quanto/tensor/qbytes_ops.py"
QBOPS = "optimum/quanto/tensor/qbits/qbits_ops.py"
QTENSOR = "optimum/quanto/tensor/qtensor.py"
QFUNC = "optimum/quanto/tensor/qtensor_func.py"
QTYPE = "optimum/quanto/tensor/qtype.py"
PAYLOAD = {"qint8": "int8", "qfloat8_e4m3fn": "float8_e4m3fn", "qfloat8_e5m2": "float8_e5m2"}


def engine(run, **kw):
    E = run.engine(**kw)
    E.load_module("optimum/quanto/tensor/__init__.py")
    E.load_module(QOPS)
    E.load_module(QBOPS)
    CP.install(E)
    CG.install(E)
    return E


class H:
    """Helpers available to case builders (one instance per path run)."""

    def __init__(self, E, qname, axis, dtype="float32"):
        self.E, self.qname, self.axis, self.dtype = E, qname, axis, dtype
        self.qt = E.load_module(QTYPE).env.lookup(qname)
        self.cls = E.get(f"{QBYTES}::QBytesTensor")
        self.n = 0
        self.quantized = []

    def dims(self, rank, prefix="d"):
        ds, pos = lib.dims(prefix, rank)
        for c in pos:
            self.E.assume(c)
        return ds

    def q(self, shape, name=None, scale=None, axis="default", positive=None):
        self.n += 1
        name = name or f"Q{self.n}"
        axis = self.axis if axis == "default" else axis
        E = self.E
        data = new_input(E, name + "_d", PAYLOAD[self.qname], list(shape))
        if scale is None:
            scale = new_input(E, name + "_s", self.dtype, inv.keepdim_shape(list(shape), axis))
        t = E.call(self.cls, [self.qt, axis, tuple(shape), contiguous_strides(list(shape)), data, scale], {})
        self.quantized.append(t)
        return t

    def plain(self, shape, name=None, dtype=None):
        self.n += 1
        return new_input(self.E, name or f"P{self.n}", dtype or self.dtype, list(shape))


def deq(E, x):
    if is_wrapper(x):
        return E.call(E.getattr(x, "dequantize"), [], {})
    if isinstance(x, (list, tuple)):
        return type(x)(deq(E, y) for y in x)
    if isinstance(x, dict):
        return {k: deq(E, v) for k, v in x.items()}
    return x


def run_case(E, op, build, mode="dispatch"):
    """Returns a Builtin executing: args = build(); ref = op(deq(args)); res = dispatch(op, args)."""

    def prog(E2):
        h, args, kwargs = build(E2)
        ref = None
        try:
            ref = ("value", call_aten(E2, AtenOp(op), list(deq(E2, args)), deq(E2, kwargs)))
        except RaiseEx as r:
            ref = ("raises", r.exc)
        try:
            res = ("value", call_aten(E2, AtenOp(op), list(args), dict(kwargs)))
        except RaiseEx as r:
            res = ("raises", r.exc)
        # dequantize the results inside the explored program (dequantize may branch, e.g. ungroup's shape test)
        if res[0] == "value":
            try:
                h.res_deq = deq(E2, res[1])
            except RaiseEx as r:
                h.res_deq = ("deq-raises", r.exc)
        return h, args, kwargs, ref, res

    return Builtin(f"case:{op}", prog)


def compare(run, E, r, prefix, tag, inst, res, ref, rel, rp, hyps_extra=(), level="property", dq=None):
    """Element-wise relation between the (dequantized) result and the reference, at a symbolic index."""
    if isinstance(res, (list, tuple)) and isinstance(ref, (list, tuple)):
        if len(res) != len(ref):
            run.add(f"{prefix}/same-number-of-results[{tag}]", r.hyps, z3.BoolVal(False), level, inst, replay=rp)
            return
        for k, (a, b) in enumerate(zip(res, ref)):
            compare(run, E, r, prefix, f"{tag}/out{k}", inst, a, b, rel, rp, hyps_extra, level, dq[k] if isinstance(dq, (list, tuple)) else None)
        return
    if not isinstance(ref, STensor):
        # python value (bool from is_same_size ...)
        eq = E.eq(res, ref)
        run.add(f"{prefix}/value[{tag}]", r.hyps + list(hyps_extra), eq if not isinstance(eq, bool) else z3.BoolVal(eq), level, inst, replay=rp)
        return
    val = (dq if dq is not None else deq(E, res)) if is_wrapper(res) else res
    if not isinstance(val, STensor):
        run.add(f"{prefix}/returns-a-tensor[{tag}]", r.hyps, z3.BoolVal(False), level, inst, replay=rp)
        return
    run.add(f"{prefix}/shape[{tag}]", r.hyps + list(hyps_extra), lib.shape_eq(val.shape, ref.shape), level, inst, replay=rp)
    if len(val.shape) != len(ref.shape):
        return
    ids, inb = idx_vars("i", ref.shape)
    E.drain()
    a, b = val.elem(ids), ref.elem(ids)
    facts = E.drain() + list(E.ps.get("lazy_facts", []))
    hy = r.hyps + inb + facts + list(hyps_extra)
    if rel in ("exact", "real"):
        goal = (a == b)
    elif rel == "bool":
        goal = (a == b)
    else:
        raise ValueError(rel)
    run.add(f"{prefix}/{'exact' if rel == 'exact' else 'equal'}[{tag}]", hy, goal, level, inst, replay=rp, timeout=30)


# ------------------------------------------------------------------------------------------------ case table (QBytesTensor)
def _cases():
    C = []

    def case(name, op, build, rel="exact", axes=(None, 0, -1), fams=("qint8", "qfloat8_e4m3fn"), refusal=None, pos=False, moves=False):
        C.append(dict(name=name, op=op, build=build, rel=rel, axes=axes, fams=fams, refusal=refusal, pos=pos, moves=moves))

    two = lambda h: h.dims(2)
    f16 = DType("float16")
    # moves / copies
    case("to_copy-dtype", "_to_copy", lambda h: ([h.q(two(h))], {"dtype": f16}), moves=True)
    case("to_copy-nodtype", "_to_copy", lambda h: ([h.q(two(h))], {}), moves=True)
    case("to-dtype", "to", lambda h: ([h.q(two(h))], {"dtype": f16}), moves=True)
    case("detach", "detach", lambda h: ([h.q(two(h))], {}), moves=True)
    case("clone", "clone", lambda h: ([h.q(two(h))], {}), moves=True)
    # cat / stack
    def two_same_scale(h):
        ds = two(h)
        a = h.q(ds)
        b = h.q(ds, scale=a.fields["_scale"])
        return a, b
    def two_any_scale(h):
        ds = two(h)
        return h.q(ds), h.q(ds)
    case("cat-same-scale", "cat", lambda h: ([list(two_same_scale(h)), 0], {}))
    case("cat-any-scales", "cat", lambda h: ([list(two_any_scale(h)), 0], {}))
    case("cat-three", "cat", lambda h: ((lambda ds: [[h.q(ds), h.q(ds), h.q(ds)], 0])(two(h)), {}), axes=(None,))
    case("cat-with-plain", "cat", lambda h: ((lambda ds: [[h.q(ds), h.plain(ds)], 0])(two(h)), {}), axes=(None,))
    case("stack-same-scale", "stack", lambda h: ([list(two_same_scale(h)), 0], {}))
    case("stack-any-scales", "stack", lambda h: ([list(two_any_scale(h)), 0], {}))
    case("stack-three", "stack", lambda h: ((lambda ds: [[h.q(ds), h.q(ds), h.q(ds)], 0])(two(h)), {}), axes=(None,))
    # comparisons
    case("lt-same-scale", "lt", lambda h: (list(two_same_scale(h)), {}), rel="bool", pos=True)
    case("lt-any-scales", "lt", lambda h: (list(two_any_scale(h)), {}), rel="bool", pos=True)
    case("lt-q-plain", "lt", lambda h: ((lambda ds: [h.q(ds), h.plain(ds)])(two(h)), {}), rel="bool", axes=(None, 0))
    case("lt-plain-q", "lt", lambda h: ((lambda ds: [h.plain(ds), h.q(ds)])(two(h)), {}), rel="bool", axes=(None, 0))
    case("is_same_size-qq", "is_same_size", lambda h: ([h.q(two(h)), h.q(h.dims(2, "e"))], {}), rel="bool", axes=(None,))
    case("is_same_size-q-plain", "is_same_size", lambda h: ([h.q(two(h)), h.plain(h.dims(2, "e"))], {}), rel="bool", axes=(None,))
    # copy_
    case("copy_-q-from-q", "copy_", lambda h: (list(two_any_scale(h)), {}), moves=True)
    def q_and_q_other_dtype(h):
        ds = two(h)
        a = h.q(ds)
        h.n += 1
        sc = new_input(h.E, f"Q{h.n}_s16", "float16", inv.keepdim_shape(list(ds), h.axis))
        return a, h.q(ds, scale=sc)
    case("copy_-q-from-q-other-dtype", "copy_", lambda h: (list(q_and_q_other_dtype(h)), {}), moves=True)
    case("copy_-plain-from-q", "copy_", lambda h: ((lambda ds: [h.plain(ds), h.q(ds)])(two(h)), {}), axes=(None,))
    # rescaling
    c = z3.Real("c")
    def nz(h):
        h.E.assume(c != 0)
        return c
    case("div-scalar", "div", lambda h: ([h.q(two(h)), 2.0], {}), rel="real")
    case("div-symbolic-scalar", "div", lambda h: ([h.q(two(h)), nz(h)], {}), rel="real", axes=(None, 0))
    case("div-by-tensor", "div", lambda h: ((lambda ds: [h.q(ds), h.plain(ds)])(two(h)), {}), rel="real", axes=(None, 0))
    case("div-plain-by-q", "div", lambda h: ((lambda ds: [h.plain(ds), h.q(ds)])(two(h)), {}), rel="real", axes=(None,))
    case("mul-scalar-q", "mul", lambda h: ([3.0, h.q(two(h))], {}), rel="real")
    case("mul-q-symbolic-scalar", "mul", lambda h: ([h.q(two(h)), c], {}), rel="real", axes=(None, -1))
    case("mul-q-0dim-tensor", "mul", lambda h: ([h.q(two(h)), h.plain([])], {}), rel="real", axes=(None, 0))
    case("mul-q-1elem-tensor", "mul", lambda h: ([h.q(two(h)), h.plain([1, 1, 1])], {}), rel="real", axes=(None,))
    case("mul-q-q", "mul", lambda h: (list(two_any_scale(h)), {}), rel="real", axes=(None,))
    case("mul-q-plain", "mul", lambda h: ((lambda ds: [h.q(ds), h.plain(ds)])(two(h)), {}), rel="real", axes=(None, 0))
    case("neg", "neg", lambda h: ([h.q(two(h))], {}), rel="real", pos="not-int8-min")
    case("relu", "relu", lambda h: ([h.q(two(h))], {}), rel="real", pos=True)
    # views
    for ax in ("per",):
        case("expand", "expand", lambda h: ((lambda ds: [h.q([1, ds[1]], axis=None if h.axis is None else -1), [ds[0], ds[1]]])(two(h)), {}), axes=(None, -1))
        case("permute", "permute", lambda h: ([h.q(two(h)), [1, 0]], {}))
        case("select", "select", lambda h: ([h.q(two(h)), 0, 0], {}))
        case("slice", "slice", lambda h: ([h.q(two(h)), 0, 0, 1], {}))
        case("unsqueeze", "unsqueeze", lambda h: ([h.q(two(h)), 0], {}))
        case("transpose", "transpose", lambda h: ([h.q(two(h)), 0, 1], {}))
        # rank 3: the two swapped dimensions may or may not include the quantization axis, and may be spelled negatively
        case("transpose-3d-01", "transpose", lambda h: ([h.q(h.dims(3)), 0, 1], {}))
        case("transpose-3d-12", "transpose", lambda h: ([h.q(h.dims(3)), 1, 2], {}))
        case("transpose-3d-neg", "transpose", lambda h: ([h.q(h.dims(3)), -1, -2], {}))
        case("transpose-3d-negfirst", "transpose", lambda h: ([h.q(h.dims(3)), -3, 1], {}))
        case("permute-3d", "permute", lambda h: ([h.q(h.dims(3)), [1, 0, 2]], {}))
        case("t-2d", "t", lambda h: ([h.q(two(h))], {}))
        case("t-1d", "t", lambda h: ([h.q(h.dims(1))], {}), axes=(None,))
        case("view-flat", "view", lambda h: ([h.q(two(h)), [-1]], {}))
        case("unsafe_view-flat", "_unsafe_view", lambda h: ([h.q(two(h)), [-1]], {}))
        case("view-3d", "view", lambda h: ((lambda ds: [h.q(ds), [ds[0], ds[1], 1]])(two(h)), {}), axes=(None,))
    case("split-size", "split", lambda h: ((lambda ds: [h.q([3, ds[1]]), 2, 0])(two(h)), {}), axes=(None, -1))
    case("split-sizes", "split", lambda h: ((lambda ds: [h.q([3, ds[1]]), [1, 2], 0])(two(h)), {}), axes=(None,))
    # fall-through ops (no registered implementation): qfallback
    case("add-q-q", "add", lambda h: (list(two_any_scale(h)), {}), rel="real", axes=(None, 0))
    case("abs", "abs", lambda h: ([h.q(two(h))], {}), rel="real", axes=(None,))
    case("sub-q-plain", "sub", lambda h: ((lambda ds: [h.q(ds), h.plain(ds)])(two(h)), {}), rel="real", axes=(None,))
    return C


CASES = _cases()


def explore_cases(run, handler, prefix, tier):
    """Runs every case; handler(E, case, inst, tag, r, h, args, kwargs, ref, res) adds the obligations."""
    for cs in CASES:
        for qname in cs["fams"]:
            for axis in cs["axes"]:
                inst = {"op": cs["op"], "case": cs["name"], "qtype": qname, "axis": axis}
                run.count_instance(op=cs["op"], qtype=qname, axis=axis, case=cs["name"])
                E = engine(run)

                def build(E2, cs=cs, qname=qname, axis=axis):
                    h = H(E2, qname, axis)
                    args, kwargs = cs["build"](h)
                    return h, args, kwargs

                prog = run_case(E, cs["op"], build)
                try:
                    res = E.explore(prog, lambda E2: ([], {}), name=f"{prefix}.{cs['name']}")
                except Unsupported as u:
                    run.undecide(f"{prefix}/{cs['name']}[{qname}/axis{axis}]", u, inst)
                    continue
                run.absorb(E)
                tag = f"{cs['name']}/{qname}/axis{axis}"
                if not run.expect_paths(res, f"{prefix}/{tag}", inst):
                    continue
                for pi, r in enumerate(res):
                    if r.outcome != "return":
                        run.add(f"{prefix}/case-harness[{tag}]/path{pi}", r.hyps, z3.BoolVal(False), "side", inst, {"outcome": repr(r.value)[:200]})
                        continue
                    E.focus(r)
                    h, args, kwargs, ref, rs = r.value
                    handler(E, cs, inst, f"{tag}/path{pi}", r, h, args, kwargs, ref, rs)
