"""C16 - finite tensors never quantize to NaN/Inf, whatever their range (DESIGN 6.16).

Bit-precise (SMT FloatingPoint + bit-vectors) execution of the real chains
   quantize_weight -> optimizer -> quantizer -> tensor -> dequantizer        (weights)
   absmax_scale -> quantize_activation -> dequantizer                        (calibrated activations)
on a symbolic row/group of unbounded length (reductions through the amax/amin axioms).  The obligations are carved by
the magnitude of the row so that the known extreme-range defects cannot mask anything else.
"""
import z3

from contracts import group as CG
from contracts import packed as CP
from qvc import lib, sym
from qvc.lib import zi
from qvc.sym import Unsupported
from qvc.tm_tensor import new_input, reduction_facts

QW = "optimum/quanto/tensor/qweight.py"
CAL = "optimum/quanto/calibrate.py"
QACT = "optimum/quanto/tensor/qactivation.py"
QTYPE = "optimum/quanto/tensor/qtype.py"
ABSO = "optimum/quanto/tensor/optimizers/absmax_optimizer.py"
MAXO = "optimum/quanto/tensor/optimizers/max_optimizer.py"
SYMQ = "optimum/quanto/tensor/quantizers/symmetric.py"
AFFQ = "optimum/quanto/tensor/quantizers/affine.py"
QBYTES = "optimum/quanto/tensor/qbytes.py"
QBITS = "optimum/quanto/tensor/qbits/qbits.py"

SRC_W = """
def prog(t, qtype):
    q = quantize_weight(t, qtype, 0)
    return q, q.dequantize()
"""
SRC_A = """
def prog(t, qtype):
    s = absmax_scale(t, qtype)
    q = quantize_activation(t, qtype, s)
    return q, q.dequantize()
"""


def fin(v):
    return z3.Not(z3.Or(z3.fpIsNaN(v), z3.fpIsInf(v)))


def engine(run):
    E = run.engine(intmode="bv", floatmode="F")
    E.load_module("optimum/quanto/tensor/__init__.py")
    E.load_module(CAL)
    CP.install(E)
    CG.install(E)
    return E


def finite_inputs(E, srt, rank):
    xf = z3.Function("X", *([z3.IntSort()] * rank), srt)
    return lib.touched_facts(E, lambda name, idx: fin(xf(*idx)) if name == "X" else None)


def chains(run):
    FT = 240 if run.tier == "quick" else 600
    dtypes = ["float16", "bfloat16"] + (["float32"] if run.tier == "thorough" else [])
    for path in ("weights", "activations"):
        for qname in ("qint8", "qfloat8_e4m3fn", "qfloat8_e5m2", "qint4", "qint2"):
            low = qname in ("qint2", "qint4")
            if low and path == "activations":
                continue
            for dtype in dtypes:
                if run.tier == "quick" and dtype == "bfloat16" and (low or path == "activations"):
                    continue
                inst = {"path": path, "qtype": qname, "dtype": dtype}
                run.count_instance(**inst)
                E = engine(run)
                qt = E.load_module(QTYPE).env.lookup(qname)
                prog = E.snippet(SRC_W if path == "weights" else SRC_A, QW if path == "weights" else CAL,
                                 {"quantize_activation": E.get(f"{QACT}::quantize_activation")})
                n0, n1 = z3.Ints("n0 n1")
                srt = E.alg.fpsort(dtype)

                def setup(E2, qt=qt, dtype=dtype):
                    E2.assume(n0 >= 2)   # an axis of size 1 degrades to per-tensor: covered by the activations path
                    E2.assume(n1 >= 1)
                    return [new_input(E2, "X", dtype, [n0, n1]), qt], {}

                res = E.explore(prog, setup, name="C16.chain")
                run.absorb(E)
                tag = f"{path}/{qname}/{dtype}"
                if not run.expect_paths(res, f"C16/chain[{tag}]", inst):
                    continue
                rp = lambda m, s, i=dict(inst): replay(m, s, i)
                i, j = z3.Ints("i j")
                for pi, r in enumerate(res):
                    if r.outcome == "raise":
                        run.add(f"C16/no-exception[{tag}]/path{pi}:{r.value.tname}", r.hyps, z3.BoolVal(False), "property", inst, replay=rp)
                        continue
                    q, d = r.value
                    E.focus(r)
                    xf = z3.Function("X", z3.IntSort(), z3.IntSort(), srt)
                    x = xf(i, j)
                    dq = d.elem([i, j])
                    reds = E.ps.get("reductions", [])
                    facts = reduction_facts(E, extra_points=[[i, j]])
                    facts += finite_inputs(E, srt, 2)
                    hy = r.hyps + [i >= 0, i < n0, j >= 0, j < n1] + facts
                    mx = sym.FLOAT_MAX[dtype]
                    # magnitude of the row / group / tensor the scale is computed from
                    if low:
                        amax = [ri for ri in reds if ri.kind == "amax"][0].res_fn([i])
                        amin = [ri for ri in reds if ri.kind == "amin"][0].res_fn([i])
                        mag = z3.If(z3.fpGT(z3.fpAbs(amax), z3.fpAbs(amin)), z3.fpAbs(amax), z3.fpAbs(amin))
                    else:
                        ri = [x_ for x_ in reds if x_.kind == "amax"][0]
                        mag = ri.res_fn(ri.kept([i, j]))
                    zero = z3.fpIsZero(mag)
                    tinyv = {"float16": 2.0**-14, "bfloat16": 2.0**-126, "float32": 2.0**-126}[dtype] * 256
                    tiny = z3.And(z3.Not(zero), z3.fpLT(mag, z3.FPVal(tinyv, srt)))
                    moderate = z3.And(z3.fpGEQ(mag, z3.FPVal(tinyv, srt)), z3.fpLEQ(mag, z3.FPVal(mx / 4, srt)))
                    extreme = z3.fpGT(mag, z3.FPVal(mx / 4, srt))
                    fam = "float8" if qname.startswith("qfloat8") else "int"
                    for cname, cond in (("all-zero", zero), ("tiny", tiny), ("moderate", moderate), ("extreme", extreme)):
                        run.add(f"C16/{fam}/dequantized-finite-{cname}[{tag}]/path{pi}", hy + [cond], fin(dq), "property", inst, replay=rp, timeout=FT)
                    # error still bounded by (about) one step: |deq - x| <= step * (1/2 + 2^8 eps) + denormal slack, for rows of moderate magnitude
                    D = z3.FPSort(11, 53)
                    eps = 2.0 ** -(sym.FLOAT_DTYPES[dtype][1] - 1)
                    den = {"float16": 2.0**-24, "bfloat16": 2.0**-133, "float32": 2.0**-149}[dtype]
                    sc = q.fields["_scale"]
                    s = sc.elem([i, 0]) if len(sc.shape) == 2 else sc.elem([])
                    sd = z3.fpToFP(z3.RNE(), s, D)
                    err = z3.fpAbs(z3.fpSub(z3.RNE(), z3.fpToFP(z3.RNE(), dq, D), z3.fpToFP(z3.RNE(), x, D)))
                    if qname.startswith("qfloat8"):
                        # float8 grid: relative half step 2^-4 (e4m3) / 2^-3 (e5m2) of |x| (+ the subnormal float8 step times the scale)
                        rel, sub = (2.0**-4, 2.0**-10) if "e4m3" in qname else (2.0**-3, 2.0**-17)
                        xa = z3.fpAbs(z3.fpToFP(z3.RNE(), x, D))
                        bound = z3.fpAdd(z3.RNE(), z3.fpAdd(z3.RNE(), z3.fpMul(z3.RNE(), z3.FPVal(rel + 8 * eps, D), xa),
                                                            z3.fpMul(z3.RNE(), z3.FPVal(sub + 8 * eps, D), sd)), z3.FPVal(4 * den, D))
                    else:
                        bound = z3.fpAdd(z3.RNE(), z3.fpMul(z3.RNE(), z3.FPVal(0.5 + 256 * eps, D), sd), z3.FPVal(4 * den, D))
                    facts2 = finite_inputs(E, srt, 2)
                    if fam == "float8" or run.tier == "thorough":
                        # the bound presupposes a scale with full precision: carved at "the scale is a normal number of the dtype"
                        # (carved on the INPUT magnitude, not on the computed scale, so that a change of the scale computation cannot move
                        # cases into the carved-out region: largest magnitude >= 4 * smallest normal * divisor, divisor = what the
                        # unmodified code divides by - 127 for every weight qtype (C03's float8 finding), qmax for activations)
                        div_ = 127.0 if (path == "weights" or qname == "qint8") else float({"qfloat8_e4m3fn": 448, "qfloat8_e5m2": 57344}[qname])
                        s_normal = z3.fpGEQ(mag, z3.FPVal({"float16": 2.0**-14, "bfloat16": 2.0**-126, "float32": 2.0**-126}[dtype] * div_ * 4, srt))
                        run.add(f"C16/error-bounded-moderate[{tag}]/path{pi}", hy + facts2 + [moderate, s_normal], z3.fpLEQ(err, bound), "property", inst, replay=rp, timeout=FT)
                        run.add(f"C16/{fam}/error-bounded-with-a-subnormal-scale[{tag}]/path{pi}", hy + facts2 + [moderate, z3.Not(s_normal)], z3.fpLEQ(err, bound), "property", inst,
                                replay=lambda m, sd, i=dict(inst): replay_subnormal_scale(m, sd, i), timeout=FT)
                    elif "int-error-bound" not in "".join(run.not_decided):
                        run.not_decided.append("int-error-bound: bit-precise error bound |deq-x| <= step*(1/2+256eps) for integer qtypes is attempted in the "
                                               "thorough tier only (both solvers exceed 90 s); the real-arithmetic bound is C01/C02")
                    run.add(f"C16/error-bounded-all-zero[{tag}]/path{pi}", hy + facts2 + [zero, fin(dq)], z3.fpIsZero(dq), "property", inst, replay=rp, timeout=FT)


SRC_ZL = """
def prog(w, x, b, qtype):
    qw = quantize_weight(w, qtype, 0)
    return qw, torch.nn.functional.linear(x, qw, b)
"""


def zero_layer(run):
    """'A layer whose weights are all zero outputs exactly its bias': bit-precise run of quantize_weight(0-matrix) followed by the
    quantized linear function, for a symbolic number of rows, features and batch.  The contraction enters as an uninterpreted sum:
    (zl-1) every summand of it is (+-)0 [proved], (zl-2) given that the sum is then (+-)0 [A-TORCH-RED: a sum of zeros is zero], the
    output element equals the bias element [proved]."""
    from props.C07 import occurrences, sums_in
    FT = 120 if run.tier == "quick" else 400
    dtypes = ["float16"] + (["bfloat16", "float32"] if run.tier == "thorough" else [])
    for qname in ("qint8", "qint4", "qint2", "qfloat8_e4m3fn"):
        for dtype in dtypes:
            for bias in (True, False):
                if run.tier == "quick" and not bias and qname != "qint8":
                    continue
                inst = {"path": "zero-layer", "qtype": qname, "dtype": dtype, "bias": bias}
                run.count_instance(**inst)
                E = engine(run)
                E.load_module("optimum/quanto/library/__init__.py")
                E.load_module("optimum/quanto/tensor/qtensor_func.py")
                qt = E.load_module(QTYPE).env.lookup(qname)
                prog = E.snippet(SRC_ZL, QW)
                N, K, B = z3.Ints("N K B")
                srt = E.alg.fpsort(dtype)

                def setup(E2, qt=qt, dtype=dtype, bias=bias):
                    E2.assume(N >= 2)
                    E2.assume(K >= 1)
                    E2.assume(B >= 1)
                    return [new_input(E2, "W", dtype, [N, K]), new_input(E2, "X", dtype, [B, K]), new_input(E2, "Bi", dtype, [N]) if bias else None, qt], {}

                tag = f"{qname}/{dtype}/{'bias' if bias else 'nobias'}"
                fam = "float8" if qname.startswith("qfloat8") else "int"
                try:
                    res = E.explore(prog, setup, name="C16.zero-layer")
                except Unsupported as u:
                    run.undecide(f"C16/{fam}/zero-layer[{tag}]", u, inst)
                    continue
                run.absorb(E)
                if not run.expect_paths(res, f"C16/{fam}/zero-layer[{tag}]", inst):
                    continue
                rp = lambda m, sd, i=dict(inst): replay_zero_layer(m, sd, i)
                i, j, k = z3.Ints("i j k")
                for pi, r in enumerate(res):
                    if r.outcome == "raise":
                        run.add(f"C16/{fam}/zero-layer-no-exception[{tag}]/path{pi}:{r.value.tname}", r.hyps, z3.BoolVal(False), "property", inst, replay=rp)
                        continue
                    E.focus(r)
                    qw, out = r.value
                    run.add(f"C16/{fam}/zero-layer-shape[{tag}]/path{pi}", r.hyps, z3.And(lib.shape_eq(out.shape, [B, N]), z3.BoolVal(out.dtype == dtype)), "property", inst,
                            replay=lambda m, sd, i=dict(inst): replay_zero_layer(m, sd, i, shape_only=True))
                    if len(out.shape) != 2:
                        continue
                    E.drain()
                    got = out.elem([i, j])
                    wf = z3.Function("W", z3.IntSort(), z3.IntSort(), srt)
                    xf = z3.Function("X", z3.IntSort(), z3.IntSort(), srt)
                    bf = z3.Function("Bi", z3.IntSort(), srt)

                    def given(name, idx):
                        if name == "W":
                            return z3.fpIsZero(wf(*idx))
                        if name == "X":
                            return fin(xf(*idx))
                        if name == "Bi":
                            return fin(bf(*idx))
                        return None

                    S_all = [s_ for s_ in sums_in(E, got)]
                    if len(S_all) != 1:
                        run.undecide(f"C16/{fam}/zero-layer[{tag}]/path{pi}", f"expected one contraction in the output element, found {len(S_all)}", inst)
                        continue
                    S = S_all[0]
                    occ = occurrences(got, S.term.decl().name())
                    if len(occ) != 1:
                        run.undecide(f"C16/{fam}/zero-layer[{tag}]/path{pi}", "the contraction occurs at several indices", inst)
                        continue
                    sargs = [occ[0].arg(t) for t in range(occ[0].num_args())]
                    fk = S.summand(k)
                    facts = reduction_facts(E, extra_points=[[j, k], [j, 0]]) + lib.touched_facts(E, given) + E.drain()
                    hy = r.hyps + [i >= 0, i < B, j >= 0, j < N] + facts
                    same_idx = z3.And(*[a == zi(b_) for a, b_ in zip(sargs, [i, j])]) if len(sargs) == 2 else z3.BoolVal(True)
                    if z3.is_fp(fk):
                        zsum, zk = z3.fpIsZero(occ[0]), z3.fpIsZero(fk)
                    else:
                        zsum, zk = occ[0] == 0, fk == 0
                    run.add(f"C16/{fam}/zero-layer-summands-are-zero[{tag}]/path{pi}", hy + [k >= 0, k < K], z3.And(zk, same_idx), "property", inst, replay=rp, timeout=FT)
                    want = bf(j) if bias else z3.FPVal(0.0, srt)
                    # (conditional on the lemma above: the native counterpart of a failure here is the failure of the whole clause, replayed there)
                    run.add(f"C16/{fam}/zero-layer-outputs-bias[{tag}]/path{pi}", hy + [zsum], z3.fpEQ(got, want), "property", inst, replay=rp if fam == "int" else None, timeout=FT)


def replay_subnormal_scale(model, seed, inst):
    """Rows whose largest magnitude is a normal number but whose scale absmax/qmax is subnormal in the dtype: error vs the grid step."""
    import torch
    from optimum.quanto import absmax_scale, qtypes, quantize_activation, quantize_weight

    dt = {"float16": torch.float16, "bfloat16": torch.bfloat16, "float32": torch.float32}[inst["dtype"]]
    qt = qtypes[inst["qtype"]]
    tiny = float(torch.finfo(dt).tiny)
    rel = {"qfloat8_e4m3fn": 2.0**-4, "qfloat8_e5m2": 2.0**-3}.get(inst["qtype"], 2.0**-7)
    base = torch.tensor([[1.09375, 0.7, -0.33, 0.9], [0.5, 0.25, 1.0, -0.8]], dtype=torch.float64)
    for k in (1024.0, 64.0, 4096.0):
        x = (base * tiny * k).to(dt)
        if inst["path"] == "weights":
            q = quantize_weight(x, qt, 0)
        else:
            q = quantize_activation(x, qt, absmax_scale(x, qt))
        if not (q._scale.abs() < tiny).any():
            continue
        d = q.dequantize().to(torch.float64)
        err = ((d - x.to(torch.float64)).abs() / x.to(torch.float64).abs()).max().item()
        if not (err <= rel * 1.25):
            return {"what": "the scale absmax/qmax is subnormal in the dtype: the error exceeds the half step of the grid", "max_relative_error": err, "half_step_relative": rel,
                    "scale": q._scale.flatten()[0].item(), "largest_magnitude": x.abs().max().item(), "qtype": inst["qtype"], "dtype": inst["dtype"]}
    return None


def replay_zero_layer(model, seed, inst, shape_only=False):
    import torch
    from optimum.quanto import qtypes, quantize_weight

    dt = {"float16": torch.float16, "bfloat16": torch.bfloat16, "float32": torch.float32}[inst["dtype"]]
    torch.manual_seed(seed)
    for (n, k, b) in ((2, 1, 1), (8, 16, 3), (5, 48, 17), (32, 64, 24)):
        w = torch.zeros(n, k, dtype=dt)
        if n > 2:
            w[1] = -0.0
        x = (torch.randn(b, k) * 50).to(dt)
        bias = torch.randn(n).to(dt) if inst["bias"] else None
        try:
            qw = quantize_weight(w, qtypes[inst["qtype"]], 0)
            out = torch.nn.functional.linear(x, qw, bias)
        except Exception as e:
            return {"what": f"raises {type(e).__name__}: {str(e)[:150]}", "n_k_b": [n, k, b]}
        want = bias.expand(b, n) if bias is not None else torch.zeros(b, n, dtype=dt)
        if shape_only:
            if tuple(out.shape) != (b, n) or out.dtype != dt:
                return {"what": "output shape / dtype of the zero-weight layer", "got": list(out.shape)}
            continue
        if tuple(out.shape) != (b, n) or not torch.equal(out, want):
            bad = (out != want) if tuple(out.shape) == (b, n) else None
            return {"what": "a layer with all-zero weights does not output its bias", "n_k_b": [n, k, b], "qtype": inst["qtype"], "dtype": inst["dtype"],
                    "first_bad": (out[bad][:3].tolist() if bad is not None else list(out.shape))}
    return None



def build(run):
    from props import conformance

    conformance.run_conformance(run, ['symmetric', 'affine'])
    run.assume("A-ENGINE qvc VC generator + z3/cvc5", "A-PY", "A-TORCH-EW bit-precise IEEE semantics of / * round clamp and casts (RNE; float->int RTZ)",
               "A-NANCAST NaN -> int8/uint8 cast yields 0 on this CPU (used for all-zero rows of integer qtypes)",
               "A-TORCH-RED amax/amin: bound + attained (NaN-free inputs)", "PackedTensor / group contracts (C04 / C02)")
    run.assumptions += ["rows/groups of unbounded length enter through the reduction axioms", "float32 chains in the thorough tier only",
                        "'moderate' = largest magnitude of the row in (0, dtype_max/4]; 'extreme' = above; the extreme and (float8) all-zero cases are known findings"]
    run.assumptions += ["zero-layer clause: F.linear(x, quantize_weight(0, qtype, axis 0), bias) with float activations (the QLinear forward without activation "
                        "quantization); the contraction is an uninterpreted sum whose summands are proved zero, 'a sum of zeros is zero' is assumed (A-TORCH-RED)"]
    run.not_decided += ["error bound for rows whose largest magnitude is below 256 x the smallest normal number of the dtype ('tiny'): only finiteness is decided "
                        "there (integer qtypes: proved; float8: known finding); a change that only degrades the accuracy of such rows is not noticed (seeded C16_6)",
                        "zero-layer clause with quantized activations / group-wise low-bit weights",
                        "calibration followed by inference across several batches (EMA of scales): the per-batch chain is decided here, the EMA law under C12"]
    E0 = run.engine()
    for key in (f"{ABSO}::AbsmaxOptimizer.optimize", f"{MAXO}::MaxOptimizer.optimize", f"{SYMQ}::SymmetricQuantizer.forward", f"{AFFQ}::AffineQuantizer.forward",
                f"{QBYTES}::QBytesDequantizer.forward", f"{QBITS}::QBitsDequantizer.forward", f"{CAL}::absmax_scale", f"{QW}::quantize_weight"):
        run.under_contract(E0, key)
    for nm, part in (("chains", chains), ("zero-layer", zero_layer)):
        try:
            part(run)
        except Unsupported as u:
            run.undecide(f"C16/{nm}", f"unsupported: {u}")


# ------------------------------------------------------------------------------------------------ native replay
def replay(model, seed, inst):
    import torch
    from optimum.quanto import absmax_scale, qtypes, quantize_activation, quantize_weight

    dt = {"float16": torch.float16, "bfloat16": torch.bfloat16, "float32": torch.float32}[inst["dtype"]]
    qt = qtypes[inst["qtype"]]
    torch.manual_seed(seed)
    mx = torch.finfo(dt).max
    tiny = torch.finfo(dt).tiny
    rows = {
        "zeros": torch.zeros(2, 8), "constant": torch.full((2, 8), 3.0), "one-sided": torch.rand(2, 8) + 0.5, "offset": 5 + 0.01 * torch.randn(2, 8),
        "subnormal": torch.rand(2, 8) * tiny / 4, "near-max": torch.cat([torch.full((2, 1), mx), torch.randn(2, 7)], 1),
        "quarter-max": torch.cat([torch.full((2, 1), mx / 4.01), -torch.rand(2, 7) * mx / 5], 1), "mixed": torch.randn(2, 8) * 100,
        "single": torch.cat([torch.zeros(2, 7), torch.ones(2, 1)], 1), "big-negative": -torch.rand(2, 8) * 6000 - 4400,
        "tiny37": torch.tensor([[-0.0, 37.0, 1.0, 5.0, 0.0, 2.0, 3.0, 4.0], [1.0, 1.0, 1.0, 1.0, 1.0, 1.0, 1.0, 1.0]]) * float(torch.finfo(dt).tiny) * torch.finfo(dt).eps,
    }
    for name, t in rows.items():
        t = t.to(dt)
        if not torch.isfinite(t).all():
            continue
        try:
            if inst["path"] == "weights":
                q = quantize_weight(t, qt, 0)
            else:
                q = quantize_activation(t, qt, absmax_scale(t, qt))
            d = q.dequantize()
        except Exception as e:
            return {"rows": name, "raised": repr(e), "qtype": inst["qtype"], "dtype": inst["dtype"]}
        mag = t.abs().amax(dim=1, keepdim=True) if inst["path"] == "weights" else t.abs().max()
        moderate = (mag >= 256 * float(torch.finfo(dt).tiny)) & (mag <= mx / 4)
        if inst["qtype"].startswith("qint"):
            # integer qtypes: finite for every row that is not extreme (all-zero and tiny rows included)
            fin_ok = torch.isfinite(d) | (mag > mx / 4 if inst["path"] == "weights" else (mag > mx / 4).expand_as(d))
            if not fin_ok.all():
                k = tuple((~fin_ok).nonzero()[0].tolist())
                return {"rows": name, "x": t[k].item(), "dequantized": d[k].item(), "qtype": inst["qtype"], "dtype": inst["dtype"],
                        "what": "finite input dequantizes to a non-finite value", "input": t.tolist()}
        bad = ~torch.isfinite(d) & (moderate if inst["path"] == "weights" else moderate.expand_as(d))
        if bad.any():
            k = tuple(bad.nonzero()[0].tolist())
            return {"rows": name, "x": t[k].item(), "dequantized": d[k].item(), "qtype": inst["qtype"], "dtype": inst["dtype"],
                    "what": "finite input of moderate magnitude dequantizes to a non-finite value", "input": t.tolist()}
        if bool(torch.as_tensor(moderate).all()):
            scale = q._scale.to(torch.float64)
            err = (d.to(torch.float64) - t.to(torch.float64)).abs()
            eps = torch.finfo(dt).eps
            if inst["qtype"].startswith("qfloat8"):
                rel, sub = (2.0**-4, 2.0**-10) if "e4m3" in inst["qtype"] else (2.0**-3, 2.0**-17)
                bound = (rel + 8 * eps) * t.to(torch.float64).abs() + (sub + 8 * eps) * scale + 1e-300
            else:
                bound = (0.5 + 256 * eps) * scale + 4 * float(torch.finfo(dt).tiny) * eps
            if (err > bound).any():
                k = tuple((err > bound).nonzero()[0].tolist())
                return {"rows": name, "x": t[k].item(), "dequantized": d[k].item(), "qtype": inst["qtype"], "dtype": inst["dtype"],
                        "what": "error exceeds the step bound", "input": t.tolist()}
    return None


def replay_file(path):
    import json
    rec = json.load(open(path))
    fn = replay_zero_layer if rec["instance"].get("path") == "zero-layer" else replay
    r = fn(rec.get("model") or {}, rec.get("seed", 0), rec["instance"])
    print(json.dumps(r, indent=1, default=str))
    return 1 if r else 0
