"""C04 - sub-byte packing is lossless, dense, identical across unpack kernels (DESIGN 6.4).

Algebra: BV (8-bit bit-vectors for every byte) + linear integers for the symbolic row count and indices.
Unbounded: row count R >= 1, trailing sizes, every byte value.  Enumerated: bits {2,4} x rank 1..4 x device {cpu, mps}
x kernel route {extension ok, extension build fails, extensions disabled}.
"""
import os

import z3

from qvc import lib, sym
from qvc.cpp import parse_unpack_cpp
from qvc.interp import RaiseEx
from qvc.lib import idx_vars, zi
from qvc.sym import Unsupported
from qvc.tm_tensor import new_input, raise_
from qvc.values import Builtin, ExcVal, Obj, ExtClass, STensor, DType

PACKED = "optimum/quanto/tensor/qbits/packed.py"
PYUNPACK = "optimum/quanto/library/python/unpack.py"
OPS = "optimum/quanto/library/ops.py"
CPPINIT = "optimum/quanto/library/ext/cpp/__init__.py"
CPPSRC = "optimum/quanto/library/ext/cpp/unpack.cpp"
EXT = "optimum/quanto/library/ext/extension.py"


# ------------------------------------------------------------------------------------------------ C++ kernel model
def cpp_unpack_builtin(E, spec):
    """Meaning of the extracted C++ text over the tensor model (A-CPP: the text is verified, not the build)."""
    from qvc import tm_index, tm_tensor

    def f(E2, t, bits):
        if spec["dtype_check"] and t.dtype != "uint8":
            raise_(E2, "RuntimeError", "Unsupported data type")
        if bits not in spec["cases"]:
            if spec["default_throws"]:
                raise_(E2, "RuntimeError", "Can only unpack 2-bit or 4-bit tensors.")
            raise Unsupported("unpack.cpp: switch falls through")
        fn = spec["funcs"][spec["cases"][bits]]
        parts = []
        for mask, sh in fn["items"]:
            x = tm_tensor.binary(E2, "and", t, mask)
            if sh:
                x = tm_tensor.binary(E2, "rshift", x, sh)
            parts.append(x)
        return tm_index.cat(E2, parts, fn["dim"])

    return Builtin("quanto_cpp.unpack", f)


def make_engine(run, ext_mode):
    """ext_mode: 'ok' (extension builds), 'fail' (load raises), 'nondet' (both)."""
    E = run.engine(intmode="bv")
    lib.install_os_model(E)
    spec = parse_unpack_cpp(os.path.join(E.repo, CPPSRC))
    cppfn = cpp_unpack_builtin(E, spec)
    libobj = Obj(ExtClass("quanto_cpp_lib"), {"unpack": cppfn})

    def ext_lib_contract(E2, args, kwargs):
        # assumed contract of Extension.lib (torch.utils.cpp_extension.load): returns the compiled module
        # whose unpack has the meaning of the C++ text, or raises (here: no ninja -> RuntimeError)
        ok = True if ext_mode == "ok" else False if ext_mode == "fail" else E2.choice("ext_build_ok")
        if not ok:
            raise_(E2, "RuntimeError", "Ninja is required to load C++ extensions")
        return libobj

    E.contracts[f"{EXT}::Extension.lib"] = ext_lib_contract
    for m in (OPS, PYUNPACK, CPPINIT, PACKED):
        E.load_module(m)
    return E, spec


DRIVER = """
def prog(t, bits):
    p = PackedTensor.pack(t, bits)
    u = p.unpack()
    return p, u
"""
DRIVER_NUMPY = """
def prog(t, bits):
    p = PackedTensor.pack(t, bits)
    u = p.numpy()     # the values as an array: the same values, the same shape
    return p, u
"""
DRIVER_MUT_RESULT = """
def prog(t, bits):
    p = PackedTensor.pack(t, bits)
    u1 = p.unpack()
    u1 |= 3          # the caller modifies a returned result in place ...
    u = p.unpack()   # ... a later unpack must still return the original values
    return p, u
"""
DRIVER_MUT_INPUT = """
def prog(t, bits):
    p = PackedTensor.pack(t, bits)
    keep = t.clone()
    t |= 3           # the caller modifies the tensor it packed: the packed copy must not change
    u = p.unpack()
    return p, u
"""
DRIVER_DISABLED = """
def prog(t, bits):
    p = PackedTensor.pack(t, bits)
    with disable_extensions():
        u = p.unpack()
    return p, u
"""


def value_bound_facts(E, bits, tname="T"):
    return lib.touched_facts(E, lambda name, idx: z3.ULT(z3.Function(name, *([z3.IntSort()] * len(idx)), z3.BitVecSort(8))(*idx), 1 << bits) if name == tname else None)


def roundtrip(run, tier):
    for bits in (2, 4):
        for rank in (1, 2, 3, 4):
            for device in ("cpu", "mps"):
                for route in ("nondet", "disabled", "mutate-result", "mutate-input", "numpy"):
                    if device == "mps" and route != "nondet":
                        continue
                    if (route.startswith("mutate") or route == "numpy") and rank not in (1, 2):
                        continue
                    inst = {"bits": bits, "rank": rank, "device": device, "route": route}
                    run.count_instance(**inst)
                    E, spec = make_engine(run, "nondet")
                    extra = {"disable_extensions": E.get(f"{OPS}::disable_extensions")}
                    prog = E.snippet({"disabled": DRIVER_DISABLED, "nondet": DRIVER, "mutate-result": DRIVER_MUT_RESULT,
                                      "mutate-input": DRIVER_MUT_INPUT, "numpy": DRIVER_NUMPY}[route], PACKED, extra)
                    ds, dpos = lib.dims("d", rank)

                    def setup(E2, ds=ds, dpos=dpos, device=device, bits=bits, rank=rank):
                        for c in dpos:
                            E2.assume(c)
                        # arbitrary (symbolic, non-negative) strides: contiguous, transposed, step-sliced ... inputs
                        st = [z3.Int(f"st{k}") for k in range(rank)] if device == "cpu" else None
                        for x in st or []:
                            E2.assume(x >= 0)
                        t = new_input(E2, "T", "uint8", ds, device=device, strides=st)
                        return [t, bits], {}

                    res = E.explore(prog, setup, name="C04.roundtrip")
                    run.absorb(E)
                    tag = f"b{bits}/r{rank}/{device}/{route}"
                    if not run.expect_paths(res, f"roundtrip[{tag}]", inst):
                        continue
                    nret = 0
                    for pi, r in enumerate(res):
                        # re-materialise the path to evaluate element terms (touched log is per path)
                        if r.outcome == "raise":
                            run.add(f"C04/no-exception[{tag}]/path{pi}:{lib.exc_name(r.value)}", r.hyps, z3.BoolVal(False),
                                    "property", inst, {"raises": repr(r.value)}, replay=lambda m, s, b=bits, rk=rank, rt=route: replay_roundtrip(m, s, b, rk, rt))
                            continue
                        nret += 1
                        p, u = r.value
                        if route == "nondet":
                            # the source is read-only for pack(): even a value-preserving in-place write fails on overlapping (broadcast) sources
                            wr = [f"{w[0]} into {getattr(w[1], 'name', '?')} at {w[4]}" for w in r.writes if w[0] == "tensor" and isinstance(w[1], STensor) and w[1].root().name == "T"]
                            run.add(f"C04/pack-does-not-write-its-source[{tag}]/path{pi}", r.hyps, z3.BoolVal(not wr), "property", inst, {"writes": wr[:3]},
                                    replay=lambda m, s, b=bits, rk=rank: replay_source_readonly(m, s, b, rk))
                        # element obligations need the touched-index instantiation of "values fit in `bits` bits"
                        E.ps["touched"] = []
                        ids, inb = idx_vars("i", ds)
                        tfn = z3.Function("T", *([z3.IntSort()] * rank), z3.BitVecSort(8))
                        got = u.elem(ids) if len(u.shape) == rank else None
                        hyps = r.hyps + inb
                        run.add(f"C04/shape[{tag}]/path{pi}", r.hyps, lib.shape_eq(u.shape, ds), "property", inst,
                                replay=lambda m, s, b=bits, rk=rank, rt=route: replay_roundtrip(m, s, b, rk, rt))
                        if got is not None:
                            facts = value_bound_facts(E, bits)
                            run.add(f"C04/roundtrip[{tag}]/path{pi}", hyps + facts, got == tfn(*ids), "property", inst,
                                    replay=lambda m, s, b=bits, rk=rank, rt=route: replay_roundtrip(m, s, b, rk, rt))
                        # dense: payload rows == ceil(R*bits/8)
                        rows = p.fields["_data"].shape[0]
                        R = ds[0]
                        run.add(f"C04/dense[{tag}]/path{pi}", r.hyps, z3.And(8 * zi(rows) >= R * bits, 8 * (zi(rows) - 1) < R * bits),
                                "property", inst, replay=lambda m, s, b=bits, rk=rank, rt=route: replay_roundtrip(m, s, b, rk, rt))
                        run.add(f"C04/payload-meta[{tag}]/path{pi}", r.hyps,
                                z3.And(lib.shape_eq(p.fields["_w_size"], ds), lib.shape_eq(p.fields["_data"].shape[1:], ds[1:]),
                                       z3.BoolVal(p.fields["_data"].dtype == "uint8" and p.fields["_bits"] == bits)),
                                "property", inst)
                        run.add_path_obligations([r], f"C04/exec[{tag}]", inst)
                    if nret == 0:
                        run.undecide(f"roundtrip[{tag}]", "no returning path (vacuous)", inst)
                    if bits == 2 and rank == 2 and device == "cpu" and route == "nondet":
                        run.vacuity_check("roundtrip hypotheses", res[0].hyps)


def kernel_agreement(run, tier):
    """python unpack == C++ unpack == UNPACK spec on EVERY uint8 tensor; and the router returns one of them."""
    for bits in (2, 4):
        for rank in (1, 2, 3):
            for device in ("cpu", "mps"):
                inst = {"bits": bits, "rank": rank, "device": device, "lemma": "kernel-agreement"}
                run.count_instance(**inst)
                vpi = 8 // bits
                E, spec = make_engine(run, "ok")
                pyfn = E.oplib[("quanto_py", "unpack", "default")]
                cppfn = cpp_unpack_builtin(E, spec)
                ds, dpos = lib.dims("p", rank)
                P = ds[0]

                def setup(E2, ds=ds, dpos=dpos, device=device, bits=bits):
                    for c in dpos:
                        E2.assume(c)
                    return [new_input(E2, "D", "uint8", ds, device=device), bits], {}

                outs = {}
                for kname, fn in (("py", pyfn), ("cpp", cppfn)):
                    if kname == "cpp" and device != "cpu":
                        continue
                    res = E.explore(fn, setup, name=f"C04.unpack.{kname}")
                    run.absorb(E)
                    if not run.expect_paths(res, f"unpack-{kname}[b{bits}/r{rank}/{device}]", inst):
                        continue
                    if len(res) != 1 or res[0].outcome != "return":
                        for pi, r in enumerate(res):
                            if r.outcome == "raise":
                                run.add(f"C04/unpack-{kname}-no-exception[b{bits}/r{rank}/{device}]/path{pi}", r.hyps,
                                        z3.BoolVal(False), "property", inst)
                        continue
                    outs[kname] = res[0]
                dfn = z3.Function("D", *([z3.IntSort()] * rank), z3.BitVecSort(8))
                mask = (1 << bits) - 1
                for kname, r in outs.items():
                    out = r.value
                    tag = f"{kname}/b{bits}/r{rank}/{device}"
                    run.add(f"C04/unpack-spec-shape[{tag}]", r.hyps,
                            z3.And(zi(out.shape[0]) == vpi * P, lib.shape_eq(out.shape[1:], ds[1:]),
                                   z3.BoolVal(out.dtype == "uint8")), "helper", inst, {"function": f"unpack ({kname})"})
                    for blk in range(vpi):
                        u = z3.Int("u")
                        rest, inb = idx_vars("j", ds[1:])
                        hy = r.hyps + inb + [u >= blk * P, u < (blk + 1) * P]
                        want = z3.LShR(dfn(u - blk * P, *rest), bits * blk) & mask
                        run.add(f"C04/unpack-spec[{tag}]/block{blk}", hy, out.elem([u] + rest) == want, "helper", inst,
                                {"function": f"unpack ({kname})"})
                    run.add_path_obligations([r], f"C04/exec-unpack[{tag}]", inst)
                if "py" in outs and "cpp" in outs:
                    a, b = outs["py"].value, outs["cpp"].value
                    tag = f"b{bits}/r{rank}/{device}"
                    run.add(f"C04/kernels-agree-shape[{tag}]", outs["py"].hyps, lib.shape_eq(a.shape, b.shape), "property", inst,
                            replay=lambda m, s, bb=bits: replay_kernels(m, s, bb))
                    ids, inb = idx_vars("u", a.shape)
                    run.add(f"C04/kernels-agree[{tag}]", outs["py"].hyps + inb, a.elem(ids) == b.elem(ids), "property", inst,
                            replay=lambda m, s, bb=bits: replay_kernels(m, s, bb))


def router(run, tier):
    """torch.ops.quanto.unpack returns quanto_ext's result if enabled and it does not raise, else quanto_py's."""
    for bits in (2, 4):
        for mode in ("enabled", "disabled"):
            inst = {"bits": bits, "lemma": "router", "mode": mode}
            run.count_instance(**inst)
            E, spec = make_engine(run, "nondet")
            calls = []
            SENT_EXT = new_marker = None

            def mk(tagname):
                def f(E2, t, b):
                    calls.append(tagname)
                    return ("RESULT", tagname)
                return Builtin(tagname, f)

            src = """
def prog(t, bits):
    return torch.ops.quanto.unpack(t, bits)
""" if mode == "enabled" else """
def prog(t, bits):
    with disable_extensions():
        return torch.ops.quanto.unpack(t, bits)
"""
            prog = E.snippet(src, OPS)

            def setup(E2, bits=bits):
                del calls[:]
                # abstract kernels: ext may raise (NotImplementedError or another exception) or return
                def extk(E3, t, b):
                    calls.append("ext")
                    if E3.choice("ext_raises"):
                        if E3.choice("ext_raises_notimpl"):
                            raise_(E3, "NotImplementedError", "no kernel")
                        raise_(E3, "RuntimeError", "boom")
                    return ("RESULT", "ext")
                E2.models["torch.ops.quanto_ext.unpack"] = Builtin("ext", extk)
                E2.models["torch.ops.quanto_py.unpack"] = mk("py")
                return [new_input(E2, "D", "uint8", [z3.Int("p0")]), bits], {}

            res = E.explore(prog, setup, name="C04.router")
            run.absorb(E)
            if not run.expect_paths(res, f"router[{mode}/b{bits}]", inst):
                continue
            for pi, r in enumerate(res):
                tag = f"{mode}/b{bits}/path{pi}"
                if r.outcome == "raise":
                    run.add(f"C04/router-no-exception[{tag}]:{lib.exc_name(r.value)}", r.hyps, z3.BoolVal(False), "property", inst)
                    continue
                raised = z3.Bool("ext_raises")
                took = r.value[1] if isinstance(r.value, tuple) else None
                if mode == "disabled":
                    good = z3.BoolVal(took == "py")
                else:
                    good = z3.If(raised, z3.BoolVal(took == "py"), z3.BoolVal(took == "ext"))
                run.add(f"C04/router[{tag}]", r.hyps, good, "property", inst, {"returned": str(took)})
            # the switch is restored on every outcome (shared with C13)
            opsmod = E.load_module(OPS)


def dispatch(run, tier):
    """PackedTensor.__torch_dispatch__: any op other than detach/_to_copy/to acts on the unpacked values."""
    # Complete case split over "any other op": the method can only single out ops it NAMES; every aten op referenced in the file
    # (other than the three documented ones) is tried, plus an op it cannot name.  Both a plain and a packed second operand.
    import ast as _ast
    from qvc.run import REPO as _R
    named = set()
    for node in _ast.walk(_ast.parse(open(_R + "/" + PACKED).read())):
        if isinstance(node, _ast.Attribute) and isinstance(node.value, _ast.Attribute) and node.value.attr == "aten":
            named.add(node.attr)
    opnames = ["some_other_op"] + sorted(named - {"detach", "_to_copy", "to"})
    # ops the file names whose further arguments are integers (dim, index / start, end): every dimension spelling, also negative ones
    INT_ARGS = {"select": [(0, 0), (1, 0), (-1, 0), (-2, 0)], "slice": [(0, 0, 1), (1, 0, 1), (-1, 0, 1), (-2, 0, 1)], "narrow": [(0, 0, 1), (-2, 0, 1)]}
    combos = []
    for b in (2, 4):
        for o in opnames:
            if o in INT_ARGS:
                combos += [(b, o, ("ints",) + tuple(a)) for a in INT_ARGS[o]]
            else:
                combos += [(b, o, sk) for sk in ("plain", "packed")]
    for bits, opname, second in combos:
        inst = {"bits": bits, "lemma": "dispatch", "op": opname, "second": str(second)}
        run.count_instance(**inst)
        E, spec = make_engine(run, "ok")
        ds, dpos = lib.dims("d", 2)
        seen = {}

        def generic_op(E2, *args, **kwargs):
            return ("OPRESULT", args, kwargs)

        src = """
def prog(t, other, bits, OP, pack_other):
    p = PackedTensor.pack(t, bits)
    if pack_other:
        other = PackedTensor.pack(other, bits)
    r = PackedTensor.__torch_dispatch__(OP, (PackedTensor,), (p, other), {"alpha": p})
    return p, r
""" if not isinstance(second, tuple) else """
def prog(t, ints, bits, OP, pack_other):
    p = PackedTensor.pack(t, bits)
    r = PackedTensor.__torch_dispatch__(OP, (PackedTensor,), (p,) + tuple(ints), {})
    return p, (r, OP(t, *ints))
"""
        prog = E.snippet(src, PACKED)

        from qvc.values import AtenOp

        if isinstance(second, tuple):
            # a real aten op (its model), so that a special-cased path that calls it on the payload can be followed
            from qvc.tm_tensor import call_aten as _call_aten
            op = Obj(ExtClass("AtenOverload", {"__call__": Builtin("op", lambda E2, self, *a, opname=opname, **k: _call_aten(E2, AtenOp(opname), list(a), k))}))
        else:
            op = Obj(ExtClass("GenericAtenOverload", {"__call__": Builtin("op", lambda E2, self, *a, **k: generic_op(E2, *a, **k))}))
        op.fields["overloadpacket"] = AtenOp(opname)

        def setup(E2, second=second):
            for c in dpos:
                E2.assume(c)
            if isinstance(second, tuple):
                return [new_input(E2, "T", "uint8", ds), list(second[1:]), bits, op, False], {}
            return [new_input(E2, "T", "uint8", ds), new_input(E2, "O", "uint8", ds), bits, op, second == "packed"], {}

        res = E.explore(prog, setup, name="C04.dispatch")
        run.absorb(E)
        if not run.expect_paths(res, f"dispatch[b{bits}/{opname}/{second}]", inst):
            continue
        rpd = lambda m, sd, i=dict(inst): replay_dispatch(m, sd, i)
        for pi, r in enumerate(res):
            tag = f"b{bits}/{opname}/{second}/path{pi}"
            if r.outcome == "raise":
                run.add(f"C04/dispatch-no-exception[{tag}]:{lib.exc_name(r.value)}", r.hyps, z3.BoolVal(False), "property", inst, replay=rpd)
                continue
            ok = isinstance(r.value, tuple) and isinstance(r.value[1], tuple) and r.value[1][0] == "OPRESULT"
            a = r.value[1][1] if ok else ()
            seen = {"kwargs": r.value[1][2]} if ok else {"kwargs": {}}
            if isinstance(second, tuple):
                got_t, ref_t = r.value[1] if isinstance(r.value[1], tuple) and len(r.value[1]) == 2 else (None, None)
                okt = isinstance(got_t, STensor) and isinstance(ref_t, STensor) and len(got_t.shape) == len(ref_t.shape)
                run.add(f"C04/dispatch-result-has-the-shape-of-the-op-on-unpacked-values[{tag}]", r.hyps, lib.shape_eq(got_t.shape, ref_t.shape) if okt else z3.BoolVal(False), "property", inst, replay=rpd)
                if okt:
                    E.ps["touched"] = []
                    ids, inb = idx_vars("i", ref_t.shape)
                    g_, w_ = got_t.elem(ids), ref_t.elem(ids)
                    facts = value_bound_facts(E, bits)
                    run.add(f"C04/dispatch-result-equals-the-op-on-unpacked-values[{tag}]", r.hyps + inb + facts, g_ == w_, "property", inst, replay=rpd)
                continue
            structural = ok and len(a) == 2 and isinstance(a[0], STensor) and isinstance(a[1], STensor) and (second == "packed" or a[1].name == "O") \
                and isinstance(seen["kwargs"].get("alpha"), STensor)
            run.add(f"C04/dispatch-calls-op-on-unpacked[{tag}]", r.hyps, z3.BoolVal(bool(structural)), "property", inst, replay=rpd)
            if structural:
                E.ps["touched"] = []
                tfn = z3.Function("T", z3.IntSort(), z3.IntSort(), z3.BitVecSort(8))
                ofn = z3.Function("O", z3.IntSort(), z3.IntSort(), z3.BitVecSort(8))
                for nm, ten, fn_ in (("arg", a[0], tfn), ("kwarg", seen["kwargs"]["alpha"], tfn)) + ((("arg2", a[1], ofn),) if second == "packed" else ()):
                    ids, inb = idx_vars("i", ds)
                    if len(ten.shape) != 2:
                        run.add(f"C04/dispatch-unpacked-values[{tag}]/{nm}", r.hyps, z3.BoolVal(False), "property", inst, replay=rpd)
                        continue
                    got = ten.elem(ids)
                    facts = value_bound_facts(E, bits) + (value_bound_facts(E, bits, "O") if second == "packed" else [])
                    run.add(f"C04/dispatch-unpacked-values[{tag}]/{nm}", r.hyps + inb + facts,
                            z3.And(got == fn_(*ids), lib.shape_eq(ten.shape, ds)), "property", inst, replay=rpd)
    for bits in (2, 4):
        inst = {"bits": bits, "lemma": "dispatch"}
        E, spec = make_engine(run, "ok")
        ds, dpos = lib.dims("d", 2)
        from qvc.values import AtenOp
        # detach / _to_copy keep bits, size, stride and move only the payload; non-uint8 dtype -> ValueError
        src2 = """
def prog(t, bits, op, kw):
    p = PackedTensor.pack(t, bits)
    r = PackedTensor.__torch_dispatch__(op, (PackedTensor,), (p,), kw)
    return p, r
"""
        prog2 = E.snippet(src2, PACKED)
        for opname, kw, expect in (("detach", None, "same"), ("_to_copy", {"dtype": DType("uint8")}, "same"),
                                   ("_to_copy", {}, "same"), ("_to_copy", {"dtype": DType("float16")}, "ValueError"),
                                   ("to", {"dtype": DType("int8")}, "ValueError")):
            def setup2(E2, opname=opname, kw=kw):
                for c in dpos:
                    E2.assume(c)
                return [new_input(E2, "T", "uint8", ds), bits, AtenOp(opname), None if kw is None else dict(kw)], {}

            res = E.explore(prog2, setup2, name="C04.dispatch.move")
            run.absorb(E)
            tag = f"b{bits}/{opname}/{'' if not kw else list(kw.values())[0]}"
            if not run.expect_paths(res, f"dispatch-move[{tag}]", inst):
                continue
            for pi, r in enumerate(res):
                if expect == "ValueError":
                    good = r.outcome == "raise" and r.value.tname == "ValueError"
                    run.add(f"C04/packed-dtype-change-refused[{tag}]/path{pi}", r.hyps, z3.BoolVal(good), "property", inst)
                    continue
                if r.outcome == "raise":
                    run.add(f"C04/packed-move-no-exception[{tag}]/path{pi}:{lib.exc_name(r.value)}", r.hyps, z3.BoolVal(False), "property", inst)
                    continue
                p, q = r.value
                isp = isinstance(q, Obj) and q.cls.name == "PackedTensor"
                if not isp:
                    run.add(f"C04/packed-move-keeps-class[{tag}]/path{pi}", r.hyps, z3.BoolVal(False), "property", inst)
                    continue
                ids, inb = idx_vars("k", p.fields["_data"].shape)
                run.add(f"C04/packed-move-keeps-payload[{tag}]/path{pi}", r.hyps + inb,
                        z3.And(q.fields["_data"].elem(ids) == p.fields["_data"].elem(ids),
                               lib.shape_eq(q.fields["_data"].shape, p.fields["_data"].shape),
                               lib.shape_eq(q.fields["_w_size"], p.fields["_w_size"]),
                               z3.BoolVal(q.fields["_bits"] == bits and q.fields["_data"].dtype == "uint8")), "property", inst)


def canaries(run, tier):
    """In-memory AST mutants of the extracted functions that MUST be refuted (engine / contract strength)."""
    import ast
    import copy

    from qvc import solve

    def mutated_engine(mutator):
        E, spec = make_engine(run, "fail")
        mutator(E)
        return E

    def rt_refuted(E, bits, which):
        prog = E.snippet(DRIVER, PACKED)
        ds, dpos = lib.dims("d", 2)

        def setup(E2):
            for c in dpos:
                E2.assume(c)
            return [new_input(E2, "T", "uint8", ds), bits], {}
        try:
            res = E.explore(prog, setup)
        except Unsupported:
            return None
        ob = []
        for r in res:
            if r.outcome != "return":
                continue
            p, u = r.value
            E.ps["touched"] = []
            ids, inb = idx_vars("i", ds)
            tfn = z3.Function("T", z3.IntSort(), z3.IntSort(), z3.BitVecSort(8))
            if which == "roundtrip":
                if len(u.shape) != 2:
                    return True
                got = u.elem(ids)
                ob.append(("rt", r.hyps + inb + value_bound_facts(E, bits), z3.And(got == tfn(*ids), lib.shape_eq(u.shape, ds))))
            else:
                rows = p.fields["_data"].shape[0]
                ob.append(("dense", r.hyps, z3.And(8 * zi(rows) >= ds[0] * bits, 8 * (zi(rows) - 1) < ds[0] * bits)))
        rs = solve.discharge(ob, timeout_s=20, want_model=False)
        return any(x["verdict"] == "refuted" for x in rs)

    changed = {}

    def patch_fn(E, key, transform):
        clo = E.closure_for(key)
        before = ast.dump(clo.node)
        clo.node = transform(copy.deepcopy(clo.node))
        changed["yes"] = ast.dump(clo.node) != before
        relpath, qual = key.split("::")
        mod = E.load_module(relpath)
        parts = qual.split(".")
        if len(parts) == 1:
            if isinstance(mod.env.vars.get(parts[0]), type(clo)):
                mod.env.vars[parts[0]].node = clo.node
        else:
            mod.env.vars[parts[0]].ns[parts[1]].node = clo.node
        return clo

    # 1. drop the [: self.shape[0]] slice in PackedTensor.unpack -> round trip/shape must break
    def m1(E):
        def tr(node):
            for n in ast.walk(node):
                if isinstance(n, ast.Return) and isinstance(n.value, ast.Subscript):
                    n.value = n.value.value
            return node
        patch_fn(E, f"{PACKED}::PackedTensor.unpack", tr)
    r = rt_refuted(mutated_engine(m1), 2, "roundtrip")
    if not changed.get("yes"):
        run.notes.append("canary skipped (pattern not found in this tree): PackedTensor.unpack without [: self.shape[0]]")
    elif r is not None:
        run.canary("PackedTensor.unpack without [: self.shape[0]]", r)

    # 2. shift bits*(i+1) in pack_weights
    def m2(E):
        def tr(node):
            for n in ast.walk(node):
                if isinstance(n, ast.BinOp) and isinstance(n.op, ast.Mult) and isinstance(n.left, ast.Name) and n.left.id == "bits" \
                        and isinstance(n.right, ast.Name) and n.right.id == "i":
                    n.right = ast.BinOp(ast.Name("i", ast.Load()), ast.Add(), ast.Constant(1))
            return ast.fix_missing_locations(node)
        patch_fn(E, f"{PACKED}::pack_weights", tr)
    r = rt_refuted(mutated_engine(m2), 4, "roundtrip")
    if not changed.get("yes"):
        run.notes.append("canary skipped (pattern not found in this tree): pack_weights shift bits*(i+1)")
    elif r is not None:
        run.canary("pack_weights shift bits*(i+1)", r)

    # 3. row_dim floor instead of ceil: dense (and round trip) must break
    def m3(E):
        def tr(node):
            for n in ast.walk(node):
                # structural, independent of the names of locals: (rows + k - 1) // k  ->  rows // k
                v = n.value if isinstance(n, ast.Assign) else None
                if (isinstance(v, ast.BinOp) and isinstance(v.op, ast.FloorDiv) and isinstance(v.left, ast.BinOp) and isinstance(v.left.op, ast.Sub)
                        and isinstance(v.left.right, ast.Constant) and v.left.right.value == 1 and isinstance(v.left.left, ast.BinOp)
                        and isinstance(v.left.left.op, ast.Add) and ast.dump(v.left.left.right) == ast.dump(v.right)):
                    n.value = ast.BinOp(v.left.left.left, ast.FloorDiv(), v.right)
                    changed["yes"] = True
            return ast.fix_missing_locations(node)
        patch_fn(E, f"{PACKED}::pack_weights", tr)
    r = rt_refuted(mutated_engine(m3), 4, "dense")
    if not changed.get("yes"):
        run.notes.append("canary skipped (pattern not found in this tree): pack_weights row_dim = rows // values_per_item (floor)")
    elif r is not None:
        run.canary("pack_weights row_dim = rows // values_per_item (floor)", r)

    # 4. python unpack mask off by one bit
    def m4(E):
        def tr(node):
            for n in ast.walk(node):
                if isinstance(n, ast.Assign) and isinstance(n.targets[0], ast.Name) and n.targets[0].id == "mask":
                    n.value = ast.BinOp(n.value, ast.Sub(), ast.Constant(1))
            return ast.fix_missing_locations(node)
        clo = E.oplib[("quanto_py", "unpack", "default")]
        before = ast.dump(clo.node)
        clo.node = tr(copy.deepcopy(clo.node))
        changed["yes"] = ast.dump(clo.node) != before
    r = rt_refuted(mutated_engine(m4), 2, "roundtrip")
    if not changed.get("yes"):
        run.notes.append("canary skipped (pattern not found in this tree): python unpack mask - 1")
    elif r is not None:
        run.canary("python unpack mask - 1", r)


def build(run):
    from props import conformance

    conformance.run_conformance(run, ['pack'])
    run.assume("A-ENGINE qvc VC generator + z3/cvc5", "A-PY python semantics subset (DESIGN 2.3)",
               "A-TORCH-IDX slicing/cat dim 0/in-place |= through a slice view", "A-TORCH-EW uint8 & | << >> // * wrap-around",
               "A-TORCH-DISPATCH torch.ops.<lib>.<op> picks the kernel registered for the device key, else 'default'",
               "A-CPP the C++ kernel text is verified, its build is not (no ninja in this sandbox)")
    run.assumptions += [
        "tensor dimensions >= 1 (zero-sized dimensions are not covered)",
        "Extension.lib either returns a module whose unpack means what unpack.cpp says or raises (assumed contract on torch.utils.cpp_extension.load)",
        "torch dispatcher routes torch.ops.quanto.unpack to the function registered by define() for every dispatch key",
        "MPS branches are verified as text (uint8 * 2**k and // 2**k in 8-bit wrap-around arithmetic)",
    ]
    run.not_decided += ["the compiled C++ kernel (cannot be built here)", "strided (non-contiguous) inputs beyond index semantics: element access is stride-independent by A-TORCH-IDX"]
    E0 = run.engine(intmode="bv")
    for k in (f"{PACKED}::pack_weights", f"{PACKED}::PackedTensor.pack", f"{PACKED}::PackedTensor.unpack",
              f"{PACKED}::PackedTensor.__new__", f"{PACKED}::PackedTensor.__init__", f"{PACKED}::PackedTensor.__torch_dispatch__",
              f"{PYUNPACK}::unpack", f"{OPS}::define", f"{OPS}::define.impl", f"{OPS}::disable_extensions", f"{CPPINIT}::unpack_cpp"):
        run.under_contract(E0, k)
    import hashlib
    run.functions[f"{CPPSRC}::unpack(+unpack_4bit,unpack_2bit) [recogniser]"] = {
        "file": CPPSRC, "sha256": hashlib.sha256(open(os.path.join(E0.repo, CPPSRC), "rb").read()).hexdigest(), "line": 19}
    tier = run.tier
    for part in (roundtrip, kernel_agreement, router, dispatch, canaries):
        try:
            part(run, tier)
        except Unsupported as u:
            run.undecide(f"C04/{part.__name__}", f"unsupported: {u}")


# ------------------------------------------------------------------------------------------------ native replay
def _model_int(model, name, default):
    try:
        return int(model.get(name, default))
    except Exception:
        return default


def replay_roundtrip(model, seed, bits, rank, route="nondet"):
    """Native oracle on the real code: does pack/unpack round-trip, densely, for contiguous and strided inputs, also
    after the caller modified a previously returned result / the packed input?  Returns a failing input or None."""
    import random

    import torch
    from optimum.quanto.tensor.qbits.packed import PackedTensor

    rnd = random.Random(seed)
    torch.manual_seed(seed)
    R0 = _model_int(model, "d0", 3)
    cands = [R0] + [r for r in range(1, 18)] + [rnd.randint(1, 70) for _ in range(6)]

    def layouts(shape):
        base = torch.randint(0, 2**bits, shape, dtype=torch.uint8)
        yield "contiguous", base
        yield "all-max", torch.full(shape, 2**bits - 1, dtype=torch.uint8)
        if len(shape) >= 2:
            rev = list(reversed(shape))
            yield "transposed", torch.randint(0, 2**bits, rev, dtype=torch.uint8).permute(*reversed(range(len(shape))))
        big = [2 * shape[0]] + list(shape[1:])
        yield "step-sliced", torch.randint(0, 2**bits, big, dtype=torch.uint8)[::2]

    for R in cands:
        if R < 1 or R > 4096:
            continue
        shape = [R] + [max(1, min(5, _model_int(model, f"d{k}", 2))) for k in range(1, rank)]
        for lname, t in layouts(shape):
            orig = t.clone()
            try:
                p = PackedTensor.pack(t, bits)
                if route == "mutate-result":
                    u1 = p.unpack()
                    u1 |= 3
                if route == "mutate-input":
                    t |= 3
                u = p.unpack()
                if route == "numpy":
                    u = torch.from_numpy(p.numpy())
                s = (p + 0)
            except Exception as e:
                return {"shape": shape, "bits": bits, "layout": lname, "route": route, "raised": repr(e)}
            want_rows = -(-R * bits // 8)
            if tuple(u.shape) != tuple(orig.shape) or not torch.equal(u, orig):
                return {"shape": shape, "bits": bits, "layout": lname, "route": route, "input": orig.tolist(),
                        "unpacked": u.tolist(), "what": "unpack() differs from the tensor that was packed"}
            if not torch.equal(s, orig):
                return {"shape": shape, "bits": bits, "layout": lname, "route": route, "what": "op on packed tensor != op on unpacked values"}
            if p._data.shape[0] != want_rows:
                return {"shape": shape, "bits": bits, "payload_rows": p._data.shape[0], "expected_rows": want_rows, "what": "not dense"}
    return None


def replay_kernels(model, seed, bits):
    return None  # the compiled kernel cannot be built here: no native replay possible (A-CPP)


def replay_source_readonly(model, seed, bits, rank):
    """pack() of broadcast (overlapping) and of ordinary sources: no exception, source unchanged."""
    import torch
    from optimum.quanto.tensor.qbits.packed import PackedTensor

    torch.manual_seed(seed)
    top = 1 << bits
    shape = [5, 3, 2, 2][:rank]
    base = torch.randint(0, top, shape, dtype=torch.uint8)
    srcs = {"contiguous": base.clone()}
    if rank >= 2:
        srcs["broadcast"] = torch.randint(0, top, [1] + shape[1:], dtype=torch.uint8).expand(*shape)
        srcs["broadcast-last"] = torch.randint(0, top, shape[:-1] + [1], dtype=torch.uint8).expand(*shape)
    else:
        srcs["broadcast"] = torch.randint(0, top, [1], dtype=torch.uint8).expand(*shape)
    for name, t in srcs.items():
        want = t.clone()
        try:
            p = PackedTensor.pack(t, bits)
            u = p.unpack()
        except Exception as e:
            return {"what": f"pack raises {type(e).__name__}: {str(e)[:140]}", "source": name, "bits": bits}
        if not torch.equal(t, want) or not torch.equal(u, want):
            return {"what": "pack changed its source or lost values", "source": name, "bits": bits}
    return None


def replay_dispatch(model, seed, inst):
    """Named aten ops on packed tensors act on the unpacked values (here: results equal those on plain tensors)."""
    import torch
    from optimum.quanto.tensor.qbits.packed import PackedTensor

    bits = inst["bits"]
    top = 1 << bits
    vpb = 8 // bits
    cases = []
    for rows in (1, 2, 3, 4, 5, 8):
        a = torch.randint(0, top, (rows, 3), dtype=torch.uint8)
        cases.append((a, a.clone()))
        # the same values followed by zero rows, up to the same number of payload rows
        extra = (-rows) % vpb
        if extra:
            b = torch.cat([a, torch.zeros(extra, 3, dtype=torch.uint8)])
            cases.append((a, b))
    if str(inst.get("second", "")).startswith("('ints'"):
        import ast as _ast
        ints = list(_ast.literal_eval(inst["second"]))[1:]
        for rows in (1, 2, 3, 5, 8):
            for cols in (1, 3):
                a = torch.randint(0, top, (rows, cols), dtype=torch.uint8)
                pa = PackedTensor.pack(a, bits)
                op_ = {"select": torch.select, "slice": lambda t, d, s0, e0: torch.narrow(t, d, s0, e0 - s0), "narrow": torch.narrow}[inst["op"]]
                try:
                    want = op_(a, *ints)
                except Exception:
                    continue
                try:
                    got = op_(pa, *ints)
                except Exception as e:
                    return {"what": f"{inst['op']}{tuple(ints)} on a packed tensor raises {type(e).__name__}: {str(e)[:100]}", "shape": [rows, cols]}
                if tuple(got.shape) != tuple(want.shape) or not torch.equal(got, want):
                    return {"what": f"{inst['op']}{tuple(ints)} on a packed tensor differs from the op on the unpacked values", "shape": [rows, cols], "got": got.tolist(), "want": want.tolist()}
        return None
    fns = {"equal": torch.equal, "some_other_op": lambda x, y: torch.equal(x, y)}
    fn = fns.get(inst.get("op"), torch.equal)
    for a, b in cases:
        pa = PackedTensor.pack(a, bits)
        pb = PackedTensor.pack(b, bits) if inst.get("second") == "packed" else b
        try:
            got = fn(pa, pb)
        except Exception as e:
            return {"what": f"raises {type(e).__name__}: {str(e)[:120]}", "shapes": [list(a.shape), list(b.shape)]}
        want = fn(a, b)
        if got != want:
            return {"what": f"{inst.get('op')} on packed tensors differs from the op on the unpacked values", "got": got, "want": want, "a": a.tolist(), "b": b.tolist()}
    return None


def replay_file(path):
    import json
    rec = json.load(open(path))
    inst = rec["instance"]
    r = replay_roundtrip(rec.get("model") or {}, rec.get("seed", 0), inst.get("bits", 2), inst.get("rank", 2), inst.get("route", "nondet"))
    print(json.dumps(r, indent=1))
    return 1 if r else 0
