"""C06 - a quantized tensor's reported metadata always matches what it holds (DESIGN 6.6).

Class invariants Inv_B / Inv_P / Inv_Q (props/inv.py) as postconditions of every function that returns a quantized tensor:
every registered op x argument pattern (case table shared with C05), the QBits ops, quantizers (see also C14), flatten/unflatten.
"""
import z3

from props import inv
from props import ops_common as OC
from qvc import lib
from qvc.lib import idx_vars, zi
from qvc.sym import Unsupported
from qvc.tm_tensor import call_aten, is_wrapper, new_input
from qvc.values import AtenOp, DType, Device, Obj, STensor, contiguous_strides


def results_of(x):
    if isinstance(x, (list, tuple)):
        out = []
        for y in x:
            out += results_of(y)
        return out
    return [x]


def check_tensor(run, E, r, tag, inst, q, rp, prefix="C06", d="compute"):
    """Inv + reported metadata == metadata of the dequantized value."""
    if q.cls.name == "QBytesTensor":
        clauses = inv.inv_qbytes(q)
    elif q.cls.name == "QBitsTensor":
        clauses = inv.inv_qbits(q)
    else:
        clauses = [("known-class", z3.BoolVal(False))]
    for nme, f in clauses:
        run.add(f"{prefix}/inv:{nme}[{tag}]", r.hyps, f, "property", inst, replay=rp)
    if isinstance(d, tuple) and d and d[0] == "deq-raises":
        run.add(f"{prefix}/dequantize-works[{tag}]", r.hyps, z3.BoolVal(False), "property", inst, {"error": repr(d[1])[:200]}, replay=rp)
        return
    if isinstance(d, str):
        raise Unsupported("dequantized value must be computed inside the explored program")
    if isinstance(d, STensor):
        run.add(f"{prefix}/reported-shape==dequantized-shape[{tag}]", r.hyps, lib.shape_eq(list(q.fields["_w_size"]), d.shape), "property", inst, replay=rp)
        run.add(f"{prefix}/reported-dtype-device==dequantized[{tag}]", r.hyps,
                z3.BoolVal(q.fields["_w_dtype"].name == d.dtype and q.fields["_w_device"] == d.device), "property", inst, replay=rp)


def handler(run):
    def f(E, cs, inst, tag, r, h, args, kwargs, ref, res):
        rp = lambda m, s, c=cs["name"], i=dict(inst): replay(m, s, c, i)
        if res[0] != "value":
            return
        dqs = results_of(h.res_deq) if not (isinstance(h.res_deq, tuple) and h.res_deq and h.res_deq[0] == "deq-raises") else None
        for k, o in enumerate(results_of(res[1])):
            if is_wrapper(o):
                check_tensor(run, E, r, f"{tag}/out{k}", inst, o, rp, d=(dqs[k] if dqs is not None else h.res_deq))
        if cs["moves"] and is_wrapper(res[1]):
            # moves and copies never alter codes; a dtype move changes only the dtype of the scale
            src = args[1] if cs["op"] == "copy_" else args[0]
            out = res[1]
            sd, od = src.fields["_data"], out.fields["_data"]
            ids, inb = idx_vars("m", sd.shape)
            run.add(f"C06/move-keeps-codes[{tag}]", r.hyps + inb, z3.And(od.elem(ids) == sd.elem(ids), lib.shape_eq(od.shape, sd.shape),
                                                                       z3.BoolVal(od.dtype == sd.dtype)), "property", inst, replay=rp)
            ss, os_ = src.fields["_scale"], out.fields["_scale"]
            jds, jnb = idx_vars("n", ss.shape)
            want_dt = kwargs.get("dtype").name if kwargs.get("dtype") is not None else (h.dtype if cs["op"] == "copy_" else ss.dtype)
            run.add(f"C06/move-keeps-scale-values-and-sets-dtype[{tag}]", r.hyps + jnb,
                    z3.And(os_.elem(jds) == ss.elem(jds), lib.shape_eq(os_.shape, ss.shape), z3.BoolVal(os_.dtype == want_dt and out.fields["_w_dtype"].name == want_dt)),
                    "property", inst, replay=rp)
            run.add(f"C06/move-keeps-qtype-axis[{tag}]", r.hyps, z3.BoolVal(out.fields["_qtype"] is src.fields["_qtype"] and out.fields["_axis"] == src.fields["_axis"]),
                    "property", inst, replay=rp)
    return f


def qbits_cases(run):
    """QBitsTensor: construction, _to_copy (device move, same dtype), detach, dtype change refused, flatten/unflatten."""
    for qname, bits in (("qint4", 4), ("qint2", 2)):
        for axis in (0, -1):
            for grouped in (False, True):
                inst = {"class": "QBitsTensor", "qtype": qname, "axis": axis, "grouped": grouped}
                run.count_instance(**{"qbits_qtype": qname, "qbits_axis": axis, "qbits_grouped": grouped})
                E = OC.engine(run)
                cls = E.get(f"{OC.QBITS}::QBitsTensor")
                qt = E.load_module(OC.QTYPE).env.lookup(qname)
                ds, dpos = lib.dims("d", 2)
                G, ag = z3.Ints("G ag")

                def make(E2, axis=axis, grouped=grouped, qt=qt):
                    for c in dpos:
                        E2.assume(c)
                    if grouped:
                        k = axis % 2
                        n = ds[1 - k]
                        E2.assume(G >= 1)
                        E2.assume(ag >= 1)
                        E2.assume(n == G * ag)
                        from contracts import group as CG
                        for hh in CG.hints(ds, k, n, G, ag):
                            E2.assume(hh)
                        pshape = [ds[0] * ag, G] if axis == 0 else [G, ds[1] * ag]
                        # numel/G in the shape the code computes
                        pshape = [zi(ds[0] * ds[1]) / G, G] if axis == 0 else [G, zi(ds[0] * ds[1]) / G]
                    else:
                        pshape = list(ds)
                    data = new_input(E2, "C", "uint8", pshape)
                    cid, cinb = idx_vars("cq", pshape)
                    E2.assume(z3.ForAll(cid, z3.Implies(z3.And(*cinb), z3.And(data.elem(cid) >= 0, data.elem(cid) < (1 << (2 if qt.fields["name"] == "qint2" else 4))))))
                    ks = inv.keepdim_shape(pshape, axis)
                    sc = new_input(E2, "S", "float16", ks)
                    zp = new_input(E2, "Z", "int8", ks)
                    return E2.call(cls, [qt, axis, G if grouped else None, tuple(ds), contiguous_strides(ds), data, sc, zp], {})

                from qvc.values import Builtin
                from qvc.interp import RaiseEx

                def prog(E2):
                    q = make(E2)
                    outs = {"ctor": q}
                    dqs = {}

                    def dq_of(x):
                        try:
                            return OC.deq(E2, x)
                        except RaiseEx as rx:
                            return ("deq-raises", rx.exc)
                    dqs["ctor"] = dq_of(q)
                    for nme, op, kw in (("detach", "detach", {}), ("to-same-dtype", "_to_copy", {"dtype": DType("float16"), "device": Device("cpu")}),
                                        ("to-device-only", "_to_copy", {"device": Device("cpu")}), ("to-other-dtype", "_to_copy", {"dtype": DType("float32")})):
                        try:
                            outs[nme] = ("value", call_aten(E2, AtenOp(op), [q], dict(kw)))
                            if is_wrapper(outs[nme][1]):
                                dqs[nme] = dq_of(outs[nme][1])
                        except RaiseEx as rx:
                            outs[nme] = ("raises", rx.exc)
                    try:
                        names, meta = E2.call(E2.getattr(q, "__tensor_flatten__"), [], {})
                        inner = {n_: q.fields[n_] for n_ in names}
                        outs["unflatten"] = ("value", E2.call(E2.getattr(cls, "__tensor_unflatten__"), [inner, meta, None, None], {}))
                        dqs["unflatten"] = dq_of(outs["unflatten"][1])
                    except RaiseEx as rx:
                        outs["unflatten"] = ("raises", rx.exc)
                    outs["__deq__"] = dqs
                    return outs

                try:
                    res = E.explore(Builtin("qbits-cases", prog), lambda E2: ([], {}), name="C06.qbits")
                except Unsupported as u:
                    run.undecide(f"C06/qbits[{qname}/{axis}/{grouped}]", u, inst)
                    continue
                run.absorb(E)
                tag0 = f"qbits/{qname}/axis{axis}/{'grouped' if grouped else 'per-axis'}"
                if not run.expect_paths(res, f"C06/{tag0}", inst):
                    continue
                rp = lambda m, s, i=dict(inst): replay_qbits(m, s, i)
                for pi, r in enumerate(res):
                    if r.outcome != "return":
                        run.add(f"C06/qbits-construction[{tag0}]/path{pi}", r.hyps, z3.BoolVal(False), "property", inst, {"outcome": repr(r.value)[:200]}, replay=rp)
                        continue
                    E.focus(r)
                    outs = r.value
                    q = outs["ctor"]
                    check_tensor(run, E, r, f"{tag0}/ctor/path{pi}", inst, q, rp, d=outs["__deq__"]["ctor"])
                    for nme in ("detach", "to-same-dtype", "to-device-only", "unflatten"):
                        kind, v = outs[nme]
                        tag = f"{tag0}/{nme}/path{pi}"
                        if kind == "raises":
                            run.add(f"C06/does-not-raise[{tag}]:{v.tname}", r.hyps, z3.BoolVal(False), "property", inst, replay=rp)
                            continue
                        if not is_wrapper(v):
                            run.add(f"C06/returns-quantized[{tag}]", r.hyps, z3.BoolVal(False), "property", inst, replay=rp)
                            continue
                        check_tensor(run, E, r, tag, inst, v, rp, d=outs["__deq__"].get(nme, "missing"))
                        gh = lambda t_: t_.fields["_data"].fields.get("_ghost_codes") or (t_.fields["_data"].fields["_data"].attrs.get("ghost_codes") if isinstance(t_.fields["_data"].fields.get("_data"), STensor) else None)
                        a, b = gh(q), gh(v)
                        same_payload = v.fields["_data"] is q.fields["_data"] or (a is not None and b is not None)
                        if a is not None and b is not None:
                            ids, inb = idx_vars("m", a.shape)
                            run.add(f"C06/move-keeps-codes[{tag}]", r.hyps + inb, z3.And(a.elem(ids) == b.elem(ids), lib.shape_eq(a.shape, b.shape)), "property", inst, replay=rp)
                        else:
                            run.add(f"C06/move-keeps-codes[{tag}]", r.hyps, z3.BoolVal(bool(same_payload)), "property", inst, replay=rp)
                        for fld in ("_scale", "_zeropoint"):
                            x, y = q.fields[fld], v.fields[fld]
                            ids, inb = idx_vars("n", x.shape)
                            run.add(f"C06/move-keeps{fld}[{tag}]", r.hyps + inb, z3.And(x.elem(ids) == y.elem(ids), lib.shape_eq(x.shape, y.shape), z3.BoolVal(x.dtype == y.dtype)),
                                    "property", inst, replay=rp)
                        run.add(f"C06/move-keeps-reported-shape-and-stride[{tag}]", r.hyps,
                                z3.And(lib.shape_eq(list(v.fields["_w_size"]), list(q.fields["_w_size"])), lib.shape_eq(list(v.fields["_w_stride"]), list(q.fields["_w_stride"]))),
                                "property", inst, replay=rp)
                        run.add(f"C06/move-keeps-meta[{tag}]", r.hyps, z3.BoolVal(v.fields["_qtype"] is q.fields["_qtype"] and v.fields["_axis"] == q.fields["_axis"]
                                                                              and E.eq(v.fields["_group_size"], q.fields["_group_size"]) is not False), "property", inst, replay=rp)
                    kind, v = outs["to-other-dtype"]
                    run.add(f"C06/qbits-dtype-change-refused[{tag0}]/path{pi}", r.hyps, z3.BoolVal(kind == "raises" and v.tname == "ValueError"), "property", inst, replay=rp)


def qbytes_unflatten(run):
    for qname in ("qint8", "qfloat8_e4m3fn"):
        for axis in (None, 0, -1):
            inst = {"class": "QBytesTensor", "lemma": "flatten/unflatten", "qtype": qname, "axis": axis}
            E = OC.engine(run)
            from qvc.values import Builtin

            def prog(E2, qname=qname, axis=axis):
                h = OC.H(E2, qname, axis)
                q = h.q(h.dims(2))
                names, meta = E2.call(E2.getattr(q, "__tensor_flatten__"), [], {})
                inner = {n_: q.fields[n_] for n_ in names}
                v = E2.call(E2.getattr(h.cls, "__tensor_unflatten__"), [inner, meta, None, None], {})
                return q, meta, v, OC.deq(E2, v)

            try:
                res = E.explore(Builtin("unflatten", prog), lambda E2: ([], {}), name="C06.unflatten")
            except Unsupported as u:
                run.undecide(f"C06/unflatten[{qname}/{axis}]", u, inst)
                continue
            run.absorb(E)
            for pi, r in enumerate(res):
                tag = f"qbytes-unflatten/{qname}/axis{axis}/path{pi}"
                if r.outcome != "return":
                    run.add(f"C06/unflatten-works[{tag}]", r.hyps, z3.BoolVal(False), "property", inst, {"outcome": repr(r.value)[:300]})
                    continue
                E.focus(r)
                q, meta, v, dv = r.value
                check_tensor(run, E, r, tag, inst, v, None, d=dv)
                run.add(f"C06/unflatten-restores-fields[{tag}]", r.hyps,
                        z3.And(z3.BoolVal(v.fields["_qtype"] is q.fields["_qtype"] and v.fields["_axis"] == q.fields["_axis"] and v.fields["_data"] is q.fields["_data"]
                                          and v.fields["_scale"] is q.fields["_scale"]), lib.shape_eq(list(v.fields["_w_size"]), list(q.fields["_w_size"])),
                               z3.BoolVal(all(isinstance(x, str) or hasattr(x, "kind") for x in meta.values()))), "property", inst)


def build(run):
    from props import conformance

    conformance.run_conformance(run, ['ops'])
    run.assume("A-ENGINE", "A-PY", "A-TORCH-IDX output shapes of the aten ops", "A-TORCH-DISPATCH _make_wrapper_subclass reports the given size/stride/dtype/device",
               "A-SER ast.literal_eval(str(v)) == v for ints / None / lists / tuples of ints", "PackedTensor contract (C04)")
    run.assumptions += ["reachability over all histories: every constructor site / op maps invariant-satisfying inputs to invariant-satisfying outputs (induction, lemmas/Arith.lean inv_reach)",
                        "quantizer / deserialization / freeze construction sites: C14 (honoured:inv), C10, C09"]
    E0 = run.engine()
    for key in (f"{OC.QBYTES}::QBytesTensor.__new__", f"{OC.QBYTES}::QBytesTensor.__init__", f"{OC.QBYTES}::QBytesTensor.__tensor_flatten__",
                f"{OC.QBYTES}::QBytesTensor.__tensor_unflatten__", f"{OC.QBITS}::QBitsTensor.__new__", f"{OC.QBITS}::QBitsTensor.__init__",
                f"{OC.QBITS}::QBitsTensor.create", f"{OC.QBITS}::QBitsTensor.__tensor_flatten__", f"{OC.QBITS}::QBitsTensor.__tensor_unflatten__",
                f"{OC.QBOPS}::_to_copy", f"{OC.QBOPS}::detach"):
        run.under_contract(E0, key)
    import ast
    mod = E0.load_module(OC.QOPS)
    for st in mod.tree.body:
        if isinstance(st, ast.FunctionDef):
            run.under_contract(E0, f"{OC.QOPS}::{st.name}")
    lib.lean_lemmas(run, ["inv_reach"])
    def requant_results(r_):
        # results of the re-quantizing ops (_softmax, where) and of the contractions that return quantized tensors
        from props import C05

        def on_result(E, r, tag, inst, res, rd, rp):
            if is_wrapper(res):
                check_tensor(r_, E, r, f"requant/{tag}", inst, res, lambda m, s, i=dict(inst): replay(m, s, i["case"], i), d=rd)

        C05.requant_ops(r_, on_result=on_result, prefix="C06")

    for part in (lambda r: OC.explore_cases(r, handler(r), "C06", r.tier), qbits_cases, qbytes_unflatten, requant_results):
        try:
            part(run)
        except Unsupported as u:
            run.undecide("C06/part", f"unsupported: {u}")


# ------------------------------------------------------------------------------------------------ native replay
def _meta_ok(q):
    import torch
    d = q.dequantize()
    if tuple(q.shape) != tuple(d.shape):
        return f"reports shape {tuple(q.shape)} but dequantizes to {tuple(d.shape)}"
    if q.dtype != d.dtype or q.device != d.device:
        return "reported dtype/device differ from the dequantized value"
    if hasattr(q, "_data") and type(q).__name__ == "QBytesTensor":
        if tuple(q._data.shape) != tuple(q.shape):
            return f"reports shape {tuple(q.shape)} but holds {tuple(q._data.shape)} codes"
        if q.axis is None and q._scale.ndim != 0:
            return f"per-tensor tensor with a scale of shape {tuple(q._scale.shape)}"
        if q.axis is not None:
            k = q.axis % q.ndim
            want = [s if j == k else 1 for j, s in enumerate(q.shape)]
            if list(q._scale.shape) != want:
                return f"scale of shape {list(q._scale.shape)} does not broadcast along the declared axis {q.axis} of {list(q.shape)}"
    return None


def replay(model, seed, case, inst):
    import torch
    from optimum.quanto import qtypes
    from props.C05 import native_cases

    torch.manual_seed(seed)
    Q = native_cases()
    qt, axis = qtypes[inst["qtype"]], inst["axis"]
    x = torch.randn(3, 4) if case != "split-size" else torch.randn(10, 6)
    qa = Q(x, qt, axis)
    x3 = torch.randn(2, 3, 4)
    q3 = Q(x3, qt, axis)
    progs = {
        "transpose-3d-01": lambda: [q3.transpose(0, 1)], "transpose-3d-12": lambda: [q3.transpose(1, 2)], "transpose-3d-neg": lambda: [q3.transpose(-1, -2)],
        "transpose-3d-negfirst": lambda: [q3.transpose(-3, 1)], "permute-3d": lambda: [q3.permute(1, 0, 2)],
        "split-size": lambda: torch.split(qa, 4), "split-sizes": lambda: torch.split(qa, [1, 2]) if x.shape[0] == 3 else torch.split(qa, [4, 6]),
        "mul-q-1elem-tensor": lambda: [qa * torch.full((1, 1, 1), 0.5)], "mul-q-0dim-tensor": lambda: [qa * torch.tensor(0.5)],
        "transpose": lambda: [qa.transpose(0, 1)], "t-2d": lambda: [qa.t()], "permute": lambda: [qa.permute(1, 0)], "select": lambda: [qa.select(0, 0)],
        "slice": lambda: [qa[0:1]], "unsqueeze": lambda: [qa.unsqueeze(0)], "view-flat": lambda: [qa.view(-1)], "clone": lambda: [qa.clone()],
        "detach": lambda: [qa.detach()], "to_copy-dtype": lambda: [qa.to(torch.float16)], "div-scalar": lambda: [qa / 2.0], "mul-scalar-q": lambda: [3.0 * qa],
        "_softmax": lambda: [torch.softmax(qa, -1)], "where-q-plain": lambda: [torch.where(x > 0, qa, torch.full_like(x, 0.25))],
        "where-q-scalar": lambda: [torch.where(x > 0, qa, 0.25)],
        "copy_-q-from-q-other-dtype": lambda: [qa.copy_(Q(x.to(torch.float16) * 2, qt, axis))],
        "neg": lambda: [-qa], "relu": lambda: [torch.relu(qa)], "cat-same-scale": lambda: [torch.cat([qa, qa])], "stack-same-scale": lambda: [torch.stack([qa, qa])],
    }
    f = progs.get(case)
    if f is None:
        return None
    try:
        outs = f()
    except Exception as e:
        return None
    for o in outs:
        if hasattr(o, "dequantize"):
            try:
                w = _meta_ok(o)
            except Exception as e:
                w = f"dequantize raises {type(e).__name__}: {str(e)[:120]}"
            if w:
                return {"case": case, "qtype": inst["qtype"], "axis": axis, "what": w}
    return None


def replay_qbits(model, seed, inst):
    """detach / Parameter() / flatten-unflatten of a (group-wise) packed tensor keep its reported shape, dtype and values."""
    import torch
    from optimum.quanto import qtypes, quantize_weight
    from optimum.quanto.tensor.qbits import QBitsTensor

    torch.manual_seed(seed)
    qt = qtypes[inst["qtype"]]
    for shape, gs in (((8, 8), 4), ((4, 16), 8), ((6, 4), 2)):
        q = quantize_weight(torch.randn(*shape), qt, inst["axis"], gs if inst["grouped"] else None)
        for nme, f in (("detach", lambda t: t.detach()), ("Parameter", lambda t: torch.nn.Parameter(t, requires_grad=False))):
            try:
                v = f(q)
            except Exception as e:
                return {"what": f"{nme} raises {type(e).__name__}: {str(e)[:120]}", "shape": list(shape), "group_size": gs}
            if tuple(v.shape) != tuple(q.shape) or v.dtype != q.dtype:
                return {"what": f"{nme} changes the reported shape / dtype", "before": list(q.shape), "after": list(v.shape), "group_size": gs}
            try:
                same = torch.equal(v.dequantize(), q.dequantize())
            except Exception as e:
                return {"what": f"dequantize after {nme} raises {type(e).__name__}: {str(e)[:120]}"}
            if not same:
                return {"what": f"{nme} changes the dequantized values", "shape": list(shape), "group_size": gs}
    return None


def replay_file(path):
    import json
    rec = json.load(open(path))
    inst = rec["instance"]
    r = replay(rec.get("model") or {}, rec.get("seed", 0), inst.get("case"), inst) if "case" in inst else \
        (replay_qbits(rec.get("model") or {}, rec.get("seed", 0), inst) if inst.get("class") == "QBitsTensor" else None)
    print(json.dumps(r, indent=1, default=str))
    return 1 if r else 0
