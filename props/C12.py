"""C12 - calibration scales are the configured-momentum EMA of batch absmax ranges (DESIGN 6.12).

Ghost state per module and direction: (init, g) - 'a batch has been seen' and the EMA value.  Representation relation
Rep(scale, init, g): (not init and scale == 1) or (init and scale == g).  The hooks are called exactly as PyTorch calls them:
pre-hook(module, args), forward-hook(module, args, output).  Step contracts + induction on the batch sequence give the EMA law.
"""
import z3

from contracts import group as CG
from contracts import packed as CP
from props import ops_common as OC
from qvc import lib
from qvc.lib import idx_vars, zi
from qvc.sym import Unsupported
from qvc.tm_tensor import is_wrapper, new_input, reduction_facts
from qvc.values import Builtin, Obj, STensor

CAL = "optimum/quanto/calibrate.py"
QMOD = "optimum/quanto/nn/qmodule.py"
QLIN = "optimum/quanto/nn/qlinear.py"
QCONV = "optimum/quanto/nn/qconv2d.py"
QLN = "optimum/quanto/nn/qlayernorm.py"
QMAX = {"qint8": 127, "qfloat8_e4m3fn": 448, "qfloat8_e5m2": 57344}


def absr(t):
    return z3.If(t >= 0, t, -t)


def engine(run):
    E = OC.engine(run)
    E.load_module(CAL)
    E.load_module(QLIN)
    E.load_module(QCONV)
    E.load_module(QLN)
    return E


def make_module(E, kind, aq, weights):
    """A quantized module with activations on, built by the real constructor."""
    F, O = z3.Ints("F O")
    E.assume(F >= 1)
    E.assume(O >= 1)
    qt = E.load_module(OC.QTYPE).env.lookup
    if kind == "linear":
        cls = E.get(f"{QLIN}::QLinear")
        m = E.call(cls, [F, O], {"weights": qt(weights), "activations": qt(aq)})
    elif kind == "conv2d":
        cls = E.get(f"{QCONV}::QConv2d")
        m = E.call(cls, [F, O, 1], {"weights": qt(weights), "activations": qt(aq)})
    else:
        cls = E.get(f"{QLN}::QLayerNorm")
        m = E.call(cls, [(F,)], {"weights": None, "activations": qt(aq)})
    return m, F, O


def install_qforward_contract(E, cache):
    """Contract of <QModule>.qforward used at the call sites in the hooks / forward: returns 'the raw output for this input',
    the same value for the same (module, input) (what it is, is C08's business)."""

    def qforward_contract(E2, args, kwargs):
        m, x = args[0], args[1]
        key = (m.oid, id(x))
        if key not in cache:
            R0, R1 = z3.Ints("R0 R1")
            E2.assume(R0 >= 1)
            E2.assume(R1 >= 1)
            dt_ = x.dtype if isinstance(x, STensor) else (x.fields["_w_dtype"].name if hasattr(x, "fields") and "_w_dtype" in x.fields else "float32")
            cache[key] = new_input(E2, f"RAW", dt_, [R0, R1])
        return cache[key]

    for key in (f"{QLIN}::QLinear.qforward", f"{QCONV}::QConv2d.qforward", f"{QLN}::QLayerNorm.qforward"):
        E.contracts[key] = qforward_contract


def step_contracts(run):
    for kind in ("linear", "conv2d", "layernorm"):
        for aq in ("qint8", "qfloat8_e4m3fn", "qfloat8_e5m2"):
            for hook, dt in [(h_, d_) for h_ in ("input-float", "input-quantized", "input-quantized-tagged", "output") for d_ in ("float32", "float16")]:
                if run.tier == "quick" and kind != "linear" and aq != "qint8":
                    continue
                if dt == "float16" and not (kind == "linear" and aq == "qint8" and not hook.startswith("input-quantized")):
                    continue   # half-precision module: the dtype clause (values are decided in the real algebra, the same for every dtype)
                inst = {"module": kind, "activations": aq, "hook": hook, "dtype": dt}
                run.count_instance(**inst)
                E = engine(run)
                cache = {}
                install_qforward_contract(E, cache)
                m_ = z3.Real("momentum")
                s0 = z3.Real("scale0")
                init = z3.Bool("ghost_init")
                g = z3.Real("ghost_ema")

                def prog(E2, kind=kind, aq=aq, hook=hook, dt=dt):
                    E2.assume(m_ >= 0)
                    E2.assume(m_ < 1)
                    calcls = E2.get(f"{CAL}::Calibration")
                    cal = E2.call(calcls, [], {"momentum": m_, "streamline": False})
                    mod, F, O = make_module(E2, kind, aq, "qint8")
                    which = "input_scale" if hook.startswith("input") else "output_scale"
                    # the scale currently stored (symbolic), related to the ghost EMA state by Rep
                    E2.assume(z3.Or(z3.And(z3.Not(init), s0 == 1), z3.And(init, s0 == g)))
                    st = STensor(dt, [], lambda idx: s0, device="cpu", name="S0")
                    E2.setattr(mod, which, st)
                    B = z3.Int("B")
                    E2.assume(B >= 1)
                    before = {k: v for k, v in mod.fields.items()}
                    if hook == "input-float":
                        x = new_input(E2, "X", dt, [B, F])
                        ret = E2.call(E2.getattr(cal, "calibrate_input"), [mod, (x,)], {})
                    elif hook.startswith("input-quantized"):
                        h = OC.H(E2, aq, None)
                        x = h.q([B, F], name="X")
                        if hook == "input-quantized-tagged":
                            # the tensor was produced, some time ago, by another calibrated module (calibrate_output tags its result with
                            # `src_module`); that module may have been calibrated again since: its current output scale is unrelated
                            mod2, _, _ = make_module(E2, "linear", aq, "qint8")
                            os2 = z3.Real("src_module_output_scale_now")
                            E2.assume(os2 > 0)
                            E2.setattr(mod2, "output_scale", STensor(dt, [], lambda idx: os2, device="cpu", name="OS2"))
                            E2.setattr(x, "src_module", mod2)
                        ret = E2.call(E2.getattr(cal, "calibrate_input"), [mod, (x,)], {})
                    else:
                        x = new_input(E2, "X", dt, [B, F])
                        out0 = new_input(E2, "OUT0", dt, [B, O])
                        ret = E2.call(E2.getattr(cal, "calibrate_output"), [mod, (x,), out0], {})
                    return cal, mod, x, ret, before

                try:
                    res = E.explore(Builtin("c12", prog), lambda E2: ([], {}), name="C12.step")
                except Unsupported as u:
                    run.undecide(f"C12/step[{kind}/{aq}/{hook}]", u, inst)
                    continue
                run.absorb(E)
                tag = f"{kind}/{aq}/{hook}" + ("" if dt == "float32" else f"/{dt}")
                if not run.expect_paths(res, f"C12/{tag}", inst):
                    continue
                rp = lambda mo, sd, i=dict(inst): replay(mo, sd, i, scale_one="never")
                qmax = QMAX[aq]
                for pi, r in enumerate(res):
                    if r.outcome != "return":
                        run.add(f"C12/hook-does-not-raise[{tag}]/path{pi}", r.hyps, z3.BoolVal(False), "property", inst, {"outcome": repr(r.value)[:200]}, replay=rp)
                        continue
                    E.focus(r)
                    cal, mod, x, ret, before = r.value
                    which = "input_scale" if hook.startswith("input") else "output_scale"
                    other = "output_scale" if which == "input_scale" else "input_scale"
                    new_t = mod.fields[which]
                    if not isinstance(new_t, STensor) or new_t.shape:
                        run.add(f"C12/scale-is-a-0-dim-tensor[{tag}]/path{pi}", r.hyps, z3.BoolVal(False), "property", inst, replay=rp)
                        continue
                    new = new_t.elem([])
                    run.add(f"C12/scale-keeps-the-dtype-of-the-module[{tag}]/path{pi}", r.hyps, z3.BoolVal(new_t.dtype == dt), "property", inst, {"scale_dtype": new_t.dtype, "module_dtype": dt},
                            replay=lambda mo, sd, i=dict(inst): replay_dtype(mo, sd, i))
                    reds = [ri for ri in E.ps.get("reductions", []) if ri.kind == "amax"]
                    facts = E.drain()
                    # frame: only this module's scale (of this direction) is written
                    wr = [w for w in r.writes if w[0] == "attr" and w[1] is mod and w[2] not in (which,)]
                    wr = [w for w in wr if w[2] not in ("input_scale", "output_scale") or w[4] is not None and CAL in str(w[4])]
                    written_other = mod.fields.get(other) is not before.get(other)
                    run.add(f"C12/frame-only-this-scale-is-written[{tag}]/path{pi}", r.hyps, z3.BoolVal(not written_other), "property", inst, replay=rp)
                    if hook.startswith("input-quantized"):
                        # adopts the (maximum) scale of the tensor it is fed
                        sc = x.fields["_scale"].elem([])
                        run.add(f"C12/adopts-scale-of-quantized-input[{tag}]/path{pi}", r.hyps + facts, new == sc, "property", inst,
                                replay=lambda mo, sd, i=dict(inst): replay_adopt(mo, sd, i))
                        continue
                    src_name = "X" if hook == "input-float" else "RAW"
                    if len(reds) != 1:
                        # several reductions: the range must still be THE absmax of the right tensor - pick the amax over |source| (structurally:
                        # element term of the reduced tensor is the absolute value of the source element), the EMA clause below then decides
                        cands = []
                        for rc in reds:
                            if rc.kind != "amax" or len(rc.src.shape) != 2:
                                continue
                            ii, _ = idx_vars("rsel", rc.src.shape)
                            E.drain()
                            tv = rc.src_fn(ii)
                            E.drain()
                            xv = z3.Function(src_name, z3.IntSort(), z3.IntSort(), z3.RealSort())(*ii)
                            if z3.eq(z3.simplify(tv), z3.simplify(absr(xv))):
                                cands.append(rc)
                        if len(cands) != 1:
                            run.undecide(f"C12/{tag}/path{pi}", f"expected one absmax reduction, found {len(reds)} reductions, {len(cands)} of them over |{src_name}|", inst)
                            continue
                        reds = cands
                    ri = reds[0]
                    # the range is taken over the whole float input / raw output: all dims reduced, source is |X| resp. |RAW|
                    ids, inb = idx_vars("i", ri.src.shape)
                    xf = z3.Function(src_name, z3.IntSort(), z3.IntSort(), z3.RealSort())
                    E.drain()
                    srcv = ri.src_fn(ids)
                    f2 = E.drain()
                    run.add(f"C12/range-is-absmax-of-the-right-tensor[{tag}]/path{pi}", r.hyps + inb + f2,
                            z3.And(z3.BoolVal(sorted(ri.dims) == list(range(len(ri.src.shape))) and len(ri.src.shape) == 2), srcv == absr(xf(*ids))),
                            "property", inst, replay=rp)
                    batch = ri.res_fn([]) / qmax
                    ema = z3.If(init, m_ * g + (1 - m_) * batch, batch)
                    base_h = r.hyps + facts
                    run.add(f"C12/ema-step-uninitialised[{tag}]/path{pi}", base_h + [z3.Not(init)], new == ema, "property", inst, replay=rp)
                    run.add(f"C12/ema-step-initialised[{tag}]/path{pi}", base_h + [init, g != 1], new == ema, "property", inst,
                            replay=lambda mo, sd, i=dict(inst): replay(mo, sd, i, scale_one="never"))
                    run.add(f"C12/ema-step-initialised-with-value-one[{tag}]/path{pi}", base_h + [init, g == 1], new == ema, "property", inst,
                            replay=lambda mo, sd, i=dict(inst): replay(mo, sd, i, scale_one="exactly"))
                    if hook == "output":
                        # the hook returns forward(input) evaluated with the NEW output scale; after a first batch nothing saturates
                        okret = is_wrapper(ret) and ret.cls.name == "QBytesTensor" and ret.fields["_scale"] is new_t
                        run.add(f"C12/output-requantized-with-new-scale[{tag}]/path{pi}", r.hyps, z3.BoolVal(bool(okret)), "property", inst, replay=rp)
                        E.drain()
                        rawv = absr(xf(*ids))
                        rf = reduction_facts(E, extra_points=[ids]) + E.drain()
                        run.add(f"C12/first-batch-does-not-saturate[{tag}]/path{pi}", base_h + inb + rf + [z3.Not(init)], rawv <= qmax * new, "property", inst, replay=rp)
                    else:
                        E.drain()
                        rawv = absr(xf(*ids))
                        rf = reduction_facts(E, extra_points=[ids]) + E.drain()
                        run.add(f"C12/first-batch-does-not-saturate[{tag}]/path{pi}", base_h + inb + rf + [z3.Not(init)], rawv <= qmax * new, "property", inst, replay=rp)


def build(run):
    run.assume("A-ENGINE", "A-PY", "A-REAL", "A-TORCH-RED amax axioms", "A-TORCH-NN PyTorch calls the global forward pre-hook as hook(module, args) and the forward "
               "hook as hook(module, args, output); nn.Module attribute assignment", "contract of <QModule>.qforward: returns the raw output, deterministic in (module, input) (C08)")
    run.assumptions += ["EMA law for whole batch sequences and successive contexts = step contract + induction on the sequence (lemmas/Arith.lean inv_reach); "
                        "Rep(scale, ghost) is re-established by every step", "streamlining: contracts are stated for a module while its activation_qtype is not None",
                        "momentum symbolic in [0, 1)"]
    E0 = run.engine()
    for key in (f"{CAL}::_updated_scale", f"{CAL}::absmax_scale", f"{CAL}::Calibration.__init__", f"{CAL}::Calibration.calibrate_input",
                f"{CAL}::Calibration.calibrate_output", f"{QMOD}::QModuleMixin.forward"):
        run.under_contract(E0, key)
    lib.lean_lemmas(run, ["inv_reach"])
    try:
        step_contracts(run)
    except Unsupported as u:
        run.undecide("C12/step", f"unsupported: {u}")


# ------------------------------------------------------------------------------------------------ native replay
def replay(model, seed, inst, scale_one="any"):
    """scale_one: 'never' - no calibrated scale is exactly 1 (but some are within 1e-5 of it); 'exactly' - the first batch gives scale 1.0; 'any' - both."""
    import torch
    from optimum.quanto import Calibration, qtypes, quantize
    from optimum.quanto.nn import QLinear

    torch.manual_seed(seed)
    aq = qtypes[inst["activations"]]
    qmax = QMAX[inst["activations"]]
    for m in (0.0, 0.5, 0.9):
        near = (float(qmax) * (1 + 4e-6), float(qmax) / 10, 1.0)
        exact = (float(qmax), float(qmax) / 10, 1.0)
        for mags, onesided in [(mg_, os_) for mg_ in {"never": ((1.0, 3.0, 0.5), near), "exactly": (exact,), "any": ((1.0, 3.0, 0.5), near, exact)}[scale_one] for os_ in (False, True)]:
            lin = torch.nn.Linear(4, 3)
            qlin = QLinear.from_module(lin, weights=qtypes["qint8"], activations=aq)
            exp_in = None
            exp_out = None
            with torch.no_grad(), Calibration(momentum=m, streamline=False):
                for k, mg in enumerate(mags):
                    x = torch.randn(2, 4)
                    x = x / x.abs().max() * mg
                    if onesided:
                        x = -x.abs()      # no positive element at all
                    raw = qlin.qforward(x) if False else None
                    qlin(x)
                    b_in = x.abs().max() / qmax
                    exp_in = b_in if exp_in is None else m * exp_in + (1 - m) * b_in
                    if not torch.allclose(qlin.input_scale, exp_in, rtol=1e-4, atol=1e-8):
                        return {"momentum": m, "batch": k, "magnitudes": mags, "input_scale": qlin.input_scale.item(), "expected_ema": float(exp_in),
                                "what": "input scale is not the configured-momentum EMA of absmax/qmax"}
    return None


def replay_adopt(model, seed, inst):
    """A module fed an already quantized tensor adopts THAT tensor's scale - also when the tensor is consumed after its producer has
    been calibrated again (two-stage calibration: all batches through the first module, then the retained outputs through the second)."""
    import torch
    from optimum.quanto import Calibration, QBytesTensor, qtypes
    from optimum.quanto.nn import QLinear

    torch.manual_seed(seed)
    aq = qtypes[inst["activations"]]
    for m in (0.0, 0.5, 0.9):
        a = QLinear.from_module(torch.nn.Linear(4, 4), weights=qtypes["qint8"], activations=aq)
        b = QLinear.from_module(torch.nn.Linear(4, 3), weights=qtypes["qint8"], activations=aq)
        with torch.no_grad(), Calibration(momentum=m, streamline=False):
            for order in ("chained", "two-stage"):
                xs = [torch.randn(2, 4) * mg for mg in (1.0, 6.0, 0.2)]
                if order == "chained":
                    pairs = []
                    for x in xs:
                        h = a(x)
                        pairs.append((h, h._scale.clone() if isinstance(h, QBytesTensor) else None))
                        b(h)
                        if isinstance(h, QBytesTensor) and not torch.equal(b.input_scale, pairs[-1][1].max()):
                            return {"momentum": m, "order": order, "input_scale": b.input_scale.item(), "scale_of_fed_tensor": pairs[-1][1].max().item(),
                                    "what": "a module fed a quantized tensor did not adopt that tensor's scale"}
                else:
                    hs = [a(x) for x in xs]
                    for h in hs:
                        if not isinstance(h, QBytesTensor):
                            continue
                        want = h._scale.max().clone()
                        b(h)
                        if not torch.equal(b.input_scale, want):
                            return {"momentum": m, "order": order, "input_scale": b.input_scale.item(), "scale_of_fed_tensor": want.item(),
                                    "what": "a module fed a quantized tensor (whose producer was calibrated again meanwhile) did not adopt that tensor's scale"}
    return None


def replay_dtype(model, seed, inst):
    """Calibrating a half-precision module over several batches leaves its scales (and outputs) in that dtype."""
    import torch
    from optimum.quanto import Calibration, qtypes
    from optimum.quanto.nn import QLinear

    torch.manual_seed(seed)
    dt = {"float16": torch.float16, "float32": torch.float32}[inst.get("dtype", "float32")]
    lin = torch.nn.Linear(4, 3).to(dt)
    qlin = QLinear.from_module(lin, weights=qtypes["qint8"], activations=qtypes[inst["activations"]])
    with torch.no_grad(), Calibration(momentum=0.9, streamline=False):
        for k in range(3):
            qlin(torch.randn(2, 4).to(dt) * (k + 1))
    for nm in ("input_scale", "output_scale"):
        if getattr(qlin, nm).dtype != dt:
            return {"what": f"after calibration {nm} is {getattr(qlin, nm).dtype}, the module is {dt}"}
    return None


def replay_file(path):
    import json
    rec = json.load(open(path))
    ob = rec.get("obligation", "")
    if "adopts-scale-of-quantized-input" in ob:
        r = replay_adopt(rec.get("model") or {}, rec.get("seed", 0), rec["instance"])
    elif "scale-keeps-the-dtype" in ob:
        r = replay_dtype(rec.get("model") or {}, rec.get("seed", 0), rec["instance"])
    else:
        r = replay(rec.get("model") or {}, rec.get("seed", 0), rec["instance"])
    print(json.dumps(r, indent=1, default=str))
    return 1 if r else 0
