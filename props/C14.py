"""C14 - configurations are either rejected with ValueError or fully honoured (DESIGN 6.14).

Totality over the symbolic configuration space (all dimension sizes, every group size, every in_features):
every execution path of the public entry points ends in ValueError (and then the configuration is not a
clearly supported one) or returns a tensor with exactly the requested qtype / axis / group size that satisfies
the representation invariant; PyTorch preconditions met on the way (broadcast, reshape) are obligations, so a
RuntimeError is a failed obligation.  Algebra: linear integers over symbolic shapes.
"""
import z3

from contracts import group as CG
from contracts import packed as CP
from props import inv
from qvc import lib
from qvc.lib import zi
from qvc.sym import Unsupported
from qvc.tm_tensor import new_input
from qvc.values import Obj, numel_of

QW = "optimum/quanto/tensor/qweight.py"
QACT = "optimum/quanto/tensor/qactivation.py"
SYMQ = "optimum/quanto/tensor/quantizers/symmetric.py"
AFFQ = "optimum/quanto/tensor/quantizers/affine.py"
QTYPE = "optimum/quanto/tensor/qtype.py"
QMOD = "optimum/quanto/nn/qmodule.py"
QLIN = "optimum/quanto/nn/qlinear.py"
QCONV = "optimum/quanto/nn/qconv2d.py"
GROUP = "optimum/quanto/tensor/qbits/group.py"
SYMO = "optimum/quanto/tensor/optimizers/symmetric_optimizer.py"
AFFO = "optimum/quanto/tensor/optimizers/affine_optimizer.py"

QNAMES = ["qint2", "qint4", "qint8", "qfloat8", "qfloat8_e4m3fn", "qfloat8_e5m2"]
BITS = {"qint2": 2, "qint4": 4, "qint8": 8, "qfloat8": 8, "qfloat8_e4m3fn": 8, "qfloat8_e5m2": 8}


def engine(run, group_contract=False):
    E = run.engine()
    E.load_module("optimum/quanto/tensor/__init__.py")
    CP.install(E)
    if group_contract:
        CG.install(E)
    return E


def check_paths(run, E, res, tag, inst, unsupported, supported, honoured, rp, prefix="C14"):
    # rp(model, seed, accept): the native oracle restricted to the kind of failure of the refuted clause
    import inspect
    if "accept" in inspect.signature(rp).parameters:
        rp_raise = lambda m, s: rp(m, s, accept=RAISES)
        rp_rej = lambda m, s: rp(m, s, accept=REJECTS_SUPPORTED)
        rp_acc = lambda m, s: rp(m, s, accept=ACCEPTS_UNSUPPORTED)
        rp_hon = lambda m, s: rp(m, s, accept=NOT_HONOURED)
        rp_r1 = lambda m, s: rp(m, s, accept=RANK1)
    else:
        rp_raise = rp_rej = rp_acc = rp_hon = rp_r1 = rp
    """unsupported / supported: z3 formulas over the configuration; honoured(value) -> list of (name, formula)."""
    if not run.expect_paths(res, f"{prefix}/{tag}", inst):
        return
    if not res:
        run.undecide(f"{prefix}/{tag}", "no feasible path", inst)
    for pi, r in enumerate(res):
        if r.outcome == "raise":
            t = r.value.tname
            run.add(f"{prefix}/only-ValueError[{tag}]/path{pi}:{t}", r.hyps, z3.BoolVal(t == "ValueError"), "property", inst,
                    {"raises": repr(r.value)[:200]}, replay=rp_raise)
            if t == "ValueError":
                run.add(f"{prefix}/supported-config-not-rejected[{tag}]/path{pi}", r.hyps, z3.Not(supported), "property", inst,
                        {"raises": repr(r.value)[:200]}, replay=rp_rej)
        else:
            run.add(f"{prefix}/unsupported-config-rejected[{tag}]/path{pi}", r.hyps, z3.Not(unsupported), "property", inst, replay=rp_acc)
            for nme, f in honoured(r.value):
                run.add(f"{prefix}/honoured:{nme}[{tag}]/path{pi}", r.hyps + [z3.Not(unsupported)], f, "property", inst, replay=rp_r1 if nme.startswith("rank1-inv") else rp_hon)
        # PyTorch preconditions met on this path (a failure would be a RuntimeError): property level
        for o in r.obligations:
            if o.kind in ("torch-pre", "callee-pre", "assert"):
                run.add(f"{prefix}/no-runtime-error[{tag}]/path{pi}/{o.name}@{o.loc}", o.hyps, o.goal, "property", inst, replay=rp_raise)
            elif o.kind == "side" and "div-nonzero" not in o.name:
                run.add(f"{prefix}/exec[{tag}]/path{pi}/{o.name}@{o.loc}", o.hyps, o.goal, "side", inst)


def qtype_of(E, name):
    return E.load_module(QTYPE).env.lookup(name)


# ------------------------------------------------------------------------------------------------ (a) quantize_weight
def part_quantize_weight(run):
    src = """
def prog(t, qtype, axis, group_size, optimizer):
    return quantize_weight(t, qtype, axis, group_size, optimizer)
"""
    axes = (None, -2, -1, 0, 1, 2) if run.tier == "thorough" else (None, -1, 0, 1)
    for qname in QNAMES:
        if qname == "qfloat8" and run.tier == "quick":
            continue
        bits = BITS[qname]
        for axis in axes:
            for rank in (1, 2, 3, 4):
                for grouped in (False, True):
                    for optk in (None, "absmax", "max"):
                        if axis not in (0, -1) and (grouped or optk or rank > 2):
                            continue  # rejected before anything else is looked at: one instance per axis value is enough
                        inst = {"entry": "quantize_weight", "qtype": qname, "axis": axis, "rank": rank, "grouped": grouped, "optimizer": optk}
                        run.count_instance(**inst)
                        E = engine(run)
                        qt = qtype_of(E, qname)
                        prog = E.snippet(src, QW)
                        ds, dpos = lib.dims("d", rank)
                        G = z3.Int("G")

                        def setup(E2, ds=ds, dpos=dpos, qt=qt, axis=axis, grouped=grouped, optk=optk):
                            for c in dpos:
                                E2.assume(c)
                            opt = None
                            if optk == "absmax":
                                opt = E2.call(E2.get("optimum/quanto/tensor/optimizers/absmax_optimizer.py::AbsmaxOptimizer"), [], {})
                            elif optk == "max":
                                opt = E2.call(E2.get("optimum/quanto/tensor/optimizers/max_optimizer.py::MaxOptimizer"), [], {})
                            if grouped:
                                E2.assume(G >= 1)
                                for h in lib.mul_mod_hints(ds, G):
                                    E2.assume(h)
                            return [new_input(E2, "X", "float16", ds), qt, axis, G if grouped else None, opt], {}

                        try:
                            res = E.explore(prog, setup, name="C14.qw")
                        except Unsupported as u:
                            run.undecide(f"C14/qw[{qname}/{axis}/{rank}]", u, inst)
                            continue
                        run.absorb(E)
                        tag = f"qw/{qname}/axis{axis}/r{rank}/{'G' if grouped else 'nogroup'}/{optk}"
                        ok_axis = axis in (0, -1)
                        k = (axis % rank) if ok_axis else 0
                        others = [d for j, d in enumerate(ds) if j != k]
                        n = zi(numel_of(others)) if others else z3.IntVal(1)
                        if not ok_axis:
                            unsup, sup = z3.BoolVal(True), z3.BoolVal(False)
                        elif bits == 8:
                            bad = grouped or optk == "max"
                            one_d = (rank == 1)
                            # rank-1 per-axis requests are refused unless the axis has size 1 (then: per-tensor)
                            unsup = z3.Or(z3.BoolVal(bad), z3.And(z3.BoolVal(one_d), zi(ds[0]) != 1))
                            sup = z3.And(z3.BoolVal(not bad and rank >= 2))
                        else:
                            nondiv = z3.Or(G > n, n % G != 0) if grouped else z3.BoolVal(False)
                            unsup = z3.Or(z3.BoolVal(optk == "absmax"), nondiv)
                            sup = z3.And(z3.BoolVal(optk != "absmax"), z3.Not(nondiv))

                        def honoured(q, qt=qt, axis=axis, rank=rank, grouped=grouped, ds=ds, bits=bits, k=k):
                            out = []
                            if not isinstance(q, Obj):
                                return [("returns-a-quantized-tensor", z3.BoolVal(False))]
                            out.append(("qtype", z3.BoolVal(q.fields.get("_qtype") is qt)))
                            out.append(("shape", lib.shape_eq(list(q.fields["_w_size"]), ds)))
                            out.append(("dtype", z3.BoolVal(q.fields["_w_dtype"].name == "float16")))
                            if bits == 8:
                                want = -1 if k == rank - 1 else 0
                                ax = q.fields.get("_axis")
                                # an axis of size 1 degrades to per-tensor (documented)
                                out.append(("axis", z3.If(zi(ds[k]) == 1, z3.BoolVal(ax is None), z3.BoolVal(ax == want))))
                                out += [("inv:" + a, b) for a, b in inv.inv_qbytes(q)]
                            else:
                                out.append(("axis", z3.BoolVal(q.fields.get("_axis") == axis)))
                                gs = q.fields.get("_group_size")
                                out.append(("group_size", (zi(gs) == G) if (grouped and gs is not None) else z3.BoolVal((gs is None) == (not grouped))))
                                pre = "rank1-inv:" if rank == 1 else "inv:"
                                out += [(pre + a, b) for a, b in inv.inv_qbits(q)]
                                if rank == 1:
                                    sc = q.fields.get("_scale")
                                    out.append(("rank1-inv:one-scale-per-axis-index", lib.shape_eq(sc.shape, [ds[0]]) if len(sc.shape) == 1 else z3.BoolVal(False)))
                            return out

                        rp = lambda m, s, accept=(lambda w: True), i=dict(inst): replay_qw(m, s, i, accept)
                        check_paths(run, E, res, tag, inst, unsup, sup, honoured, rp)


# ------------------------------------------------------------------------------------------------ (b,c) symmetric quantizer / activations
def part_symmetric(run):
    src_q = """
def prog(base, qtype, axis, scale):
    return SymmetricQuantizer.apply(base, qtype, axis, scale)
"""
    src_a = """
def prog(base, qtype, axis, scale):
    return quantize_activation(base, qtype, scale)
"""
    axes = (None, -2, -1, 0, 1, 2)
    for qname in ("qint8", "qfloat8_e4m3fn", "qfloat8_e5m2"):
        for entry in ("quantizer", "activation"):
            for axis in axes if entry == "quantizer" else (None,):
                for rank in (1, 2, 3) + ((4,) if run.tier == "thorough" else ()):
                    for srank in range(0, rank + 2):
                        if axis is not None and not (-rank <= axis < rank):
                            continue
                        if qname != "qint8" and (rank > 2 or srank > 2) and run.tier == "quick":
                            continue
                        inst = {"entry": entry, "qtype": qname, "axis": axis, "rank": rank, "scale_rank": srank}
                        run.count_instance(**inst)
                        E = engine(run)
                        qt = qtype_of(E, qname)
                        prog = E.snippet(src_q if entry == "quantizer" else src_a, SYMQ if entry == "quantizer" else QACT,
                                         {"SymmetricQuantizer": E.get(f"{SYMQ}::SymmetricQuantizer")})
                        ds, dpos = lib.dims("d", rank)
                        es, epos = lib.dims("e", srank)

                        def setup(E2, ds=ds, dpos=dpos, es=es, epos=epos, qt=qt, axis=axis):
                            for c in dpos + epos:
                                E2.assume(c)
                            return [new_input(E2, "X", "float32", ds), qt, axis, new_input(E2, "S", "float32", es)], {}

                        try:
                            res = E.explore(prog, setup, name="C14.sym")
                        except Unsupported as u:
                            run.undecide(f"C14/sym[{qname}/{axis}/{rank}/{srank}]", u, inst)
                            continue
                        run.absorb(E)
                        tag = f"{entry}/{qname}/axis{axis}/r{rank}/sr{srank}"
                        if axis is None:
                            if entry == "activation":
                                unsup = zi(numel_of(es)) != 1 if srank else z3.BoolVal(False)
                                unsup = z3.Or(unsup, z3.BoolVal(srank > 0))
                            else:
                                unsup = z3.BoolVal(srank > 0)
                            sup = z3.BoolVal(srank == 0)
                            want_axis = None
                        else:
                            k = axis % rank
                            firstlast = axis in (0, -1, rank - 1)
                            want_axis = -1 if k == rank - 1 else 0
                            ks = inv.keepdim_shape(ds, axis)
                            match = lib.shape_eq(es, ks) if srank == rank else z3.BoolVal(False)
                            unsup = z3.Or(z3.BoolVal(rank == 1 or not firstlast), zi(ds[k]) == 1, z3.Not(match))
                            sup = z3.And(z3.BoolVal(rank >= 2 and firstlast), zi(ds[k]) >= 2, match)

                        def honoured(q, qt=qt, want_axis=want_axis, ds=ds):
                            if not isinstance(q, Obj):
                                return [("returns-a-quantized-tensor", z3.BoolVal(False))]
                            return [("qtype", z3.BoolVal(q.fields.get("_qtype") is qt)), ("axis", z3.BoolVal(q.fields.get("_axis") == want_axis)),
                                    ("shape", lib.shape_eq(list(q.fields["_w_size"]), ds))] + [("inv:" + a, b) for a, b in inv.inv_qbytes(q)]

                        rp = lambda m, s, accept=(lambda w: True), i=dict(inst): replay_sym(m, s, i, accept)
                        check_paths(run, E, res, tag, inst, unsup, sup, honoured, rp)


# ------------------------------------------------------------------------------------------------ (d) affine quantizer
def part_affine(run):
    src = """
def prog(base, qtype, axis, group_size, scale, zeropoint):
    return AffineQuantizer.apply(base, qtype, axis, group_size, scale, zeropoint)
"""
    for qname in ("qint2", "qint4", "qint8", "qfloat8_e4m3fn"):
        for axis in (None, -2, -1, 0, 1):
            for rank in (1, 2, 3):
                for grouped in (False, True):
                    if axis not in (0, -1) and (grouped or rank > 2):
                        continue
                    if BITS[qname] == 8 and (grouped or rank > 2):
                        continue
                    inst = {"entry": "affine-quantizer", "qtype": qname, "axis": axis, "rank": rank, "grouped": grouped}
                    run.count_instance(**inst)
                    E = engine(run)
                    qt = qtype_of(E, qname)
                    prog = E.snippet(src, AFFQ)
                    ds, dpos = lib.dims("d", rank)
                    G = z3.Int("G")
                    ok_axis = axis in (0, -1)
                    k = (axis % rank) if ok_axis else 0
                    others = [d for j, d in enumerate(ds) if j != k]
                    n = zi(numel_of(others)) if others else z3.IntVal(1)
                    # the scale / zero-point handed in are the ones the optimizer contract produces: keepdim over the (grouped) payload
                    if grouped:
                        gshape = [zi(numel_of(ds)) / G, G] if axis == 0 else [G, zi(numel_of(ds)) / G]
                        sshape = inv.keepdim_shape(gshape, axis) if ok_axis else [1, 1]
                    else:
                        sshape = inv.keepdim_shape(ds, axis) if (ok_axis and rank > 1) else [1] * rank

                    def setup(E2, ds=ds, dpos=dpos, qt=qt, axis=axis, grouped=grouped, sshape=sshape):
                        for c in dpos:
                            E2.assume(c)
                        if grouped:
                            E2.assume(G >= 1)
                            for h in lib.mul_mod_hints(ds, G):
                                E2.assume(h)
                        return [new_input(E2, "X", "float32", ds), qt, axis, G if grouped else None, new_input(E2, "S", "float32", sshape),
                                new_input(E2, "Z", "int8", sshape)], {}

                    try:
                        res = E.explore(prog, setup, name="C14.aff")
                    except Unsupported as u:
                        run.undecide(f"C14/aff[{qname}/{axis}/{rank}]", u, inst)
                        continue
                    run.absorb(E)
                    tag = f"affine/{qname}/axis{axis}/r{rank}/{'G' if grouped else 'nogroup'}"
                    nondiv = z3.Or(G > n, n % G != 0) if grouped else z3.BoolVal(False)
                    unsup = z3.Or(z3.BoolVal(BITS[qname] == 8 or not ok_axis), nondiv)
                    sup = z3.And(z3.BoolVal(BITS[qname] != 8 and ok_axis), z3.Not(nondiv))

                    def honoured(q, qt=qt, axis=axis, grouped=grouped, ds=ds, rank=rank):
                        if not isinstance(q, Obj):
                            return [("returns-a-quantized-tensor", z3.BoolVal(False))]
                        gs = q.fields.get("_group_size")
                        pre = "rank1-inv:" if rank == 1 else "inv:"
                        return [("qtype", z3.BoolVal(q.fields.get("_qtype") is qt)), ("axis", z3.BoolVal(q.fields.get("_axis") == axis)),
                                ("group_size", (zi(gs) == G) if (grouped and gs is not None) else z3.BoolVal((gs is None) == (not grouped))),
                                ("shape", lib.shape_eq(list(q.fields["_w_size"]), ds))] + [(pre + a, b) for a, b in inv.inv_qbits(q)]

                    rp = lambda m, s, accept=(lambda w: True), i=dict(inst): replay_qw(m, s, dict(i, entry="affine"), accept)
                    check_paths(run, E, res, tag, inst, unsup, sup, honoured, rp)


# ------------------------------------------------------------------------------------------------ (e) automatic group size
def part_group_size(run):
    """For EVERY integer in_features >= 1: the automatically chosen group size is None or one of 128/96/64/32, divides the
    per-output element count and does not exceed it; the module can then quantize its weight without raising."""
    src_lin = """
def prog(inf, outf, qt):
    m = QLinear(inf, outf, weights=qt)
    q = m.qweight
    return m, q
"""
    src_conv = """
def prog(cin, cout, kh, kw, groups, qt):
    m = QConv2d(cin, cout, (kh, kw), groups=groups, weights=qt)
    q = m.qweight
    return m, q
"""
    for qname in QNAMES:
        if qname == "qfloat8":
            continue
        for kind in ("linear", "conv2d"):
            inst = {"entry": "auto-group-size", "module": kind, "qtype": qname}
            run.count_instance(**inst)
            E = engine(run, group_contract=True)
            E.load_module(QLIN)
            E.load_module(QCONV)
            qt = qtype_of(E, qname)
            if kind == "linear":
                prog = E.snippet(src_lin, QLIN)
                F, O = z3.Ints("F O")

                def setup(E2, qt=qt):
                    E2.assume(F >= 1)
                    E2.assume(O >= 1)
                    return [F, O, qt], {}
                feat = F
            else:
                prog = E.snippet(src_conv, QCONV)
                ci, co, kh, kw, gr, cg = z3.Ints("cin cout kh kw groups cg")

                def setup(E2, qt=qt):
                    for v in (co, kh, kw, gr, cg):
                        E2.assume(v >= 1)
                    E2.assume(ci == cg * gr)       # in_channels divisible by groups (else torch refuses the module itself)
                    E2.assume(ci / gr == cg)
                    E2.assume(ci % gr == 0)
                    E2.assume(co % gr == 0)
                    return [ci, co, kh, kw, gr, qt], {}
                feat = cg * kh * kw
            try:
                res = E.explore(prog, setup, name="C14.gs")
            except Unsupported as u:
                run.undecide(f"C14/auto-group-size[{kind}/{qname}]", u, inst)
                continue
            run.absorb(E)
            tag = f"{kind}/{qname}"
            rp = lambda m, s, kd=kind, qn=qname: replay_gs(m, s, kd, qn)
            if not run.expect_paths(res, f"C14/auto-group-size[{tag}]", inst):
                continue
            seen_gs = set()
            for pi, r in enumerate(res):
                if r.outcome == "raise":
                    run.add(f"C14/module-can-be-built-and-quantized[{tag}]/path{pi}:{r.value.tname}", r.hyps, z3.BoolVal(False), "property", inst,
                            {"raises": repr(r.value)[:200]}, replay=rp)
                    continue
                m, q = r.value
                gs = m.fields.get("weight_group_size")
                seen_gs.add(str(gs))
                okset = gs is None or (isinstance(gs, int) and gs in (32, 64, 96, 128))
                run.add(f"C14/group-size-in-(None,32,64,96,128)[{tag}]/path{pi}", r.hyps, z3.BoolVal(okset), "property", inst, replay=rp)
                if BITS[qname] == 8:
                    run.add(f"C14/no-group-for-8bit[{tag}]/path{pi}", r.hyps, z3.BoolVal(gs is None), "property", inst, replay=rp)
                if gs is not None and isinstance(gs, int):
                    w = m.fields["weight"]
                    per_out = zi(numel_of(w.shape)) / zi(w.shape[0])
                    run.add(f"C14/group-size-divides-per-output-count[{tag}]/path{pi}", r.hyps, z3.And(per_out % gs == 0, gs <= per_out), "property", inst, replay=rp)
                if isinstance(q, Obj):
                    run.add(f"C14/module-weight-qtype[{tag}]/path{pi}", r.hyps, z3.BoolVal(q.fields.get("_qtype") is qt), "property", inst, replay=rp)
                for o in r.obligations:
                    if o.kind in ("torch-pre", "callee-pre", "assert"):
                        run.add(f"C14/no-runtime-error[{tag}]/path{pi}/{o.name}@{o.loc}", o.hyps, o.goal, "property", inst, replay=rp)
                    elif o.kind == "side" and "div-nonzero" not in o.name:
                        run.add(f"C14/exec[{tag}]/path{pi}/{o.name}@{o.loc}", o.hyps, o.goal, "side", inst)
            if BITS[qname] < 8:
                # reachability (vacuity guard): every candidate group size is actually produced on some path
                run.add(f"C14/all-candidates-reachable[{tag}]", [], z3.BoolVal({"None", "32", "64", "96", "128"} <= seen_gs), "side", inst)


def build(run):
    from props import conformance

    conformance.run_conformance(run, ['group'])
    run.assume("A-ENGINE qvc VC generator + z3/cvc5", "A-PY python semantics subset", "A-TORCH-IDX shapes of reshape/broadcast results; "
               "a violated PyTorch precondition (broadcast, reshape numel) raises RuntimeError", "A-TORCH-NN nn.Linear/Conv2d constructors create "
               "weight [out, in] / [out, in/groups, kh, kw]", "contract PackedTensor.pack (proved by C04)")
    run.assumptions += ["dimensions >= 1", "'clearly supported' = axis first/last, rank >= 2 (8-bit), right optimizer family, group size None or a divisor; "
                        "ValueError on rank-1 per-axis requests and on an axis of size 1 handed to the symmetric quantizer is accepted as a documented refusal",
                        "the element-level clauses (C01-C03) of an honoured configuration are decided by those properties' own checks"]
    E0 = run.engine()
    for key in (f"{QW}::quantize_weight", f"{QACT}::quantize_activation", f"{SYMQ}::SymmetricQuantizer.forward", f"{AFFQ}::AffineQuantizer.forward",
                f"{GROUP}::group", f"{SYMO}::SymmetricOptimizer.__call__", f"{AFFO}::AffineOptimizer.__call__", f"{QMOD}::QModuleMixin.__init__",
                f"{QMOD}::QModuleMixin.qweight", f"{QLIN}::QLinear.qcreate", f"{QCONV}::QConv2d.qcreate"):
        run.under_contract(E0, key)
    lib.lean_lemmas(run, ["mul_mod_of_mod"])
    for part in (part_group_size, part_symmetric, part_quantize_weight, part_affine):
        try:
            part(run)
        except Unsupported as u:
            run.undecide(f"C14/{part.__name__}", f"unsupported: {u}")


# ------------------------------------------------------------------------------------------------ native replay
def _mi(model, name, default):
    try:
        return int(model.get(name, default))
    except Exception:
        return default


def _native_inv(q, t, qname, axis, gs):
    """Honoured + invariant on a real tensor; returns a description of what is wrong or None."""
    import torch
    from optimum.quanto import QBitsTensor, QBytesTensor, qtypes

    if q.qtype != qtypes[qname]:
        return "qtype not honoured"
    if tuple(q.shape) != tuple(t.shape):
        return "shape differs"
    d = q.dequantize()
    if tuple(d.shape) != tuple(t.shape) or d.dtype != q.dtype:
        return "dequantized shape/dtype differs from reported"
    if isinstance(q, QBytesTensor):
        k = None if q.axis is None else q.axis % t.ndim
        if q._data.shape != t.shape:
            return "payload shape"
        if q.axis is None:
            if q._scale.ndim != 0:
                return "per-tensor tensor with non-scalar scale"
        else:
            want = [s if j == k else 1 for j, s in enumerate(t.shape)]
            if list(q._scale.shape) != want:
                return f"scale shape {list(q._scale.shape)} does not broadcast along declared axis {q.axis} of {list(t.shape)}"
    if isinstance(q, QBitsTensor):
        if q._group_size != gs:
            return "group size not honoured"
        if q.axis != axis:
            return "axis not honoured"
        if t.ndim == 1 and q._scale.numel() != t.shape[0]:
            return f"rank-1 tensor along axis 0: {q._scale.numel()} scale(s) for {t.shape[0]} axis indices"
    return None


RAISES = lambda w: w.startswith("raises")
REJECTS_SUPPORTED = lambda w: w.startswith("ValueError on a supported")
ACCEPTS_UNSUPPORTED = lambda w: "accepted" in w
RANK1 = lambda w: w.startswith("rank-1 tensor")
NOT_HONOURED = lambda w: not (RAISES(w) or REJECTS_SUPPORTED(w) or ACCEPTS_UNSUPPORTED(w) or RANK1(w))


def replay_qw(model, seed, inst, accept=lambda w: True):
    import itertools
    import torch
    from optimum.quanto import AbsmaxOptimizer, MaxOptimizer, qtypes, quantize_weight
    from optimum.quanto.tensor.quantizers import AffineQuantizer

    torch.manual_seed(seed)
    qname, axis, rank = inst["qtype"], inst["axis"], inst["rank"]
    dims0 = [max(1, min(6, _mi(model, f"d{k}", 3))) for k in range(rank)]
    shapes = [dims0] + [list(s) for s in itertools.product((1, 2, 4, 6), repeat=rank)][:40]
    opt = {None: None, "absmax": AbsmaxOptimizer(), "max": MaxOptimizer()}[inst.get("optimizer")]
    for shape in shapes:
        t = torch.randn(shape, dtype=torch.float16)
        n = t.numel()
        gss = [None]
        if inst.get("grouped"):
            gss = sorted({max(1, _mi(model, "G", 2))} | set(range(1, 2 * n + 1)))
        for gs in gss:
            try:
                if inst.get("entry") == "affine":
                    from optimum.quanto import MaxOptimizer as MO
                    try:
                        sc, zp = MO()(t, bits=qtypes[qname].bits if qtypes[qname].bits < 8 else 4, axis=axis if axis in (0, -1) else 0, group_size=gs)
                    except ValueError:
                        sc, zp = torch.ones((), dtype=t.dtype), torch.zeros((), dtype=torch.int8)
                    q = AffineQuantizer.apply(t, qtypes[qname], axis, gs, sc, zp)
                else:
                    q = quantize_weight(t, qtypes[qname], axis, gs, opt)
            except ValueError:
                # a ValueError on a clearly supported configuration?
                bits = qtypes[qname].bits
                if axis in (0, -1) and rank >= 2 and all(s >= 2 for s in shape):
                    k = axis % rank
                    per = n // shape[k]
                    okopt = (opt is None) or (bits == 8 and inst.get("optimizer") == "absmax") or (bits < 8 and inst.get("optimizer") == "max")
                    okgs = (gs is None) if bits == 8 else (gs is None or (per % gs == 0 and gs <= per))
                    if okopt and okgs and inst.get("entry") != "affine":
                        _r = {"shape": shape, "qtype": qname, "axis": axis, "group_size": gs, "what": "ValueError on a supported configuration"}
                        if accept(_r["what"]):
                            return _r
                continue
            except Exception as e:
                _r = {"shape": shape, "qtype": qname, "axis": axis, "group_size": gs, "optimizer": inst.get("optimizer"),
                        "what": f"raises {type(e).__name__} instead of ValueError", "message": str(e)[:200]}
                if accept(_r["what"]):
                    return _r
            bits = qtypes[qname].bits
            if gs is not None and bits < 8 and axis in (0, -1):
                per = n // shape[axis % rank]
                if per % gs != 0 or gs > per:
                    _r = {"shape": shape, "qtype": qname, "axis": axis, "group_size": gs, "what": "non-divisor group size accepted"}
                    if accept(_r["what"]):
                        return _r
            w = _native_inv(q, t, qname, axis, gs)
            if w:
                _r = {"shape": shape, "qtype": qname, "axis": axis, "group_size": gs, "what": w}
                if accept(_r["what"]):
                    return _r
    return None


def replay_sym(model, seed, inst, accept=lambda w: True):
    import itertools
    import torch
    from optimum.quanto import qtypes, quantize_activation
    from optimum.quanto.tensor.quantizers import SymmetricQuantizer

    torch.manual_seed(seed)
    qname, axis, rank, srank = inst["qtype"], inst["axis"], inst["rank"], inst["scale_rank"]
    base_shapes = [[max(1, min(5, _mi(model, f"d{k}", 3))) for k in range(rank)]] + [list(s) for s in itertools.product((1, 2, 4), repeat=rank)]
    for shape in base_shapes:
        sshapes = [[max(1, min(5, _mi(model, f"e{k}", 1))) for k in range(srank)]] + [list(s) for s in itertools.product((1, 2, 4), repeat=srank)]
        for ss in sshapes:
            t = torch.randn(shape)
            sc = torch.rand(ss) + 0.5
            try:
                q = quantize_activation(t, qtypes[qname], sc) if inst["entry"] == "activation" else SymmetricQuantizer.apply(t, qtypes[qname], axis, sc)
            except ValueError:
                continue
            except Exception as e:
                _r = {"shape": shape, "scale_shape": ss, "axis": axis, "qtype": qname, "what": f"raises {type(e).__name__} instead of ValueError",
                        "message": str(e)[:200]}
                if accept(_r["what"]):
                    return _r
            # the call returned: was the configuration one the property says must be refused?  (mirror of `unsup` in part_symmetric)
            rank = len(shape)
            if axis is None:
                unsup = srank > 0
            else:
                k = axis % rank
                keep = [s_ if j == k else 1 for j, s_ in enumerate(shape)]
                unsup = rank == 1 or axis not in (0, -1, rank - 1) or shape[k] == 1 or list(ss) != keep
            if unsup:
                _r = {"shape": shape, "scale_shape": ss, "axis": axis, "qtype": qname,
                      "what": f"unsupported configuration accepted: scale of shape {list(ss)} for axis {axis} of a base of shape {list(shape)} (declared axis {q.axis})"}
                if accept(_r["what"]):
                    return _r
            w = _native_inv(q, t, qname, axis, None)
            if w:
                _r = {"shape": shape, "scale_shape": ss, "axis": axis, "qtype": qname, "what": w}
                if accept(_r["what"]):
                    return _r
    return None


def replay_gs(model, seed, kind, qname):
    import torch
    from optimum.quanto import qtypes
    from optimum.quanto.nn import QConv2d, QLinear

    F0 = _mi(model, "F", 130)
    cands = sorted({F0, 1, 31, 32, 33, 96, 127, 128, 129, 130, 160, 192, 200, 224, 255, 256, 300, 384, 1000} | set(range(120, 200, 7)))
    for f in cands:
        try:
            if kind == "linear":
                m = QLinear(f, 3, weights=qtypes[qname])
                x = torch.randn(2, f)
            else:
                m = QConv2d(f, 2, 1, weights=qtypes[qname])
                x = torch.randn(1, f, 2, 2)
            gs = m.weight_group_size
            per = m.weight.numel() // m.weight.shape[0]
            if gs is not None and (per % gs != 0 or gs > per):
                return {"in_features": f, "module": kind, "qtype": qname, "group_size": gs, "what": "chosen group size does not divide the per-output element count"}
            m(x)
            m.freeze()
            m(x)
        except Exception as e:
            return {"in_features": f, "module": kind, "qtype": qname, "what": f"module cannot be built/run: {type(e).__name__}: {str(e)[:150]}"}
    return None


def replay_file(path):
    import json
    rec = json.load(open(path))
    inst = rec["instance"]
    e = inst.get("entry")
    if e == "auto-group-size":
        r = replay_gs(rec.get("model") or {}, rec.get("seed", 0), inst["module"], inst["qtype"])
    elif e in ("quantizer", "activation"):
        r = replay_sym(rec.get("model") or {}, rec.get("seed", 0), inst)
    else:
        r = replay_qw(rec.get("model") or {}, rec.get("seed", 0), inst)
    print(json.dumps(r, indent=1, default=str))
    return 1 if r else 0
