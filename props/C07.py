"""C07 - quantized matmul / linear kernels compute scale-corrected products on every path (DESIGN 6.7).

REF[.., j] = sum_k deq(A)[.., k] * deq(W)[j, k] (+ bias[j]).  Contractions are uninterpreted finite sums with their summand
recorded; two sums are related by finite-sum linearity (lemmas/Arith.lean sum_linear): if for a symbolic k the summands satisfy
g(k) == c * f(k) with c independent of k, then sum g == c * sum f.  Algebra R (A-REAL).
"""
import z3

from props import ops_common as OC
from qvc import lib
from qvc.lib import idx_vars, zi
from qvc.sym import Unsupported
from qvc.tm_index import SumTerm, _sum_term
from qvc.tm_tensor import call_aten, is_wrapper, new_input
from qvc.values import AtenOp, Builtin, Device, DType, STensor, contiguous_strides

QMM = "optimum/quanto/library/qbytes_mm.py"
SRC = """
def prog(x, w, b):
    return torch.nn.functional.linear(x, w, b)
"""


def sums_in(E, term):
    """SumTerms of the current path whose term occurs in `term`."""
    names = set()

    def walk(t, seen=set()):
        if t.get_id() in seen:
            return
        seen.add(t.get_id())
        if z3.is_app(t):
            names.add(t.decl().name())
            for c in t.children():
                walk(c, seen)

    walk(term, set())
    return [s for s in E.ps.get("sums", []) if s.term.decl().name() in names]


def occurrences(term, name):
    out = []

    def walk(t, seen=set()):
        if t.get_id() in seen:
            return
        seen.add(t.get_id())
        if z3.is_app(t):
            if t.decl().name() == name:
                out.append(t)
            for c in t.children():
                walk(c, seen)

    walk(term, set())
    return out


def narrowed_args(term, fname, sumname):
    """Arguments of the narrowing markers `fname` that contain the contraction `sumname`."""
    out, seen = [], set()

    def walk(t):
        if t.get_id() in seen:
            return
        seen.add(t.get_id())
        if z3.is_app(t):
            if t.decl().name() == fname and occurrences(t.arg(0), sumname):
                out.append(t.arg(0))
            for c in t.children():
                walk(c)

    walk(term)
    return out


def make_weight(E, h, kind, N, K, dtype):
    if kind in ("qint8-axis0", "qfloat8-axis0", "qfloat8_e5m2-axis0"):
        h.qname = "qint8" if kind.startswith("qint8") else ("qfloat8_e5m2" if "e5m2" in kind else "qfloat8_e4m3fn")
        h.qt = E.load_module(OC.QTYPE).env.lookup(h.qname)
        return h.q([N, K], name="W", axis=0)
    if kind == "qint8-per-tensor":
        h.qname = "qint8"
        h.qt = E.load_module(OC.QTYPE).env.lookup("qint8")
        return h.q([N, K], name="W", axis=None)
    if kind in ("qint4-axis0", "qint2-axis0"):
        cls = E.get(f"{OC.QBITS}::QBitsTensor")
        qt = E.load_module(OC.QTYPE).env.lookup(kind[:5])
        top = 16 if kind.startswith("qint4") else 4
        data = new_input(E, "W_c", "uint8", [N, K])
        cid, cinb = idx_vars("cq", [N, K])
        E.assume(z3.ForAll(cid, z3.Implies(z3.And(*cinb), z3.And(data.elem(cid) >= 0, data.elem(cid) < top))))
        sc = new_input(E, "W_s", dtype, [N, 1])
        zp = new_input(E, "W_z", "int8", [N, 1])
        zid, zinb = idx_vars("zq", [N, 1])
        E.assume(z3.ForAll(zid, z3.Implies(z3.And(*zinb), z3.And(zp.elem(zid) >= 0, zp.elem(zid) < top))))  # zero-points lie on the grid (C02)
        return E.call(cls, [qt, 0, None, (N, K), contiguous_strides([N, K]), data, sc, zp], {})
    raise ValueError(kind)


def make_act(E, h, kind, shape, dtype):
    if kind == "float":
        return new_input(E, "X", dtype, shape)
    if kind == "qint4":
        # a packed low-bit tensor used as the INPUT of the linear function (per-axis along the rows, rank 2)
        cls = E.get(f"{OC.QBITS}::QBitsTensor")
        qt = E.load_module(OC.QTYPE).env.lookup("qint4")
        data = new_input(E, "X_c", "uint8", list(shape))
        cid, cinb = idx_vars("xq", list(shape))
        E.assume(z3.ForAll(cid, z3.Implies(z3.And(*cinb), z3.And(data.elem(cid) >= 0, data.elem(cid) < 16))))
        sc = new_input(E, "X_s", dtype, [shape[0], 1])
        zp = new_input(E, "X_z", "int8", [shape[0], 1])
        zid, zinb = idx_vars("xz", [shape[0], 1])
        E.assume(z3.ForAll(zid, z3.Implies(z3.And(*zinb), z3.And(zp.elem(zid) >= 0, zp.elem(zid) < 16))))
        return E.call(cls, [qt, 0, None, tuple(shape), contiguous_strides(list(shape)), data, sc, zp], {})
    h2 = OC.H(E, {"qint8": "qint8", "qfloat8": "qfloat8_e4m3fn", "qfloat8_e5m2": "qfloat8_e5m2"}[kind], None, dtype)
    return h2.q(shape, name="X", axis=None)


def linear_cases(run):
    quick = run.tier == "quick"
    for wkind in ("qint8-axis0", "qint8-per-tensor", "qfloat8-axis0", "qint4-axis0", "qint2-axis0", "qfloat8_e5m2-axis0"):
        for akind in ("float", "qint8", "qfloat8", "qfloat8_e5m2", "qint4"):
            for dtype in ("float32", "float16", "bfloat16"):
                for brank in ((1,) if akind == "qint4" else (1, 2, 3)):   # (a 1-D input returns shape (1, out) instead of (out,): outside the property's batch ranks 1..3; remark in DESIGN.md)
                    for bias in (False, True):
                        for device in ("cpu", "cuda", "mps"):
                            if device != "cpu" and wkind in ("qint4-axis0", "qint2-axis0"):
                                continue   # packed weights take one device-independent route (dequantize, then matmul)
                            if akind == "qint4" and (device != "cpu" or (quick and not (dtype == "float32" and wkind in ("qint8-axis0", "qint4-axis0")))):
                                continue
                            if quick:
                                if (wkind in ("qint2-axis0", "qfloat8_e5m2-axis0") or akind == "qfloat8_e5m2") and not (dtype == "float16" and brank == 2 and not bias and device == "cpu"):
                                    continue
                                if device != "cpu" and not (dtype == "float16" and brank in (1, 2) and wkind in ("qint8-axis0", "qfloat8-axis0")):
                                    continue
                                if brank == 3 and not (dtype == "float32" and wkind == "qint8-axis0"):
                                    continue
                                if bias and brank != 1:
                                    continue
                            inst = {"weight": wkind, "activation": akind, "dtype": dtype, "batch_rank": brank, "bias": bias, "device": device}
                            run.count_instance(**inst)
                            yield inst


def run_linear(run):
    for inst in linear_cases(run):
        wkind, akind, dtype, brank, bias, device = inst["weight"], inst["activation"], inst["dtype"], inst["batch_rank"], inst["bias"], inst["device"]
        E = OC.engine(run)
        E.alg.track_narrowing = True
        E.load_module("optimum/quanto/library/__init__.py")
        E.load_module(OC.QFUNC)
        prog = E.snippet(SRC, OC.QFUNC)
        K, N = z3.Ints("K N")
        bs = [z3.Int(f"b{t}") for t in range(brank)]

        def setup(E2, wkind=wkind, akind=akind, dtype=dtype, bias=bias, device=device, bs=bs):
            for v in [K, N] + bs:
                E2.assume(v >= 1)
            h = OC.H(E2, "qint8", 0, dtype)
            w = make_weight(E2, h, wkind, N, K, dtype)
            x = make_act(E2, h, akind, bs + [K], dtype)
            b = new_input(E2, "B", dtype, [N]) if bias else None
            if device != "cpu":
                for t in [w, x]:
                    tensors = [t] if isinstance(t, STensor) else [v for v in t.fields.values() if isinstance(v, STensor)] + \
                        ([t.fields["_data"].fields["_data"]] if is_wrapper(t) and is_wrapper(t.fields.get("_data")) else [])
                    for s_ in tensors:
                        s_.device = Device(device)
                    if is_wrapper(t):
                        t.fields["_w_device"] = Device(device)
                if b is not None:
                    b.device = Device(device)
            return [x, w, b], {}

        tag = f"linear/{wkind}/{akind}/{dtype}/b{brank}/{'bias' if bias else 'nobias'}/{device}"
        try:
            res = E.explore(prog, setup, name="C07.linear")
        except Unsupported as u:
            run.undecide(f"C07/{tag}", u, inst)
            continue
        run.absorb(E)
        if not run.expect_paths(res, f"C07/{tag}", inst):
            continue
        rp = lambda m, s, i=dict(inst): replay(m, s, i, ("values",))
        rp_raise = lambda m, s, i=dict(inst): replay(m, s, i, ("raise",))
        rp_shape = lambda m, s, i=dict(inst): replay(m, s, i, ("shape",))
        rp_fin = lambda m, s, i=dict(inst): replay(m, s, i, ("finite",))
        for pi, r in enumerate(res):
            if r.outcome == "raise":
                fam_r = "C07/cuda-kernel-4d-input" if (device == "cuda" and brank == 3 and r.value.tname == "AssertionError") else "C07"
                run.add(f"{fam_r}/does-not-raise[{tag}]/path{pi}:{r.value.tname}", r.hyps, z3.BoolVal(False), "property", inst, {"raises": repr(r.value)[:200]}, replay=rp_raise)
                continue
            E.focus(r)
            out = r.value
            if not isinstance(out, STensor):
                run.add(f"C07/returns-plain-tensor[{tag}]/path{pi}", r.hyps, z3.BoolVal(False), "property", inst, replay=rp_shape)
                continue
            oshape = bs + [N]
            run.add(f"C07/result-shape-and-dtype[{tag}]/path{pi}", r.hyps, z3.And(lib.shape_eq(out.shape, oshape), z3.BoolVal(out.dtype == dtype)), "property", inst, replay=rp_shape)
            if len(out.shape) != len(oshape):
                continue
            ids, inb = idx_vars("o", oshape)
            j = ids[-1]
            E.drain()
            got = out.elem(ids)
            # reference operands (dequantized element terms)
            R = z3.RealSort()
            def wdeq(jj, kk):
                if wkind in ("qint4-axis0", "qint2-axis0"):
                    c = z3.Function("W_c", z3.IntSort(), z3.IntSort(), z3.IntSort())(jj, kk)
                    z = z3.Function("W_z", z3.IntSort(), z3.IntSort(), z3.IntSort())(jj, 0)
                    s = z3.Function("W_s", z3.IntSort(), z3.IntSort(), R)(jj, 0)
                    return s * z3.ToReal(c - z)
                d = z3.Function("W_d", z3.IntSort(), z3.IntSort(), z3.IntSort() if wkind.startswith("qint8") else R)(jj, kk)
                dv = z3.ToReal(d) if wkind.startswith("qint8") else d
                s = z3.Function("W_s", z3.IntSort(), z3.IntSort(), R)(jj, 0) if wkind.endswith("axis0") else z3.Const("W_s", R)
                return s * dv
            def adeq(bi, kk):
                if akind == "float":
                    return z3.Function("X", *([z3.IntSort()] * (brank + 1)), R)(*bi, kk)
                if akind == "qint4":
                    I2 = [z3.IntSort(), z3.IntSort()]
                    return z3.Function("X_s", *I2, R)(bi[0], 0) * z3.ToReal(z3.Function("X_c", *I2, z3.IntSort())(bi[0], kk) - z3.Function("X_z", *I2, z3.IntSort())(bi[0], 0))
                d = z3.Function("X_d", *([z3.IntSort()] * (brank + 1)), z3.IntSort() if akind == "qint8" else R)(*bi, kk)
                return z3.Const("X_s", R) * (z3.ToReal(d) if akind == "qint8" else d)
            bi = ids[:-1]
            refsum = _sum_term(E, "REF", ids, K, lambda k: adeq(bi, k) * wdeq(j, k), dtype)
            ref = refsum + (z3.Function("B", z3.IntSort(), R)(j) if bias else 0)
            impl = sums_in(E, got)
            impl = [s for s in impl if not s.name.startswith("sum_REF")]
            facts = E.drain() + list(E.ps.get("lazy_facts", []))
            hy = r.hyps + inb + facts
            if len(impl) != 1:
                run.undecide(f"C07/{tag}/path{pi}", f"expected exactly one contraction in the result element, found {len(impl)}", inst)
                continue
            S = impl[0]
            # (acc) the un-scaled products of raw codes must be accumulated in a dtype that cannot overflow first
            fam = "float8-weights" if wkind.startswith("qfloat8") else "int-weights"
            needs32 = (dtype != "float32")
            okacc = (not needs32) or S.dtype in ("float32", "int32", "float64") or wkind in ("qint4-axis0", "qint2-axis0")
            run.add(f"C07/{fam}/accumulates-raw-codes-in-32-bit[{tag}]/path{pi}", r.hyps, z3.BoolVal(okacc), "property", inst,
                    {"accumulation_dtype": S.dtype}, replay=rp_fin)
            # (lin) summand relation for a symbolic k: g(k) == c * f(k), c independent of k
            occ = occurrences(got, S.term.decl().name())
            if len(occ) != 1:
                run.undecide(f"C07/{tag}/path{pi}", "the contraction occurs at several indices in one result element", inst)
                continue
            sargs = [occ[0].arg(t) for t in range(occ[0].num_args())]
            k = z3.Int("k")
            # re-create the summand of the implementation's sum at its own index arguments
            fk = S.summand(k)
            gk = adeq(bi, k) * wdeq(j, k)
            facts2 = E.drain()
            if wkind in ("qint4-axis0", "qint2-axis0"):
                c = z3.RealVal(1)
            else:
                sw = z3.Function("W_s", z3.IntSort(), z3.IntSort(), R)(j, 0) if wkind.endswith("axis0") else z3.Const("W_s", R)
                c = sw * (z3.Const("X_s", R) if akind not in ("float", "qint4") else 1)
            fkr = z3.ToReal(fk) if z3.is_int(fk) else fk
            # the sum term is applied at sargs: the summand closure was built for those indices, check they are the result's own
            same_idx = z3.And(*[a == zi(b) for a, b in zip(sargs, ids)]) if len(sargs) == len(ids) else z3.BoolVal(True)
            hints = lib.flat_unflat_hints(bi, bs) if brank >= 2 else []
            run.add(f"C07/summand-relation[{tag}]/path{pi}", hy + facts2 + hints + [k >= 0, k < K], z3.And(gk == c * fkr, same_idx), "property", inst, replay=rp, timeout=30)
            St = z3.ToReal(occ[0]) if z3.is_int(occ[0]) else occ[0]
            lin = refsum == c * St
            run.add(f"C07/equals-reference[{tag}]/path{pi}", hy + facts2 + [lin], got == ref, "property", inst, replay=rp, timeout=30)
            # (scale) a combined scale s_in * s_w handed to the kernel in a 16-bit dtype was rounded to that dtype first: it must keep the
            # relative precision of the dtype for realistic magnitudes (largest |x|, |w| in [2^-6, 2^6]) - a bit-precise lemma per (qtype, dtype)
            if akind not in ("float", "qint4") and dtype in ("float16", "bfloat16") and wkind in ("qint8-axis0", "qint8-per-tensor", "qfloat8-axis0", "qfloat8_e5m2-axis0"):
                log = [e for e in r.ps.get("custom_op_log", []) if e[0] == "quanto::qbytes_mm"]
                if log and all(len(e[1]) == 3 and e[1][2] == dtype for e in log):
                    combined_scale_lemma(run, akind, wkind, dtype)
            # (prec) no value on the way to the result is rounded to a float type with FEWER significant bits than the output dtype
            from qvc import sym as _sym
            coarser = [d_ for d_ in ("float16", "bfloat16") if _sym.FLOAT_DTYPES[d_][1] < _sym.FLOAT_DTYPES[dtype][1] and occurrences(got, f"narrow_{d_}")]
            run.add(f"C07/{fam}/no-intermediate-coarser-than-the-output-dtype[{tag}]/path{pi}", r.hyps, z3.BoolVal(not coarser), "property", inst, {"rounded_to": coarser},
                    replay=lambda m, s, i=dict(inst): replay(m, s, i, ("precision",)))
            # (fin) only the fully scaled contraction may be rounded to a 16-bit output dtype: an intermediate that still lacks a scale
            # factor can overflow although the reference is representable
            if dtype in ("float16", "bfloat16"):
                for na, narg in enumerate(narrowed_args(got, f"narrow_{dtype}", S.term.decl().name())):
                    run.add(f"C07/{fam}/narrowed-value-is-the-fully-scaled-product[{tag}]/path{pi}/#{na}", hy + facts2 + [lin], z3.Or(narg == refsum, narg == ref), "property", inst,
                            replay=rp_fin, timeout=30)
            for o in r.obligations:
                if o.kind in ("torch-pre", "callee-pre", "assert"):
                    run.add(f"C07/no-runtime-error[{tag}]/path{pi}/{o.name}@{o.loc}", o.hyps, o.goal, "property", inst,
                            replay=rp if ("dense" in o.name or "exact-on-this-build" in o.name) else rp_raise)   # unchecked kernel preconditions show as wrong values


def _valid(hyps, goal, ms=4000):
    """Quick synchronous validity probe (used only to CHOOSE which coefficient to state; the stated obligation is then proved normally)."""
    sv = z3.Solver()
    sv.set("timeout", ms)
    sv.add(*hyps)
    sv.add(z3.Not(goal))
    return sv.check() == z3.unsat


MM_CASES = [("qint8", None, "qint8", None), ("qint8", None, "qint8", 0), ("qint8", None, "qint8", -1), ("qint8", 0, "qint8", None), ("qint8", -1, "qint8", None),
            ("qint8", 0, "qint8", -1), ("qfloat8_e4m3fn", None, "qint8", None), ("qint8", None, "qfloat8_e4m3fn", None),
            ("qint8", None, "plain", None), ("plain", None, "qint8", None), ("plain", None, "qint8", 0),
            # the second operand is the transpose of a (p, m) quantized tensor - the torch.matmul(x, w.t()) idiom
            ("qint8", None, "qint8.t", None), ("qint8", None, "qint8.t", 0),
            # the first operand is the transpose of a quantized (m, n) tensor (a row vector obtained from a column vector when n == 1)
            ("qint8.t", None, "qint8", None), ("qint8.t", None, "qint8.t", None), ("qint8.t", 0, "qint8", -1)]


_SCALE_LEMMAS = set()


def combined_scale_lemma(run, akind, wkind, dtype):
    """fl_dtype(s_in * s_w) has a relative error of at most one unit of the dtype, for s = fl(absmax / qmax), absmax in [2^-6, 2^6]."""
    key = (akind, wkind.split("-")[0], dtype)
    if key in _SCALE_LEMMAS:
        return
    _SCALE_LEMMAS.add(key)
    from qvc import sym as _sym
    eb, sb = _sym.FLOAT_DTYPES[dtype]
    srt = z3.FPSort(eb, sb)
    D = z3.FPSort(11, 53)
    qa = {"qint8": 127.0, "qfloat8": 448.0, "qfloat8_e5m2": 57344.0}[akind]
    qw = 127.0    # quanto scales float8 WEIGHTS by absmax/127 as well (known finding of C03)
    ax, aw = z3.Const("absmax_x", srt), z3.Const("absmax_w", srt)
    rng = lambda v: z3.And(z3.fpGEQ(v, z3.FPVal(2.0**-6, srt)), z3.fpLEQ(v, z3.FPVal(2.0**6, srt)))
    s1 = z3.fpDiv(z3.RNE(), ax, z3.FPVal(qa, srt))
    s2 = z3.fpDiv(z3.RNE(), aw, z3.FPVal(qw, srt))
    got = z3.fpToFP(z3.RNE(), z3.fpMul(z3.RNE(), s1, s2), D)
    exact = z3.fpMul(z3.RNE(), z3.fpToFP(z3.RNE(), s1, D), z3.fpToFP(z3.RNE(), s2, D))
    unit = 2.0 ** -(sb - 1)
    goal = z3.fpLEQ(z3.fpAbs(z3.fpSub(z3.RNE(), got, exact)), z3.fpMul(z3.RNE(), z3.FPVal(unit, D), exact))
    inst = {"lemma": "combined scale", "activation": akind, "weight": key[1], "dtype": dtype}
    run.add(f"C07/half-precision-combined-scale/keeps-the-relative-precision-of-the-dtype[{akind}/{key[1]}/{dtype}]", [rng(ax), rng(aw)], goal, "property", inst,
            replay=lambda m, sd, i=dict(inst): replay_scale(m, sd, i), timeout=120)


def replay_scale(model, seed, inst):
    import torch
    from optimum.quanto import absmax_scale, qtypes, quantize_activation, quantize_weight

    torch.manual_seed(seed)
    dt = {"float16": torch.float16, "bfloat16": torch.bfloat16}[inst["dtype"]]
    aq = qtypes[{"qint8": "qint8", "qfloat8": "qfloat8_e4m3fn", "qfloat8_e5m2": "qfloat8_e5m2"}[inst["activation"]]]
    wq = qtypes[{"qint8": "qint8", "qfloat8": "qfloat8_e4m3fn", "qfloat8_e5m2": "qfloat8_e5m2"}[inst["weight"]]]
    for mag in (1.0, 0.1, 0.02):
        w = (torch.randn(8, 64) * mag).to(dt)
        x = (torch.rand(4, 64) * mag).to(dt)
        qw_ = quantize_weight(w, wq, 0)
        qx = quantize_activation(x, aq, absmax_scale(x, aq))
        out = torch.nn.functional.linear(qx, qw_)
        ref = torch.nn.functional.linear(qx.dequantize().double(), qw_.dequantize().double())
        if not torch.isfinite(out).all():
            continue   # (the overflow of the raw products is another clause)
        rel = ((out.double() - ref).abs().max() / ref.abs().max()).item()
        if rel > 8 * torch.finfo(dt).eps:
            return {"what": "result off by much more than the rounding of the output dtype: the combined scale s_in*s_w was rounded to the 16-bit dtype where it is subnormal",
                    "largest_magnitude": mag, "combined_scale": (qx._scale * qw_._scale).flatten()[0].item(), "max_relative_error": rel, "dtype_eps": torch.finfo(dt).eps}
    return None


def aten_mm(run):
    """aten.mm / aten.bmm on quantized operands (qbytes_ops.mm / bmm): every route (integer GEMM, float product of the codes, fallback)
    equals the product of the dequantized operands: result[.., i, j] == sum_k deq(a)[.., i, k] * deq(b)[.., k, j]."""
    for op in ("mm", "bmm"):
        for qa, axis_a, qb, axis_b in MM_CASES:
            if op == "bmm" and qa.endswith(".t") and axis_a is not None:
                continue   # (per-axis first operand through a transpose: 2-D only - a batched per-axis tensor has no first/last-axis transpose)
            inst = {"entry": f"aten.{op}", "a": qa, "axis_a": axis_a, "b": qb, "axis_b": axis_b}
            run.count_instance(**{"mm_op": op, "mm_a": qa, "mm_axis_a": axis_a, "mm_b": qb, "mm_axis_b": axis_b})
            E = OC.engine(run)
            n, m, p, bb = z3.Ints("n m p bb")
            lead = [bb] if op == "bmm" else []

            def prog(E2, op=op, qa=qa, qb=qb, axis_a=axis_a, axis_b=axis_b, lead=lead):
                for v in (n, m, p, bb):
                    E2.assume(v >= 1)
                def mk(q, shape, nm, axis=None):
                    if q == "plain":
                        return new_input(E2, nm, "float32", shape)
                    if q.endswith(".t"):
                        # transpose of a quantized (.., p, m) tensor (axis given for the transposed result: 0 <-> -1 swapped before)
                        src_axis = None if axis is None else (-1 if axis == 0 else 0)
                        base = OC.H(E2, q[:-2], src_axis, "float32").q(shape[:-2] + [shape[-1], shape[-2]], name=nm, axis=src_axis)
                        if len(shape) == 2:
                            return call_aten(E2, AtenOp("t"), [base], {})
                        return call_aten(E2, AtenOp("transpose"), [base, -2, -1], {})
                    return OC.H(E2, q, axis, "float32").q(shape, name=nm, axis=axis)
                a = mk(qa, lead + [n, m], "A", axis_a)
                b = mk(qb, lead + [m, p], "Bm", axis_b)
                ad, bd = OC.deq(E2, a), OC.deq(E2, b)
                out = call_aten(E2, AtenOp(op), [a, b], {})
                return out, ad, bd

            tag = f"{op}/{qa}-axis{axis_a}/{qb}-axis{axis_b}"
            try:
                res = E.explore(Builtin("atenmm", prog), lambda E2: ([], {}), name="C07.atenmm")
            except Unsupported as u:
                run.undecide(f"C07/aten/{tag}", u, inst)
                continue
            run.absorb(E)
            if not run.expect_paths(res, f"C07/aten/{tag}", inst):
                continue
            rp = lambda mo, sd, i=dict(inst): replay_mm(mo, sd, i)
            for pi, r in enumerate(res):
                if r.outcome != "return":
                    run.add(f"C07/aten/does-not-raise[{tag}]/path{pi}", r.hyps, z3.BoolVal(False), "property", inst, {"outcome": repr(r.value)[:200]}, replay=rp)
                    continue
                E.focus(r)
                out, ad, bd = r.value
                oshape = lead + [n, p]
                for o in r.obligations:
                    if o.kind in ("torch-pre", "callee-pre", "assert"):
                        run.add(f"C07/aten/no-runtime-error[{tag}]/path{pi}/{o.name}@{o.loc}", o.hyps, o.goal, "property", inst, replay=rp)
                if not isinstance(out, STensor):
                    run.add(f"C07/aten/returns-plain-tensor[{tag}]/path{pi}", r.hyps, z3.BoolVal(False), "property", inst, replay=rp)
                    continue
                run.add(f"C07/aten/result-shape[{tag}]/path{pi}", r.hyps, lib.shape_eq(out.shape, oshape), "property", inst, replay=rp)
                if len(out.shape) != len(oshape):
                    continue
                ids, inb = idx_vars("o", oshape)
                E.drain()
                got = out.elem(ids)
                impl = [s_ for s_ in sums_in(E, got) if not s_.name.startswith("sum_REF")]
                k = z3.Int("k")
                li = ids[:-2]
                g = lambda kk: ad.elem(li + [ids[-2], kk]) * bd.elem(li + [kk, ids[-1]])
                gk = g(k)
                refsum = _sum_term(E, "REFMM", ids, m, g, "float32")
                facts = E.drain() + list(E.ps.get("lazy_facts", []))
                if len(impl) != 1:
                    run.undecide(f"C07/aten/{tag}/path{pi}", f"expected one contraction in the result element, found {len(impl)}", inst)
                    continue
                S = impl[0]
                occ = occurrences(got, S.term.decl().name())
                if len(occ) != 1:
                    run.undecide(f"C07/aten/{tag}/path{pi}", "the contraction occurs at several indices in one result element", inst)
                    continue
                sargs = [occ[0].arg(t) for t in range(occ[0].num_args())]
                same_idx = z3.And(*[x == zi(y) for x, y in zip(sargs, ids)]) if len(sargs) == len(ids) else z3.BoolVal(True)
                fk = S.summand(k)
                fkr = z3.ToReal(fk) if z3.is_int(fk) else fk
                St = z3.ToReal(occ[0]) if z3.is_int(occ[0]) else occ[0]
                facts2 = E.drain()
                hy = r.hyps + inb + facts + facts2
                # coefficient independent of k: 1 when the route contracts dequantized values, else the product of the operand scales
                # at the RESULT's own row / column (the only positions a k-independent scale can come from)
                R = z3.RealSort()
                def scale_at(nm, q, axis, rowcol):
                    if q == "plain":
                        return z3.RealVal(1)
                    if axis is None:
                        return z3.Const(nm + "_s", R)
                    rank = len(oshape)
                    f = z3.Function(nm + "_s", *([z3.IntSort()] * rank), R)
                    pos = axis % rank
                    args = [z3.IntVal(0)] * rank
                    val = {0: ids[0], rank - 2: ids[-2], rank - 1: ids[-1]}.get(pos, z3.IntVal(0)) if rowcol(pos, rank) else z3.IntVal(0)
                    if q.endswith(".t") and pos in (rank - 2, rank - 1):
                        # the scale symbol belongs to the SOURCE of the transpose: its axis is the other one of the last two dimensions
                        pos = rank - 1 if pos == rank - 2 else rank - 2
                    args[pos] = val
                    return f(*args)
                # a scale along the contracted dimension cannot be factored out: use position 0 there, the relation is then not provable (as it must)
                ca = scale_at("A", qa, axis_a, lambda pos, rank: pos != rank - 1)
                cb = scale_at("Bm", qb, axis_b, lambda pos, rank: pos != rank - 2)
                c = z3.RealVal(1) if _valid(hy + [k >= 0, k < m], gk == fkr) else ca * cb
                run.add(f"C07/aten/summand-relation[{tag}]/path{pi}", hy + [k >= 0, k < m], z3.And(gk == c * fkr, same_idx), "property", inst, replay=rp, timeout=30)
                lin = refsum == c * St   # sum_linear (lemmas/Arith.lean) applied to the relation above
                run.add(f"C07/aten/equals-reference[{tag}]/path{pi}", hy + [lin], got == refsum, "property", inst, replay=rp, timeout=30)


def replay_mm(model, seed, inst):
    import torch
    from optimum.quanto import absmax_scale, qtypes
    from optimum.quanto.tensor.quantizers import SymmetricQuantizer

    torch.manual_seed(seed)
    op = torch.mm if inst["entry"] == "aten.mm" else torch.bmm
    def mv(nm, d):
        try:
            return max(1, min(64, int(str(model.get(nm, d)))))
        except Exception:
            return d
    shapes = [(mv("n", 24), mv("m", 8), mv("p", 8)), (24, 24, 24), (24, 8, 16), (3, 5, 2), (32, 16, 8), (17, 8, 8), (24, 1, 8), (4, 1, 3), (1, 8, 8), (1, 5, 3), (1, 16, 24)]
    for (n, m, p) in shapes:
        lead = [] if inst["entry"] == "aten.mm" else [2]
        a = torch.randn(lead + [n, m])
        b = torch.randn(lead + [m, p]) * torch.logspace(-2, 2, m)[:, None]
        def mk(t, q, axis):
            if q == "plain":
                return t
            if q.endswith(".t"):
                tt = t.transpose(-2, -1).contiguous()
                src_axis = None if axis is None else (-1 if axis == 0 else 0)
                return SymmetricQuantizer.apply(tt, qtypes[q[:-2]], src_axis, absmax_scale(tt, qtypes[q[:-2]], src_axis)).transpose(-2, -1)
            return SymmetricQuantizer.apply(t, qtypes[q], axis, absmax_scale(t, qtypes[q], axis))
        try:
            qa_, qb_ = mk(a, inst["a"], inst["axis_a"]), mk(b, inst["b"], inst["axis_b"])
        except Exception:
            continue   # the operand itself cannot be built with this axis (not this property)
        da = qa_.dequantize() if hasattr(qa_, "dequantize") and inst["a"] != "plain" else qa_
        db = qb_.dequantize() if hasattr(qb_, "dequantize") and inst["b"] != "plain" else qb_
        ref = op(da.double(), db.double())
        try:
            out = op(qa_, qb_)
        except Exception as e:
            return {"what": f"raises {type(e).__name__}: {str(e)[:150]}", "n_m_p": [n, m, p]}
        if tuple(out.shape) != tuple(ref.shape):
            return {"what": "output shape differs", "got": list(out.shape), "want": list(ref.shape), "n_m_p": [n, m, p]}
        if not torch.allclose(out.double(), ref, rtol=1e-4, atol=1e-4 * ref.abs().max().item()):
            return {"what": "values differ from the product of the dequantized operands", "max_abs_diff": (out.double() - ref).abs().max().item(),
                    "ref_max": ref.abs().max().item(), "n_m_p": [n, m, p]}
    return None


def build(run):
    from props import conformance

    conformance.run_conformance(run, ['ops', 'symmetric'])
    run.assume("A-ENGINE", "A-PY", "A-REAL (contractions are exact real sums; float accumulation error is not bounded)",
               "A-TORCH-RED matmul / _int_mm / _weight_int8pack_mm satisfy their mathematical specification; int32 accumulation does not overflow",
               "A-TORCH-DISPATCH F.linear with a QTensor argument reaches QTensor.__torch_function__; torch.ops.quanto.qbytes_mm picks the kernel registered for the device key",
               "finite-sum linearity (lemmas/Arith.lean sum_linear)", "PackedTensor contract (C04)")
    run.assumptions += ["dimensions >= 1 (rows, features, batch dims symbolic and unbounded)", "CUDA / MPS routes are verified as text under the same operator contracts (no GPU)",
                        "the finiteness clause is decided structurally: products of raw codes are accumulated in a 32-bit dtype whenever the output dtype is narrower"]
    run.not_decided += ["float accumulation error of matmul", "finiteness for float activations x quantized weights as a numeric bound", "AWQ gemm route (CUDA only)"]
    E0 = run.engine()
    for key in (f"{QMM}::qbytes_mm", f"{QMM}::qbytes_int_mm", f"{QMM}::qbytes_int8pack_mm", f"{QMM}::qbytes_mm_impl_default", f"{QMM}::qbytes_mm_impl_cuda",
                f"{QMM}::qbytes_mm_impl_cpu", f"{QMM}::qbytes_mm_impl_mps", f"{OC.QFUNC}::QTensorLinear.forward", f"{OC.QFUNC}::linear",
                f"{OC.QOPS}::mm", f"{OC.QOPS}::bmm", f"{OC.QTENSOR}::QTensor.__torch_function__"):
        run.under_contract(E0, key)
    lib.lean_lemmas(run, ["sum_linear", "flat_div", "flat_mod"])
    for part in (run_linear, aten_mm):
        try:
            part(run)
        except Unsupported as u:
            run.undecide("C07/part", f"unsupported: {u}")


# ------------------------------------------------------------------------------------------------ native replay
def replay(model, seed, inst, clauses=("raise", "shape", "finite", "values")):
    """Native oracle; `clauses` selects what is compared so that a failure is attributed to the clause whose obligation was refuted."""
    import torch
    from optimum.quanto import absmax_scale, qtypes, quantize_activation, quantize_weight

    torch.manual_seed(seed)
    dt = {"float32": torch.float32, "float16": torch.float16, "bfloat16": torch.bfloat16}[inst["dtype"]]
    wq = {"qint8-axis0": "qint8", "qint8-per-tensor": "qint8", "qfloat8-axis0": "qfloat8_e4m3fn", "qint4-axis0": "qint4", "qint2-axis0": "qint2",
          "qfloat8_e5m2-axis0": "qfloat8_e5m2"}[inst["weight"]]
    # (bfloat16 x int8 goes through torch._weight_int8pack_mm, which crashes in this torch build unless K % 16 == 0)
    for (rows, K, N) in ((3, 16, 8), (24, 32, 16), (17, 20, 5) if dt != torch.bfloat16 else (17, 48, 5), (32, 64, 8), (4, 512, 8)):
        for mag in (1.0, 4.0, -1.0):
            w = torch.randn(N, K).to(dt)
            if mag < 0:
                # one-signed weights and activations: large un-scaled partial sums with a small, representable reference
                mag = 1.0
                w = (torch.rand(N, K) * 0.5 + 1.0).to(dt)
            bshape = {0: [], 1: [rows], 2: [2, rows], 3: [2, 2, rows]}[inst["batch_rank"]]
            x = (torch.rand(bshape + [K]) * mag + (mag if mag > 1 else 0)).to(dt)
            qw = quantize_weight(w, qtypes[wq], 0)
            if inst["weight"] == "qint8-per-tensor":
                qw = quantize_activation(w, qtypes["qint8"], absmax_scale(w, qtypes["qint8"]))
            b = torch.randn(N).to(dt) if inst["bias"] else None
            if inst["activation"] == "float":
                qx, xd = x, x
            elif inst["activation"] == "qint4":
                qx = quantize_weight(x.reshape(-1, K), qtypes["qint4"], 0)
                xd = qx.dequantize()
            else:
                aq = qtypes[{"qint8": "qint8", "qfloat8": "qfloat8_e4m3fn", "qfloat8_e5m2": "qfloat8_e5m2"}[inst["activation"]]]
                qx = quantize_activation(x, aq, absmax_scale(x, aq))
                xd = qx.dequantize()
            try:
                out = torch.nn.functional.linear(qx, qw, b)
            except Exception as e:
                if "raise" in clauses:
                    return {"what": f"raises {type(e).__name__}: {str(e)[:150]}", "shape": [rows, K, N]}
                continue
            ref = torch.nn.functional.linear(xd.double(), qw.dequantize().double(), None if b is None else b.double())
            if "shape" not in clauses:
                pass
            elif tuple(out.shape) != tuple(ref.shape):
                return {"what": "output shape differs", "got": list(out.shape), "want": list(ref.shape), "rows_K_N": [rows, K, N]}
            if "shape" in clauses and out.dtype != dt:
                return {"what": "output dtype differs", "got": str(out.dtype)}
            if tuple(out.shape) != tuple(ref.shape):
                continue
            representable = ref.abs().max() < torch.finfo(dt).max / 2
            if "finite" in clauses and representable and not torch.isfinite(out).all():
                return {"what": "non-finite output although the reference is representable", "rows_K_N": [rows, K, N], "ref_max": ref.abs().max().item()}
            tol = {torch.float32: 1e-4, torch.float16: 2e-2, torch.bfloat16: 1e-1}[dt]
            subnormal_scale = False
            if hasattr(qx, "_scale") and hasattr(qw, "_scale") and inst["activation"] != "qint4":
                comb = (qx._scale * qw._scale)
                subnormal_scale = bool((comb.abs() < torch.finfo(dt).tiny).any())   # the known finding D33 explains any difference here
            if "precision" in clauses and not subnormal_scale and torch.isfinite(out).all() and inst["activation"] == "float":
                # exact-arithmetic oracle at the accuracy of the output dtype: one-signed operands, tolerance 4 eps of the dtype
                if not torch.allclose(out.double(), ref, rtol=4 * torch.finfo(dt).eps, atol=4 * torch.finfo(dt).eps * ref.abs().max().item()):
                    return {"what": "result is less accurate than the output dtype allows (an intermediate was rounded to a coarser type)",
                            "max_rel_err": ((out.double() - ref).abs().max() / ref.abs().max()).item(), "dtype_eps": torch.finfo(dt).eps, "rows_K_N": [rows, K, N]}
            if "values" in clauses and not subnormal_scale and torch.isfinite(out).all() and not torch.allclose(out.double(), ref, rtol=tol, atol=tol * ref.abs().max().item()):
                return {"what": "values differ from the product of the dequantized operands", "max_abs_diff": (out.double() - ref).abs().max().item(), "rows_K_N": [rows, K, N]}
    return None


def replay_file(path):
    import json
    rec = json.load(open(path))
    fn = replay_mm if "entry" in rec["instance"] else (replay_scale if rec["instance"].get("lemma") == "combined scale" else replay)
    r = fn(rec.get("model") or {}, rec.get("seed", 0), rec["instance"])
    print(json.dumps(r, indent=1, default=str))
    return 1 if r else 0
