"""C05 - operations on quantized tensors equal the same operations on dequantized values (DESIGN 6.5)."""
import z3

from props import ops_common as OC
from qvc import lib
from qvc.lib import zi
from qvc.sym import Unsupported
from qvc.tm_tensor import is_wrapper
from qvc.values import STensor

# ops whose float result is a NEW tensor (no storage shared with the operands): writing into the result must not change an operand
FRESH_OPS = {"neg", "relu", "mul", "div", "cat", "stack", "clone", "add", "abs", "sub", "_softmax", "where"}
DOCUMENTED_REFUSALS = {("where-quantized-condition", "NotImplementedError"), ("qbits-dtype-change", "ValueError")}


def scale_positive_facts(E, h):
    out = []
    for q in h.quantized:
        sc = q.fields["_scale"]
        ids, inb = lib.idx_vars(f"sp{q.oid}_", sc.shape)
        # quantified over every scale element
        body = sc.elem(ids) > 0
        out.append(z3.ForAll(ids, z3.Implies(z3.And(*inb), body)) if ids else body)
    return out


def handler(run):
    def f(E, cs, inst, tag, r, h, args, kwargs, ref, res):
        rp = lambda m, s, c=cs["name"], i=dict(inst): replay(m, s, c, i)
        if ref[0] == "raises":
            # the float program itself is invalid for these arguments: nothing is claimed
            return
        if res[0] == "raises":
            t = res[1].tname
            if (cs["name"], t) in DOCUMENTED_REFUSALS:
                return
            run.add(f"C05/does-not-raise[{tag}]:{t}", r.hyps, z3.BoolVal(False), "property", inst, {"raises": repr(res[1])[:200]}, replay=rp)
            return
        if cs["pos"] == "not-int8-min":
            # carve: codes other than the most negative int8 value (whose negation wraps) must satisfy the relation
            pf = []
            if inst["qtype"] == "qint8":
                for q in h.quantized:
                    d = q.fields["_data"]
                    ids, inb = lib.idx_vars(f"nm{q.oid}_", d.shape)
                    pf.append(z3.ForAll(ids, z3.Implies(z3.And(*inb), d.elem(ids) != -128)))
            OC.compare(run, E, r, "C05/codes-above-int8-min", tag, inst, res[1], ref[1], cs["rel"], rp, hyps_extra=pf, dq=h.res_deq)
            if inst["qtype"] == "qint8":
                OC.compare(run, E, r, "C05/any-code", tag, inst, res[1], ref[1], cs["rel"], rp, dq=h.res_deq)
        elif cs["pos"]:
            pf = scale_positive_facts(E, h)
            OC.compare(run, E, r, "C05/positive-scales", tag, inst, res[1], ref[1], cs["rel"], rp, hyps_extra=pf, dq=h.res_deq)
        else:
            OC.compare(run, E, r, "C05", tag, inst, res[1], ref[1], cs["rel"], rp, dq=h.res_deq)
        outs = res[1] if isinstance(res[1], (list, tuple)) else [res[1]]
        if cs["op"] in FRESH_OPS:
            # frame: the result of an op that returns a new tensor in the float program shares no storage with the operands
            # (copy_ writes the codes and the scale of its destination in place: sharing either lets `op(q).copy_(p)` change q)
            for k, o in enumerate(outs):
                if not is_wrapper(o):
                    continue
                shared = sorted({f"result.{fo} is operand.{fi}" for fo in ("_data", "_scale") for qi in h.quantized for fi in ("_data", "_scale")
                                 if isinstance(o.fields.get(fo), STensor) and isinstance(qi.fields.get(fi), STensor) and o.fields[fo].root() is qi.fields[fi].root()})
                run.add(f"C05/fresh-result-owns-its-storage[{tag}]/out{k}", r.hyps, z3.BoolVal(not shared), "property", inst, {"shared": shared},
                        replay=lambda m, sd, c=cs["name"], i=dict(inst): replay_alias(m, sd, c, i))
        # the ops that work on the codes (relu, lt) need positive scales: "all scales are positive" must be preserved by every op
        pf = scale_positive_facts(E, h)
        cpos = z3.Real("c") > 0
        for k, o in enumerate(outs):
            if is_wrapper(o) and isinstance(o.fields.get("_scale"), STensor):
                sc = o.fields["_scale"]
                ids, inb = lib.idx_vars("so", sc.shape)
                g = sc.elem(ids) > 0
                facts = E.drain()
                uses_c = "symbolic-scalar" in cs["name"] or "0dim-tensor" in cs["name"]
                if "0dim-tensor" in cs["name"]:
                    p0 = [a for a in args if isinstance(a, STensor) and not a.shape]
                    cpos = (p0[0].elem([]) > 0) if p0 else cpos
                if uses_c:
                    run.add(f"C05/scales-stay-positive[{tag}]/out{k}", r.hyps + inb + pf + facts + [cpos], g, "property", inst, replay=rp)
                    run.add(f"C05/scales-stay-positive-negative-scalar[{tag}]/out{k}", r.hyps + inb + pf + facts + [z3.Not(cpos)], g, "property", inst,
                            replay=lambda m, s, c=cs["name"], i=dict(inst): replay(m, s, c, i, negative=True))
                else:
                    run.add(f"C05/scales-stay-positive[{tag}]/out{k}", r.hyps + inb + pf + facts, g, "property", inst, replay=rp)
        for o in r.obligations:
            if o.kind in ("torch-pre", "callee-pre", "assert"):
                run.add(f"C05/no-runtime-error[{tag}]/{o.name}@{o.loc}", o.hyps, o.goal, "property", inst, replay=rp)
    return f


def fallback_contract(run):
    """qfallback(callable, *args, **kwargs) == callable(*deq(args), **deq(kwargs)); __torch_function__ / __torch_dispatch__
    use the table entry if present, else qfallback / the original function."""
    E = OC.engine(run)
    qf = E.get(f"{OC.QTENSOR}::qfallback")
    from qvc.values import Builtin

    seen = {}

    def generic(E2, *a, **k):
        return ("CALLED", a, k)

    def setup(E2):
        h = OC.H(E2, "qint8", None)
        ds = h.dims(2)
        q1, q2, p = h.q(ds), h.q(ds), h.plain(ds)
        return [Builtin("generic", generic), q1, [q2, p], 3], {"kw": q1}

    res = E.explore(qf, setup, name="C05.qfallback")
    run.absorb(E)
    for pi, r in enumerate(res):
        inst = {"lemma": "qfallback contract"}
        if r.outcome != "return":
            run.add(f"C05/qfallback-no-exception/path{pi}", r.hyps, z3.BoolVal(False), "property", inst)
            continue
        v = r.value
        ok = isinstance(v, tuple) and v[0] == "CALLED" and len(v[1]) == 3 and isinstance(v[1][0], STensor) and isinstance(v[1][1], list) \
            and isinstance(v[1][1][0], STensor) and v[1][1][1].name.startswith("P") and v[1][2] == 3 and isinstance(v[2].get("kw"), STensor)
        run.add(f"C05/qfallback-calls-the-op-on-dequantized-args/path{pi}", r.hyps, z3.BoolVal(bool(ok)), "property", inst)


# ------------------------------------------------------------------------------------------------ re-quantizing ops
def absr(t):
    return z3.If(t >= 0, t, -t)


QMAX = {"qint8": 127, "qfloat8_e4m3fn": 448}


def requant_ops(run, on_result=None, prefix="C05"):
    """_softmax and where re-quantize their float result: deq(result) is within one step of the output scale of the float result
    (for float8: it is the point of the scaled float8 grid nearest to it)."""
    from qvc.tm_tensor import call_aten, new_input
    from qvc.values import AtenOp, Builtin
    from qvc.interp import RaiseEx

    for opname in ("_softmax", "where-q-plain", "where-q-scalar", "where-q-q", "where-plain-q"):
        for qname in ("qint8", "qfloat8_e4m3fn"):
            for axis in (None, 0, -1):
                inst = {"op": opname.split("-")[0], "case": opname, "qtype": qname, "axis": axis}
                run.count_instance(op=opname, qtype=qname, axis=axis, case="requant")
                E = OC.engine(run)
                d0, d1 = z3.Ints("d0 d1")
                csc = z3.Real("other_scalar")

                def prog(E2, opname=opname, qname=qname, axis=axis):
                    E2.assume(d0 >= 1)
                    E2.assume(d1 >= 1)
                    h = OC.H(E2, qname, axis)
                    x = h.q([d0, d1], name="X")
                    xd = OC.deq(E2, x)
                    E2.ps["ufun_outs"] = []
                    cond = other = None
                    try:
                        if opname == "_softmax":
                            res = call_aten(E2, AtenOp("_softmax"), [x, -1, False], {})
                        else:
                            cond = new_input(E2, "C", "bool", [d0, d1])
                            if opname == "where-q-plain":
                                other = h.plain([d0, d1], name="O")
                                a = [cond, x, other]
                            elif opname == "where-q-scalar":
                                other = csc
                                a = [cond, x, other]
                            elif opname == "where-q-q":
                                other = h.q([d0, d1], name="O")
                                a = [cond, x, other]
                            else:
                                other = h.plain([d0, d1], name="O")
                                a = [cond, other, x]
                            res = call_aten(E2, AtenOp("where"), a, {})
                    except RaiseEx as e:
                        return ("raises", e.exc, None, None, None, None, None, None)
                    outs = list(E2.ps.get("ufun_outs", []))
                    rd = OC.deq(E2, res)
                    return ("value", res, rd, x, xd, cond, other, outs, h)

                tag = f"{opname}/{qname}/axis{axis}"
                try:
                    rs = E.explore(Builtin("requant", prog), lambda E2: ([], {}), name="C05.requant")
                except Unsupported as u:
                    run.undecide(f"{prefix}/requant[{tag}]", u, inst)
                    continue
                run.absorb(E)
                if not run.expect_paths(rs, f"{prefix}/requant[{tag}]", inst):
                    continue
                rp = lambda m, sd, i=dict(inst): replay_requant(m, sd, i)
                for pi, r in enumerate(rs):
                    if r.outcome != "return":
                        run.add(f"{prefix}/requant/case-harness[{tag}]/path{pi}", r.hyps, z3.BoolVal(False), "side", inst, {"outcome": repr(r.value)[:200]})
                        continue
                    E.focus(r)
                    if r.value[0] == "raises":
                        if on_result is not None:
                            continue
                        run.add(f"C05/requant/does-not-raise[{tag}]/path{pi}:{r.value[1].tname}", r.hyps, z3.BoolVal(False), "property", inst,
                                {"raises": repr(r.value[1])[:200]}, replay=rp)
                        continue
                    _, res, rd, x, xd, cond, other, outs, h = r.value
                    if on_result is not None:
                        on_result(E, r, f"{tag}/path{pi}", inst, res, rd, rp)
                        continue
                    for o in r.obligations:
                        if o.kind in ("torch-pre", "callee-pre", "assert"):
                            run.add(f"C05/requant/no-runtime-error[{tag}]/path{pi}/{o.name}@{o.loc}", o.hyps, o.goal, "property", inst,
                                    replay=lambda m, sd, i_=dict(inst): replay_requant(m, sd, i_, "shape"))
                    if not isinstance(rd, STensor):
                        run.add(f"C05/requant/returns-a-tensor[{tag}]/path{pi}", r.hyps, z3.BoolVal(False), "property", inst, replay=rp)
                        continue
                    run.add(f"C05/requant/shape[{tag}]/path{pi}", r.hyps, lib.shape_eq(rd.shape, [d0, d1]), "property", inst, replay=lambda m, sd, i=dict(inst): replay_requant(m, sd, i, "shape"))
                    if len(rd.shape) != 2:
                        continue
                    ids, inb = lib.idx_vars("i", [d0, d1])
                    pf = scale_positive_facts(E, h)
                    E.drain()
                    # ---- the reference value u at the symbolic index
                    if opname == "_softmax":
                        sm = [(rec, o) for rec, o in outs if rec[1] == "_softmax"]
                        ok = len(sm) == 1 and sm[0][1].rank == 2 and sm[0][0][2][1] in (-1, 1) and sm[0][0][2][2] is False and isinstance(sm[0][0][2][0], STensor)
                        run.add(f"C05/requant/one-softmax-over-the-same-dim[{tag}]/path{pi}", r.hyps, z3.BoolVal(bool(ok)), "property", inst, replay=rp)
                        if not ok:
                            continue
                        arg = sm[0][0][2][0]
                        run.add(f"C05/requant/softmax-argument-shape[{tag}]/path{pi}", r.hyps, lib.shape_eq(arg.shape, [d0, d1]), "property", inst, replay=rp)
                        a_, b_ = arg.elem(ids), xd.elem(ids)
                        f0 = E.drain()
                        run.add(f"C05/requant/softmax-of-the-dequantized-input[{tag}]/path{pi}", r.hyps + inb + f0, a_ == b_, "property", inst, replay=rp)
                        u = sm[0][1].elem(ids)
                    else:
                        c = cond.elem(ids)
                        xv = xd.elem(ids)
                        if opname == "where-plain-q":
                            ov = other.elem(ids)
                            u = z3.If(c, ov, xv)
                        else:
                            ov = other if not isinstance(other, STensor) and not is_wrapper(other) else (OC.deq(E, other).elem(ids) if is_wrapper(other) else other.elem(ids))
                            u = z3.If(c, xv, ov)
                    got = rd.elem(ids)
                    facts = E.drain() + list(E.ps.get("lazy_facts", []))
                    hy = r.hyps + inb + facts + pf
                    if not is_wrapper(res):
                        # not re-quantized (per-axis where): the float result itself
                        run.add(f"C05/requant/equal[{tag}]/path{pi}", hy, got == u, "property", inst, replay=rp, timeout=30)
                        continue
                    sc = res.fields["_scale"]
                    sids = [z3.IntVal(0)] * len(sc.shape) if len(sc.shape) != 2 else [ids[k] if True else 0 for k in range(2)]
                    if len(sc.shape) == 2:
                        # keep-dim scale: index 0 along broadcast dims
                        from qvc.sym import concrete_int, is_sym
                        sids = [z3.IntVal(0) if (not is_sym(sc.shape[k]) and sc.shape[k] == 1) else ids[k] for k in range(2)]
                    s = sc.elem(sids)
                    facts2 = E.drain()
                    hy = hy + facts2
                    qmax = QMAX[qname]
                    run.add(f"C05/requant/output-scale-positive[{tag}]/path{pi}", hy, s > 0, "property", inst, replay=None)
                    if qname == "qint8":
                        rel_in = rel_out = absr(got - u) <= s
                    else:
                        # float8 codes: cast = round-to-nearest-even onto the grid (A-TORCH-EW, same axioms as C01)
                        G = z3.Function(f"grid_{qname}", z3.RealSort(), z3.BoolSort())
                        rne = z3.Function("rne_float8_e4m3fn", z3.RealSort(), z3.RealSort())
                        v = z3.Real("v")
                        y = z3.Real("y_quot")
                        cl = z3.If(y < -qmax, z3.RealVal(-qmax), z3.If(y > qmax, z3.RealVal(qmax), y))
                        ax = [y * s == u, G(v), v <= qmax, v >= -qmax, absr(rne(cl) - cl) <= absr(v - cl), rne(cl) <= qmax, rne(cl) >= -qmax]
                        # the payload of the quantized input holds float8 values: grid points, which the cast maps to themselves
                        dcode = x.fields["_data"].elem(ids)
                        ax += [rne(dcode) == dcode, dcode <= qmax, dcode >= -qmax] + E.drain()
                        hy = hy + ax
                        rel_in = absr(got - u) <= absr(s * v - u)
                        rel_out = absr(got - u) <= 32 * s   # the widest step of the e4m3 grid
                    in_range = z3.And(u <= qmax * s, u >= -qmax * s)
                    if opname == "_softmax":
                        run.add(f"C05/requant/within-one-output-step[{tag}]/path{pi}", hy, rel_in, "property", inst, replay=rp, timeout=40)
                    else:
                        run.add(f"C05/requant/where/taken-from-the-quantized-input-is-exact[{tag}]/path{pi}", hy + [c], got == u, "property", inst, replay=lambda m, sd, i_=dict(inst): replay_requant(m, sd, i_, "taken"), timeout=40)
                        run.add(f"C05/requant/where/other-inside-the-input-range-within-one-step[{tag}]/path{pi}", hy + [z3.Not(c), in_range], rel_in, "property", inst, replay=lambda m, sd, i_=dict(inst): replay_requant(m, sd, i_, "inside"), timeout=40)
                        run.add(f"C05/requant/where/other-outside-the-input-range-within-one-step[{tag}]/path{pi}", hy + [z3.Not(c), z3.Not(in_range)], rel_out, "property", inst, replay=lambda m, sd, i_=dict(inst): replay_requant(m, sd, i_, "outside"), timeout=40)


def replay_requant(model, seed, inst, clause="all"):
    """clause: 'all', 'shape', 'taken' (elements selected from the quantized input), 'inside' / 'outside' (elements selected from `other`
    inside / outside the representable range of the input's scale)."""
    import torch
    from optimum.quanto import qtypes

    torch.manual_seed(seed)
    Q = native_cases()
    qt = qtypes[inst["qtype"]]
    axis = inst["axis"]
    x = torch.randn(3, 4)
    qx = Q(x, qt, axis)
    cond = torch.tensor([[True, False, True, False]] * 3)
    big = torch.full((3, 4), 100.0 if clause in ("all", "outside") else 0.01)
    case = inst["case"]
    progs = {
        "_softmax": lambda: (torch.softmax(qx, -1), torch.softmax(qx.dequantize(), -1)),
        "where-q-plain": lambda: (torch.where(cond, qx, big), torch.where(cond, qx.dequantize(), big)),
        "where-q-scalar": lambda: (torch.where(cond, qx, big[0, 0].item()), torch.where(cond, qx.dequantize(), big[0, 0].item())),
        "where-q-q": lambda: (torch.where(cond, qx, Q(big + x, qt, axis)), torch.where(cond, qx.dequantize(), Q(big + x, qt, axis).dequantize())),
        "where-plain-q": lambda: (torch.where(cond, big, qx), torch.where(cond, big, qx.dequantize())),
    }
    try:
        got, want = progs[case]()
    except Exception as e:
        return {"case": case, "qtype": inst["qtype"], "axis": axis, "what": f"raises {type(e).__name__}: {str(e)[:160]}"}
    gd = got.dequantize() if hasattr(got, "dequantize") else got
    if tuple(gd.shape) != tuple(want.shape):
        return {"case": case, "what": "shape differs"}
    if clause == "shape":
        return None
    step = got._scale.max().item() if hasattr(got, "_scale") else 1e-6
    rel = 2.0 ** -3 if inst["qtype"] != "qint8" else 0.0
    bad = (gd - want).abs() > (step + rel * want.abs() + 1e-6)
    if clause == "taken" and case.startswith("where-q"):
        bad = bad & cond
    elif clause in ("inside", "outside") and case.startswith("where-q"):
        bad = bad & ~cond
    if bad.any():
        k = bad.nonzero()[0].tolist()
        return {"case": case, "qtype": inst["qtype"], "axis": axis, "what": "differs from the float result by more than one step of the output scale",
                "index": k, "got": gd[tuple(k)].item(), "want": want[tuple(k)].item(), "output_scale": step}
    return None



def build(run):
    from props import conformance

    conformance.run_conformance(run, ['ops'])
    run.assume("A-ENGINE", "A-PY", "A-REAL (rescaling ops are equal over the reals)", "A-TORCH-EW / A-TORCH-IDX operator contracts (also used for the reference)",
               "A-TORCH-DISPATCH an aten op with a tensor-subclass argument reaches that class's __torch_dispatch__ with op.overloadpacket naming the op",
               "A-TORCH-CAP ops unavailable for float8 payloads (probed on the real library at check time)")
    run.assumptions += ["programs of depth 1..8: each op maps invariant-satisfying tensors to invariant-satisfying tensors (C06) and satisfies its relation; "
                        "relations compose (lemmas/Arith.lean inv_reach); that PyTorch routes composite python-level calls to these aten ops is assumed",
                        "dimensions >= 1; rank-2 operands (rank 1 for t()), argument patterns of the case table"]
    run.not_decided += ["mm / bmm / linear: decided in C07 (aten.mm / aten.bmm / functional linear)",
                        "routing of python-level torch.* calls to aten ops (PyTorch dispatcher)"]
    E0 = run.engine()
    E0.load_module(OC.QOPS)
    import ast
    mod = E0.load_module(OC.QOPS)
    for st in mod.tree.body:
        if isinstance(st, ast.FunctionDef):
            run.under_contract(E0, f"{OC.QOPS}::{st.name}")
    for key in (f"{OC.QTENSOR}::qfallback", f"{OC.QTENSOR}::QTensor.__torch_function__", f"{OC.QBYTES}::QBytesTensor.__torch_dispatch__",
                f"{OC.QBITS}::QBitsTensor.__torch_dispatch__", f"{OC.QBOPS}::_to_copy", f"{OC.QBOPS}::detach"):
        run.under_contract(E0, key)
    lib.lean_lemmas(run, ["inv_reach"])
    for part in (fallback_contract, requant_ops, view_write_programs, lambda r: OC.explore_cases(r, handler(r), "C05", r.tier)):
        try:
            part(run)
        except Unsupported as u:
            run.undecide("C05/part", f"unsupported: {u}")


# ------------------------------------------------------------------------------------------------ native replay
def native_cases():
    import torch
    from optimum.quanto import absmax_scale, qfloat8_e4m3fn, qint8, quantize_activation
    from optimum.quanto.tensor.quantizers import SymmetricQuantizer

    def Q(x, qt, axis=None, neg=False):
        sc = absmax_scale(x, qt, axis)
        q = SymmetricQuantizer.apply(x, qt, axis, sc) if axis is not None else quantize_activation(x, qt, sc)
        return q

    return Q


def replay(model, seed, case, inst, negative=False):
    """Run the same op on real quantized tensors and on their dequantized values.  negative=True: the two-step witnesses of the
    negative-scale finding (an op on the codes after a multiplication by a negative scalar)."""
    import torch
    from optimum.quanto import qtypes

    torch.manual_seed(seed)
    Q = native_cases()
    qt = qtypes[inst["qtype"]]
    axis = inst["axis"]
    x, y, z = torch.randn(3, 4), torch.randn(3, 4) * 3, torch.randn(3, 4)
    qa, qb, qc = Q(x, qt, axis), Q(y, qt, axis), Q(z, qt, axis)
    qsame = Q(x.flip(0), qt, axis)
    qsame._scale = qa._scale
    # same codes as qa under a scale a few ppm larger: strictly greater wherever the code is positive
    qnear = Q(x, qt, axis)
    qnear._scale = qa._scale * 1.000002
    op = inst["op"]
    x3 = torch.randn(2, 3, 4)
    q3 = Q(x3, qt, axis)
    progs = {
        "transpose-3d-01": lambda: (q3.transpose(0, 1), q3.dequantize().transpose(0, 1)), "transpose-3d-12": lambda: (q3.transpose(1, 2), q3.dequantize().transpose(1, 2)),
        "transpose-3d-neg": lambda: (q3.transpose(-1, -2), q3.dequantize().transpose(-1, -2)),
        "transpose-3d-negfirst": lambda: (q3.transpose(-3, 1), q3.dequantize().transpose(-3, 1)), "permute-3d": lambda: (q3.permute(1, 0, 2), q3.dequantize().permute(1, 0, 2)),
        "cat-three": lambda: (torch.cat([qa, qb, qc]), torch.cat([qa.dequantize(), qb.dequantize(), qc.dequantize()])),
        "stack-three": lambda: (torch.stack([qa, qb, qc]), torch.stack([qa.dequantize(), qb.dequantize(), qc.dequantize()])),
        "stack-any-scales": lambda: (torch.stack([qa, qb]), torch.stack([qa.dequantize(), qb.dequantize()])),
        "copy_-plain-from-q": lambda: (torch.zeros(3, 4).copy_(qa), torch.zeros(3, 4).copy_(qa.dequantize())),
        "div-plain-by-q": lambda: (torch.div(y, qa), torch.div(y, qa.dequantize())),
        "lt-same-scale": lambda: (torch.lt(qa, qsame), torch.lt(qa.dequantize(), qsame.dequantize())),
        "lt-any-scales": lambda: ([torch.lt(qa, qb), torch.lt(qa, qnear)], [torch.lt(qa.dequantize(), qb.dequantize()), torch.lt(qa.dequantize(), qnear.dequantize())]),
        "relu": lambda: (torch.relu(qa), torch.relu(qa.dequantize())),
        "t-1d": lambda: (Q(x[0], qt).t(), Q(x[0], qt).dequantize().t()),
        "mul-q-1elem-tensor": lambda: (qa * torch.full((1, 1, 1), 0.5), qa.dequantize() * torch.full((1, 1, 1), 0.5)),
        "split-size": lambda: (torch.split(qa, 2), torch.split(qa.dequantize(), 2)),
        "neg": lambda: (torch.relu(-qa), torch.relu(-(qa.dequantize()))),
    }
    if negative:
        progs = {case: lambda: (torch.relu(qa * -2.0), torch.relu(qa.dequantize() * -2.0))}
    f = progs.get(case)
    if f is None:
        return None
    try:
        got, want = f()
    except Exception as e:
        return {"case": case, "qtype": inst["qtype"], "axis": axis, "what": f"raises {type(e).__name__}: {str(e)[:160]}"}
    gl = list(got) if isinstance(got, (tuple, list)) else [got]
    wl = list(want) if isinstance(want, (tuple, list)) else [want]
    for g, w in zip(gl, wl):
        gd = g.dequantize() if hasattr(g, "dequantize") else g
        if tuple(g.shape) != tuple(w.shape) or tuple(gd.shape) != tuple(w.shape):
            return {"case": case, "qtype": inst["qtype"], "axis": axis, "what": "shape differs", "got": list(g.shape), "deq": list(gd.shape), "want": list(w.shape)}
        if gd.dtype == torch.bool:
            if not torch.equal(gd, w):
                return {"case": case, "qtype": inst["qtype"], "axis": axis, "what": "boolean result differs"}
        elif not torch.allclose(gd.float(), w.float(), atol=1e-5, rtol=1e-4):
            return {"case": case, "qtype": inst["qtype"], "axis": axis, "what": "values differ", "max_abs_diff": (gd.float() - w.float()).abs().max().item()}
    return None


def view_write_programs(run):
    """Depth-2 programs that write through a view: v = q[0:1]; v.copy_(p).  In the float program rows 1.. of q keep their values and
    row 0 takes p's; the quantized program must agree after dequantization."""
    from qvc.tm_tensor import call_aten
    from qvc.values import AtenOp, Builtin
    from qvc.interp import RaiseEx

    for qname in ("qint8", "qfloat8_e4m3fn"):
        for axis in (None,):   # (views of per-axis tensors are dequantized copies; copy_ into them is the known copy_-into-plain finding)
            for same_scale in (True, False):
                inst = {"op": "slice;copy_", "case": "copy_-into-slice", "qtype": qname, "axis": axis, "same_scale": same_scale}
                run.count_instance(op="slice;copy_", qtype=qname, axis=axis, case=f"copy_-into-slice/{same_scale}")
                E = OC.engine(run)
                d0, d1 = z3.Ints("d0 d1")

                def prog(E2, qname=qname, axis=axis, same_scale=same_scale):
                    E2.assume(d0 >= 2)
                    E2.assume(d1 >= 1)
                    h = OC.H(E2, qname, axis)
                    x = h.q([d0, d1], name="X")
                    xd = OC.deq(E2, x)
                    try:
                        v = call_aten(E2, AtenOp("slice"), [x, 0, 0, 1], {})
                        if same_scale:
                            p = h.q([1, d1], name="P", scale=v.fields["_scale"])
                        else:
                            p = h.q([1, d1], name="P")
                        pd = OC.deq(E2, p)
                        call_aten(E2, AtenOp("copy_"), [v, p], {})
                        xd2 = OC.deq(E2, x)
                    except RaiseEx as e:
                        return ("raises", e.exc)
                    return ("value", xd, pd, xd2)

                tag = f"{qname}/axis{axis}/{'same' if same_scale else 'other'}-scale"
                try:
                    rs = E.explore(Builtin("viewwrite", prog), lambda E2: ([], {}), name="C05.viewwrite")
                except Unsupported as u:
                    run.undecide(f"C05/view-write[{tag}]", u, inst)
                    continue
                run.absorb(E)
                if not run.expect_paths(rs, f"C05/view-write[{tag}]", inst):
                    continue
                rp = lambda m, sd, i=dict(inst): replay_view_write(m, sd, i)
                for pi, r in enumerate(rs):
                    if r.outcome != "return":
                        run.add(f"C05/view-write/case-harness[{tag}]/path{pi}", r.hyps, z3.BoolVal(False), "side", inst, {"outcome": repr(r.value)[:200]})
                        continue
                    E.focus(r)
                    if r.value[0] == "raises":
                        run.add(f"C05/view-write/does-not-raise[{tag}]/path{pi}:{r.value[1].tname}", r.hyps, z3.BoolVal(False), "property", inst, replay=rp)
                        continue
                    _, xd, pd, xd2 = r.value
                    i, j = z3.Ints("i j")
                    E.drain()
                    a, b, c = xd.elem([i, j]), pd.elem([0, j]), xd2.elem([i, j])
                    facts = E.drain() + list(E.ps.get("lazy_facts", []))
                    hy = r.hyps + [i >= 0, i < d0, j >= 0, j < d1] + facts
                    kind = "same-scale" if same_scale else "other-scale"
                    run.add(f"C05/view-write/{kind}/written-row-takes-the-source[{tag}]/path{pi}", hy + [i == 0], c == b, "property", inst, timeout=30,
                            replay=lambda m, sd, i_=dict(inst): replay_view_write(m, sd, i_, "written"))
                    run.add(f"C05/view-write/{kind}/other-rows-keep-their-values[{tag}]/path{pi}", hy + [i > 0], c == a, "property", inst, timeout=30,
                            replay=lambda m, sd, i_=dict(inst): replay_view_write(m, sd, i_, "others"))


def replay_view_write(model, seed, inst, clause="both"):
    import torch
    from optimum.quanto import qtypes

    torch.manual_seed(seed)
    Q = native_cases()
    qt, axis = qtypes[inst["qtype"]], inst["axis"]
    x = torch.randn(3, 4)
    qx = Q(x, qt, axis)
    before = qx.dequantize().clone()
    v = qx[0:1]
    p = Q(torch.randn(1, 4) * (1 if inst["same_scale"] else 10), qt, axis)
    if inst["same_scale"]:
        p._scale = v._scale
    try:
        v.copy_(p)
    except Exception as e:
        return {"what": f"raises {type(e).__name__}: {str(e)[:150]}", "qtype": inst["qtype"], "axis": axis}
    after = qx.dequantize()
    want = before.clone()
    want[0:1].copy_(p.dequantize())
    if clause in ("both", "others") and not torch.allclose(after[1:], want[1:], atol=1e-6):
        return {"what": "q[0:1].copy_(p) does not act like the float program: rows other than the written one changed", "max_abs_diff": (after[1:] - want[1:]).abs().max().item(),
                "qtype": inst["qtype"], "axis": axis}
    if clause in ("both", "written") and not torch.allclose(after[:1], want[:1], atol=1e-6):
        return {"what": "the written row differs from the source", "max_abs_diff": (after[:1] - want[:1]).abs().max().item(), "qtype": inst["qtype"], "axis": axis}
    return None


def replay_alias(model, seed, case, inst):
    """r = op(q); r.copy_(p) must leave q unchanged (as it does for float tensors)."""
    import torch
    from optimum.quanto import qtypes

    torch.manual_seed(seed)
    Q = native_cases()
    qt, axis = qtypes[inst["qtype"]], inst["axis"]
    x = torch.randn(3, 4)
    qa = Q(x, qt, axis)
    qsame = Q(x.flip(0), qt, axis)
    qsame._scale = qa._scale
    progs = {"neg": lambda: -qa, "relu": lambda: torch.relu(qa), "mul-scalar-q": lambda: 3.0 * qa, "mul-q-symbolic-scalar": lambda: qa * 0.5, "div-scalar": lambda: qa / 2.0,
             "div-symbolic-scalar": lambda: qa / 0.7, "mul-q-0dim-tensor": lambda: qa * torch.tensor(0.5), "mul-q-1elem-tensor": lambda: qa * torch.full((1, 1, 1), 0.5),
             "cat-same-scale": lambda: torch.cat([qa, qsame]), "stack-same-scale": lambda: torch.stack([qa, qsame]), "clone": lambda: qa.clone()}
    f = progs.get(case)
    if f is None:
        return None
    before = qa.dequantize().clone()
    try:
        r = f()
        if not hasattr(r, "dequantize"):
            return None
        other = Q(torch.randn(*r.shape) * 10, qt, axis if r.ndim == 2 else None)
        if tuple(other._scale.shape) != tuple(r._scale.shape):
            other = Q(torch.randn(*r.shape) * 10, qt, None)
        r.copy_(other)
    except Exception as e:
        return None
    after = qa.dequantize()
    if not torch.equal(before, after):
        return {"case": case, "qtype": inst["qtype"], "axis": axis, "what": "writing into the result of the op (r = op(q); r.copy_(p)) changed the operand q",
                "max_abs_change_of_q": (before - after).abs().max().item()}
    return None


def replay_file(path):
    import json
    rec = json.load(open(path))
    inst = rec["instance"]
    if inst.get("case") == "copy_-into-slice":
        r = replay_view_write(rec.get("model") or {}, rec.get("seed", 0), inst)
    elif "fresh-result-owns-its-storage" in rec.get("obligation", ""):
        r = replay_alias(rec.get("model") or {}, rec.get("seed", 0), inst.get("case"), inst)
    elif str(inst.get("case", "")).startswith(("_softmax", "where-")):
        r = replay_requant(rec.get("model") or {}, rec.get("seed", 0), inst)
    else:
        r = replay(rec.get("model") or {}, rec.get("seed", 0), inst.get("case"), inst)
    print(json.dumps(r, indent=1, default=str))
    return 1 if r else 0
