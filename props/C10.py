"""C10 - state_dict save / load round trips reproduce the quantized model exactly (DESIGN 6.10).

Finite maps with concrete prefixes (plus one string lemma for an arbitrary prefix, discharged by cvc5's string solver), symbolic
tensors and shapes.  A-SER: literal_eval(str(v)) == v; torch.save/load and safetensors preserve tensors and strings.
"""
import z3

from props import inv
from props import ops_common as OC
from qvc import lib
from qvc.interp import RaiseEx
from qvc.lib import idx_vars, zi
from qvc.sym import Unsupported
from qvc.tm_tensor import is_wrapper, new_input
from qvc.torchmodel import SymStr
from qvc.values import Builtin, Obj, STensor, contiguous_strides

QMOD = "optimum/quanto/nn/qmodule.py"
QLIN = "optimum/quanto/nn/qlinear.py"
QLN = "optimum/quanto/nn/qlayernorm.py"
SER = "optimum/quanto/serialization.py"
PACKED = "optimum/quanto/tensor/qbits/packed.py"
PREFIX = "model.layers.0.weight."


def is_plain_tensor(v):
    return isinstance(v, STensor) and not v.attrs.get("is_parameter")


def is_string(v):
    return isinstance(v, (str, SymStr))


def same_tensor(a, b):
    """Bit-identical: the same element function object chain (moves are detach / identity views)."""
    if a is b:
        return z3.BoolVal(True)
    if not (isinstance(a, STensor) and isinstance(b, STensor)) or len(a.shape) != len(b.shape) or a.dtype != b.dtype:
        return z3.BoolVal(False)
    ids, inb = idx_vars("s", a.shape)
    return z3.And(lib.shape_eq(a.shape, b.shape), z3.Implies(z3.And(*inb) if inb else z3.BoolVal(True), a.elem(ids) == b.elem(ids)))


def make_qbits(E, qname, axis, grouped):
    cls = E.get(f"{OC.QBITS}::QBitsTensor")
    qt = E.load_module(OC.QTYPE).env.lookup(qname)
    ds, dpos = lib.dims("d", 2)
    for c in dpos:
        E.assume(c)
    G, ag = z3.Ints("G ag")
    if grouped:
        from contracts import group as CG
        k = axis % 2
        E.assume(G >= 1)
        E.assume(ag >= 1)
        E.assume(ds[1 - k] == G * ag)
        for hh in CG.hints(ds, k, ds[1 - k], G, ag):
            E.assume(hh)
        pshape = [zi(ds[0] * ds[1]) / G, G] if axis == 0 else [G, zi(ds[0] * ds[1]) / G]
    else:
        pshape = list(ds)
    bits = 2 if qname == "qint2" else 4
    data = new_input(E, "C", "uint8", pshape)
    cid, cinb = idx_vars("cq", pshape)
    E.assume(z3.ForAll(cid, z3.Implies(z3.And(*cinb), z3.And(data.elem(cid) >= 0, data.elem(cid) < (1 << bits)))))
    ks = inv.keepdim_shape(pshape, axis)
    return E.call(cls, [qt, axis, G if grouped else None, tuple(ds), contiguous_strides(ds), data, new_input(E, "S", "float16", ks), new_input(E, "Z", "int8", ks)], {})


def tensor_level(run):
    cases = [("qbytes", q, a, False) for q in ("qint8", "qfloat8_e4m3fn", "qfloat8_e5m2") for a in (None, 0, -1)] + \
            [("qbits", q, a, g) for q in ("qint4", "qint2") for a in (0, -1) for g in (False, True)]
    for kind, qname, axis, grouped in cases:
        for keep_vars in (False, True):
            inst = {"level": "tensor", "class": kind, "qtype": qname, "axis": axis, "grouped": grouped, "keep_vars": keep_vars}
            run.count_instance(**{"t_class": kind, "t_qtype": qname, "t_axis": axis, "t_grouped": grouped})
            E = OC.engine(run)

            def prog(E2, kind=kind, qname=qname, axis=axis, grouped=grouped, keep_vars=keep_vars):
                if kind == "qbytes":
                    h = OC.H(E2, qname, axis)
                    q = h.q(h.dims(2))
                    cls = h.cls
                else:
                    q = make_qbits(E2, qname, axis, grouped)
                    cls = E2.get(f"{OC.QBITS}::QBitsTensor")
                other = new_input(E2, "OTHER", "float32", [3])
                dest = {"model.layers.0.bias": other, "model.layers.0.weight_qtype": "qint8", "model.layers.1.weight._data": other}
                E2.call(E2.getattr(q, "save_to_state_dict"), [dest, PREFIX, keep_vars], {})
                saved = dict(dest)
                sd = dict(dest)
                q2 = E2.call(E2.getattr(cls, "load_from_state_dict"), [sd, PREFIX], {})
                dest2 = {}
                E2.call(E2.getattr(q2, "save_to_state_dict"), [dest2, PREFIX, keep_vars], {})
                return q, saved, sd, q2, dest2, OC.deq(E2, q2)

            try:
                res = E.explore(Builtin("c10t", prog), lambda E2: ([], {}), name="C10.tensor")
            except Unsupported as u:
                run.undecide(f"C10/tensor[{kind}/{qname}/{axis}/{grouped}]", u, inst)
                continue
            run.absorb(E)
            tag = f"{kind}/{qname}/axis{axis}/{'grouped' if grouped else 'plain'}/keep_vars={keep_vars}"
            if not run.expect_paths(res, f"C10/tensor[{tag}]", inst):
                continue
            rp = lambda m, s, i=dict(inst): replay_tensor(m, s, i)
            for pi, r in enumerate(res):
                if r.outcome != "return":
                    run.add(f"C10/tensor-round-trip-runs[{tag}]/path{pi}", r.hyps, z3.BoolVal(False), "property", inst, {"outcome": repr(r.value)[:300]}, replay=rp)
                    continue
                E.focus(r)
                q, saved, left, q2, dest2, dq2 = r.value
                added = {k: v for k, v in saved.items() if k.startswith(PREFIX)}
                if kind == "qbytes":
                    want_keys = {PREFIX + n for n in ("_data", "_scale", "qtype", "axis", "size", "stride")}
                else:
                    want_keys = {PREFIX + n for n in ("_data._data", "_data.bits", "_data.size", "_data.stride", "_scale", "_zeropoint", "qtype", "axis", "group_size", "size", "stride")}
                run.add(f"C10/saved-key-set[{tag}]/path{pi}", r.hyps, z3.BoolVal(set(added) == want_keys), "property", inst, {"keys": sorted(added)}, replay=rp)
                run.add(f"C10/only-plain-tensors-and-strings[{tag}]/path{pi}", r.hyps, z3.BoolVal(all(is_plain_tensor(v) or is_string(v) for v in added.values())), "property", inst,
                        {"types": {k: type(v).__name__ for k, v in added.items()}}, replay=rp)
                foreign = {k for k in saved if not k.startswith(PREFIX)}
                run.add(f"C10/load-pops-exactly-its-keys[{tag}]/path{pi}", r.hyps, z3.BoolVal(set(left) == foreign and all(left[k] is saved[k] for k in foreign)), "property", inst,
                        {"left": sorted(left)}, replay=rp)
                same_cls = is_wrapper(q2) and q2.cls is q.cls
                run.add(f"C10/load-rebuilds-the-same-class[{tag}]/path{pi}", r.hyps, z3.BoolVal(bool(same_cls)), "property", inst, replay=rp)
                if not same_cls:
                    continue
                flds = ["_scale"] + (["_zeropoint"] if kind == "qbits" else ["_data"])
                for fld in flds:
                    run.add(f"C10/field-bit-identical:{fld}[{tag}]/path{pi}", r.hyps, same_tensor(q.fields[fld], q2.fields[fld]), "property", inst, replay=rp)
                if kind == "qbits":
                    p1, p2 = q.fields["_data"], q2.fields["_data"]
                    run.add(f"C10/field-bit-identical:packed-payload[{tag}]/path{pi}", r.hyps,
                            z3.And(same_tensor(p1.fields["_data"], p2.fields["_data"]), z3.BoolVal(p1.fields["_bits"] == p2.fields["_bits"]),
                                   lib.shape_eq(list(p1.fields["_w_size"]), list(p2.fields["_w_size"]))), "property", inst, replay=rp)
                    gs_ok = E.eq(q.fields["_group_size"], q2.fields["_group_size"])
                    run.add(f"C10/meta:group_size[{tag}]/path{pi}", r.hyps, gs_ok if not isinstance(gs_ok, bool) else z3.BoolVal(gs_ok), "property", inst, replay=rp)
                run.add(f"C10/meta:qtype-axis-size-stride[{tag}]/path{pi}", r.hyps,
                        z3.And(z3.BoolVal(q2.fields["_qtype"] is q.fields["_qtype"] and q2.fields["_axis"] == q.fields["_axis"]),
                               lib.shape_eq(list(q2.fields["_w_size"]), list(q.fields["_w_size"])), lib.shape_eq(list(q2.fields["_w_stride"]), list(q.fields["_w_stride"]))),
                        "property", inst, replay=rp)
                # invariant of the rebuilt tensor (C06) and saving again gives an equal state_dict
                clauses = inv.inv_qbytes(q2) if kind == "qbytes" else inv.inv_qbits(q2)
                for nme, f in clauses:
                    run.add(f"C10/rebuilt-inv:{nme}[{tag}]/path{pi}", r.hyps, f, "property", inst, replay=rp)
                same_again = set(dest2) == set(added) and all((added[k] is dest2[k]) or (is_string(added[k]) and is_string(dest2[k]) and (
                    added[k] == dest2[k] if isinstance(added[k], str) and isinstance(dest2[k], str) else getattr(added[k], "value", 0) is getattr(dest2[k], "value", 1)
                    or E.eq(getattr(added[k], "value", None), getattr(dest2[k], "value", None)) is True)) or (
                    isinstance(added[k], STensor) and isinstance(dest2[k], STensor)) for k in added)
                run.add(f"C10/saving-again-gives-the-same-keys-and-strings[{tag}]/path{pi}", r.hyps, z3.BoolVal(bool(same_again)), "property", inst, replay=rp)
                for k in added:
                    if isinstance(added[k], STensor) and isinstance(dest2.get(k), STensor):
                        run.add(f"C10/saving-again-tensor-equal:{k[len(PREFIX):]}[{tag}]/path{pi}", r.hyps, same_tensor(added[k], dest2[k]), "property", inst, replay=rp)
                for o in r.obligations:
                    if o.kind in ("assert", "callee-pre", "torch-pre"):
                        run.add(f"C10/no-assertion-failure[{tag}]/path{pi}/{o.name}@{o.loc}", o.hyps, o.goal, "property", inst, replay=rp)


def string_lemma(run):
    """name.replace(prefix, '') == suffix for name = prefix + suffix, prefix ending with '.', suffix without '.' - for EVERY prefix."""
    smt = """(set-logic ALL)
(declare-fun p () String)
(declare-fun q () String)
(declare-fun suf () String)
(assert (= p (str.++ q ".")))
(assert (not (str.contains suf ".")))
(assert (not (= (str.replace_all (str.++ p suf) p "") suf)))
(check-sat)
"""
    run.add_smt2("C10/string-lemma:replace(prefix+suffix,prefix,'')==suffix", smt, "property", {"lemma": "str.replace strips exactly the prefix"}, timeout=120)
    smt2 = """(set-logic ALL)
(declare-fun p () String)
(declare-fun q () String)
(declare-fun suf () String)
(assert (= p (str.++ q ".")))
(assert (not (str.contains suf ".")))
(assert (not (str.prefixof p (str.++ p suf))))
(check-sat)
"""
    run.add_smt2("C10/string-lemma:startswith(prefix)", smt2, "property", {"lemma": "own keys are selected by startswith"}, timeout=60)


def module_level(run):
    combos = [(w, a, fz) for w in ("qint8", "qfloat8_e4m3fn", "qint4", "qint2") for a in (None, "qint8") for fz in (True, False)]
    for weights, act, frozen in combos:
        for target in ("default-quantized", "same-quantized", "same-quantized-frozen", "same-quantized/source-streamlined", "same-quantized-warmed-up"):
            if target == "same-quantized/source-streamlined" and act is None:
                continue
            if target == "same-quantized-warmed-up" and (frozen or act is not None or weights in ("qint4", "qint2")):
                # (group-wise low-bit weights: two evaluations of group() introduce distinct uninterpreted index maps - not decided here)
                continue   # a target that already evaluated its (dynamic) quantized weight under no_grad before the load
            if target == "same-quantized-frozen" and not frozen:
                continue
            inst = {"level": "module", "weights": weights, "activations": act, "frozen": frozen, "target": target}
            run.count_instance(**{"m_weights": weights, "m_act": act, "m_frozen": frozen, "m_target": target})
            E = OC.engine(run)
            E.load_module(QLIN)
            F, O = z3.Ints("F O")

            def prog(E2, weights=weights, act=act, frozen=frozen, target=target):
                E2.assume(F >= 1)
                E2.assume(O >= 1)
                qt = E2.load_module(OC.QTYPE).env.lookup
                QL = E2.get(f"{QLIN}::QLinear")
                src = E2.call(QL, [F, O], {"weights": qt(weights), "activations": qt(act) if act else None})
                # calibrated activation scales
                from qvc.values import STensor as ST
                si, so = z3.Reals("scale_in scale_out")
                E2.setattr(src, "input_scale", ST("float32", [], lambda idx: si, name="SI"))
                E2.setattr(src, "output_scale", ST("float32", [], lambda idx: so, name="SO"))
                src.fields["_buffers"]["input_scale"] = src.fields["input_scale"]
                src.fields["_buffers"]["output_scale"] = src.fields["output_scale"]
                if frozen:
                    E2.call(E2.getattr(src, "freeze"), [], {})
                if target.endswith("source-streamlined"):
                    # calibration with streamlining switched the activations of this module off after it was quantized
                    E2.setattr(src, "activation_qtype", None)
                sd = E2.call(E2.getattr(src, "state_dict"), [], {"prefix": "layer."})
                saved = dict(sd)
                if target == "default-quantized":
                    tgt = E2.call(QL, [F, O], {"weights": qt("qint8"), "activations": None})
                else:
                    tgt = E2.call(QL, [F, O], {"weights": qt(weights), "activations": qt(act) if act else None})
                if target == "same-quantized-frozen":
                    E2.call(E2.getattr(tgt, "freeze"), [], {})
                if target == "same-quantized-warmed-up":
                    E2.ps["grad_enabled"] = False
                    E2.getattr(tgt, "qweight")
                    E2.ps["grad_enabled"] = True
                work = dict(sd)
                missing, unexpected, errors = [], [], []
                E2.call(E2.getattr(tgt, "_load_from_state_dict"), [work, "layer.", {}, True, missing, unexpected, errors], {})
                sd2 = E2.call(E2.getattr(tgt, "state_dict"), [], {"prefix": "layer."})
                if target == "same-quantized-warmed-up":
                    E2.ps["grad_enabled"] = False
                    src.fields["__qw_after"] = E2.getattr(src, "qweight")
                    tgt.fields["__qw_after"] = E2.getattr(tgt, "qweight")
                    E2.ps["grad_enabled"] = True
                return src, saved, tgt, dict(sd2), work, (missing, unexpected, errors)

            try:
                res = E.explore(Builtin("c10m", prog), lambda E2: ([], {}), name="C10.module")
            except Unsupported as u:
                run.undecide(f"C10/module[{weights}/{act}/{frozen}/{target}]", u, inst)
                continue
            run.absorb(E)
            tag = f"w={weights}/a={act}/{'frozen' if frozen else 'unfrozen'}/{target}"
            if not run.expect_paths(res, f"C10/module[{tag}]", inst):
                continue
            rp = lambda m, s, i=dict(inst): replay_module(m, s, i, ("load",))
            rp_types = lambda m, s, i=dict(inst): replay_module(m, s, i, ("types",))
            rp_out = lambda m, s, i=dict(inst): replay_module(m, s, i, ("outputs",))
            rp_save = lambda m, s, i=dict(inst): replay_module(m, s, i, ("resave",))
            rp_w = lambda m, s, i=dict(inst): replay_module(m, s, i, ("weights",))
            for pi, r in enumerate(res):
                if r.outcome != "return":
                    run.add(f"C10/module-round-trip-runs[{tag}]/path{pi}", r.hyps, z3.BoolVal(False), "property", inst, {"outcome": repr(r.value)[:300]}, replay=rp)
                    continue
                E.focus(r)
                src, saved, tgt, sd2, work, (missing, unexpected, errors) = r.value
                run.add(f"C10/state-dict-has-only-plain-tensors-and-strings[{tag}]/path{pi}", r.hyps,
                        z3.BoolVal(all(is_plain_tensor(v) or is_string(v) or (isinstance(v, STensor) and not is_wrapper(v)) for v in saved.values())), "property", inst,
                        {"types": {k: type(v).__name__ for k, v in saved.items()}}, replay=rp_types)
                run.add(f"C10/nothing-missing-or-unexpected[{tag}]/path{pi}", r.hyps, z3.BoolVal(not missing and not unexpected and not errors), "property", inst,
                        {"missing": missing, "unexpected": unexpected, "errors": errors}, replay=rp)
                # every key written by save is consumed by load (pops) or belongs to the default (plain) entries
                leftover = [k for k in work if k.startswith("layer.") and k not in ("layer.weight", "layer.bias", "layer.input_scale", "layer.output_scale")]
                run.add(f"C10/load-consumes-all-quantization-keys[{tag}]/path{pi}", r.hyps, z3.BoolVal(not leftover), "property", inst, {"left": leftover}, replay=rp)
                run.add(f"C10/qtypes-restored[{tag}]/path{pi}", r.hyps,
                        z3.BoolVal(tgt.fields["weight_qtype"] is src.fields["weight_qtype"] and tgt.fields["activation_qtype"] is src.fields["activation_qtype"]), "property", inst, replay=rp)
                for nm in ("input_scale", "output_scale", "bias"):
                    a, b = src.fields[nm], tgt.fields[nm]
                    run.add(f"C10/{nm}-restored[{tag}]/path{pi}", r.hyps, same_tensor(a, b), "property", inst, replay=rp)
                ws, wt = src.fields["weight"], tgt.fields["weight"]
                if frozen:
                    okc = is_wrapper(wt) and wt.cls is ws.cls
                    run.add(f"C10/frozen-weight-class-restored[{tag}]/path{pi}", r.hyps, z3.BoolVal(bool(okc)), "property", inst, replay=rp_out)
                    if okc:
                        for fld in ("_scale",) + (("_zeropoint",) if "_zeropoint" in ws.fields else ("_data",)):
                            run.add(f"C10/frozen-weight-{fld}-restored[{tag}]/path{pi}", r.hyps, same_tensor(ws.fields[fld], wt.fields[fld]), "property", inst, replay=rp_out)
                        if "_zeropoint" in ws.fields:
                            g1 = ws.fields["_data"].fields.get("_ghost_codes") or ws.fields["_data"].fields["_data"].attrs.get("ghost_codes")
                            g2 = wt.fields["_data"].fields.get("_ghost_codes") or wt.fields["_data"].fields["_data"].attrs.get("ghost_codes")
                            run.add(f"C10/frozen-weight-codes-restored[{tag}]/path{pi}", r.hyps, same_tensor(g1, g2) if (g1 is not None and g2 is not None) else z3.BoolVal(False),
                                    "property", inst, replay=rp)
                            gs = E.eq(ws.fields["_group_size"], wt.fields["_group_size"])
                            run.add(f"C10/frozen-weight-group-size-restored[{tag}]/path{pi}", r.hyps, gs if not isinstance(gs, bool) else z3.BoolVal(gs), "property", inst, replay=rp_out)
                        run.add(f"C10/frozen-weight-meta-restored[{tag}]/path{pi}", r.hyps,
                                z3.And(z3.BoolVal(wt.fields["_qtype"] is ws.fields["_qtype"] and wt.fields["_axis"] == ws.fields["_axis"]),
                                       lib.shape_eq(list(wt.fields["_w_size"]), list(ws.fields["_w_size"]))), "property", inst, replay=rp)
                else:
                    run.add(f"C10/float-weight-restored[{tag}]/path{pi}", r.hyps, same_tensor(ws, wt) if isinstance(wt, STensor) else z3.BoolVal(False), "property", inst, replay=rp_w)
                    # an unfrozen model re-quantizes with the same group size after reload (outputs bit-identical)
                    gs = E.eq(src.fields["weight_group_size"], tgt.fields["weight_group_size"])
                    nm_ = "C10/requantize-path" if target == "default-quantized" else "C10"
                    run.add(f"{nm_}/unfrozen-weight-group-size-restored[{tag}]/path{pi}", r.hyps, gs if not isinstance(gs, bool) else z3.BoolVal(gs), "property", inst, replay=rp_out)
                if target == "same-quantized-warmed-up":
                    # the weights used by inference after the load are those of the source (no stale derived state survives the load)
                    qa, qb = src.fields.pop("__qw_after"), tgt.fields.pop("__qw_after")
                    okq = is_wrapper(qa) and is_wrapper(qb) and qa.cls is qb.cls
                    run.add(f"C10/inference-weight-after-load-class[{tag}]/path{pi}", r.hyps, z3.BoolVal(bool(okq)), "property", inst, replay=rp_out)
                    if okq:
                        from qvc.tm_tensor import reduction_facts
                        for fld in ("_scale",) + (("_zeropoint",) if "_zeropoint" in qa.fields else ("_data",)):
                            g = same_tensor(qa.fields[fld], qb.fields[fld])
                            facts_ = reduction_facts(E) + E.drain() + list(E.ps.get("lazy_facts", []))
                            run.add(f"C10/inference-weight-after-load-equals-the-source's:{fld}[{tag}]/path{pi}", r.hyps + facts_, g, "property", inst, replay=rp_out, timeout=60)
                # saving again gives an equal state_dict (keys + strings; tensors bit-identical)
                ks = set(saved) == set(sd2)
                run.add(f"C10/saving-again-same-keys[{tag}]/path{pi}", r.hyps, z3.BoolVal(ks), "property", inst, {"first": sorted(saved), "second": sorted(sd2)}, replay=rp_save)
                if ks:
                    for k in saved:
                        a, b = saved[k], sd2[k]
                        if isinstance(a, STensor) and isinstance(b, STensor):
                            run.add(f"C10/saving-again-equal:{k}[{tag}]/path{pi}", r.hyps, same_tensor(a, b), "property", inst, replay=rp_save)
                        elif isinstance(a, str) and isinstance(b, str):
                            run.add(f"C10/saving-again-equal:{k}[{tag}]/path{pi}", r.hyps, z3.BoolVal(a == b), "property", inst, replay=rp_save)
                for o in r.obligations:
                    if o.kind in ("assert", "callee-pre", "torch-pre"):
                        run.add(f"C10/no-assertion-failure[{tag}]/path{pi}/{o.name}@{o.loc}", o.hyps, o.goal, "property", inst, replay=rp)


def requantize_models(run):
    """requantize(float_model, state_dict): the whole-model entry point, on small module trees built by the real quantize()."""
    from props.C08 import container, engine as engine8, mk_linear, mk_ln
    for act, weights, frozen in [(a_, w_, f_) for a_ in (None, "qint8") for w_ in ("qint8", "qint4") for f_ in (True, False)]:
        if True:
            inst = {"level": "model", "entry": "requantize", "weights": weights, "activations": act, "frozen": frozen}
            run.count_instance(**{"rq_weights": weights, "rq_act": act, "rq_frozen": frozen})
            E = engine8(run)
            F = z3.Int("in_a")

            def prog(E2, weights=weights, act=act, frozen=frozen):
                qt = E2.load_module(OC.QTYPE).env.lookup
                src = container(E2, fc=mk_linear(E2, "a"), norm=mk_ln(E2, "c"))
                E2.call(E2.get("optimum/quanto/quantize.py::quantize"), [src], {"weights": qt(weights), "activations": qt(act) if act else None})
                if frozen:
                    E2.call(E2.get("optimum/quanto/quantize.py::freeze"), [src], {})
                sd = E2.call(E2.getattr(src, "state_dict"), [], {})
                tgt = container(E2, fc=mk_linear(E2, "a"), norm=mk_ln(E2, "c"))
                E2.call(E2.get("optimum/quanto/quantize.py::requantize"), [tgt, dict(sd)], {})
                sd2 = E2.call(E2.getattr(tgt, "state_dict"), [], {})
                return src, sd, tgt, sd2

            tag = f"w={weights}/a={act}/{'frozen' if frozen else 'unfrozen'}"
            try:
                res = E.explore(Builtin("c10r", prog), lambda E2: ([], {}), name="C10.requantize")
            except Unsupported as u:
                run.undecide(f"C10/requantize[{tag}]", u, inst)
                continue
            run.absorb(E)
            if not run.expect_paths(res, f"C10/requantize[{tag}]", inst):
                continue
            rp = lambda m, s, i=dict(inst): replay_requantize(m, s, i)
            for pi, r in enumerate(res):
                fam = "C10/requantize-with-quantized-layernorm" if act else "C10"
                if r.outcome != "return":
                    run.add(f"{fam}/requantize-does-not-raise[{tag}]/path{pi}", r.hyps, z3.BoolVal(False), "property", inst, {"outcome": repr(r.value)[:300]}, replay=rp)
                    continue
                src, sd, tgt, sd2 = r.value
                E.focus(r)
                run.add(f"C10/requantize-then-save-gives-the-same-keys[{tag}]/path{pi}", r.hyps, z3.BoolVal(sorted(sd.keys()) == sorted(sd2.keys())), "property", inst,
                        {"loaded": sorted(sd.keys()), "saved_again": sorted(sd2.keys())}, replay=rp)
                for k in sorted(set(sd.keys()) & set(sd2.keys())):
                    va, vb = sd[k], sd2[k]
                    if isinstance(va, STensor) and isinstance(vb, STensor):
                        run.add(f"C10/requantize-then-save-gives-equal-entries:{k}[{tag}]/path{pi}", r.hyps, same_tensor(va, vb), "property", inst, replay=rp)
                    elif not isinstance(va, (STensor, Obj)) and not isinstance(vb, (STensor, Obj)):
                        # strings: str() of a symbolic value is known only through its value (A-SER)
                        ua = va.value if isinstance(va, SymStr) else va
                        ub = vb.value if isinstance(vb, SymStr) else vb
                        if isinstance(va, SymStr) != isinstance(vb, SymStr):
                            e_ = False
                        else:
                            e_ = E.eq(list(ua) if isinstance(ua, tuple) else ua, list(ub) if isinstance(ub, tuple) else ub)
                        facts_ = E.drain() + list(E.ps.get("lazy_facts", []))
                        run.add(f"C10/requantize-then-save-gives-equal-entries:{k}[{tag}]/path{pi}", r.hyps + facts_, z3.BoolVal(e_) if isinstance(e_, bool) else e_, "property", inst, replay=rp)
                a, b = src.fields["_modules"]["fc"], tgt.fields["_modules"]["fc"]
                ok = isinstance(b, Obj) and b.cls is a.cls and b.fields.get("weight_qtype") is a.fields.get("weight_qtype") and \
                    b.fields.get("activation_qtype") is a.fields.get("activation_qtype")
                run.add(f"C10/requantize-restores-the-quantized-modules[{tag}]/path{pi}", r.hyps, z3.BoolVal(bool(ok)), "property", inst, replay=rp)


def safetensors_split(run):
    """safe_save splits into plain tensors and string metadata; safe_load merges them back: inverse on dicts of tensors and strings."""
    E = OC.engine(run)
    E.load_module(SER)
    files = {}

    def save_file(E2, tensors, filename, metadata=None):
        for k, v in (metadata or {}).items():
            if not is_string(v):
                from qvc.tm_tensor import raise_
                raise_(E2, "TypeError", f"metadata value of '{k}' is not a string")
        for k, v in tensors.items():
            if not is_plain_tensor(v):
                from qvc.tm_tensor import raise_
                raise_(E2, "ValueError", f"'{k}' is not a plain tensor")
        files[filename] = (dict(tensors), dict(metadata or {}))

    class _F:
        pass

    from qvc.values import ExtClass
    SAFE = ExtClass("safe_open_handle")

    def safe_open(E2, filename, framework=None, **kw):
        t, m = files[filename]
        h = Obj(SAFE)
        h.fields["metadata"] = Builtin("metadata", lambda E3: dict(m))
        h.fields["keys"] = Builtin("keys", lambda E3: list(t.keys()))
        h.fields["get_tensor"] = Builtin("get_tensor", lambda E3, k: t[k])
        return h

    SAFE.ns["__enter__"] = Builtin("enter", lambda E2, self: self)
    SAFE.ns["__exit__"] = Builtin("exit", lambda E2, self, *a: None)
    E.models["safetensors.torch.save_file"] = Builtin("save_file", save_file)
    E.models["safetensors.torch.safe_open"] = Builtin("safe_open", safe_open)
    # re-load the module now that the models are installed (import binds the names at load time)
    E.modules.pop(SER, None)
    E.load_module(SER)

    def prog(E2):
        a, b = new_input(E2, "T1", "int8", [3]), new_input(E2, "T2", "float16", [])
        sd = {"l.weight._data": a, "l.weight._scale": b, "l.weight.qtype": "qint8", "l.weight.axis": "0", "l.weight_qtype": "qint8", "l.activation_qtype": "none"}
        # float8 payloads of both flavours, a uint8 payload (packed low-bit weights) and a float32 bias
        for nm_, dt_, qn_ in (("m", "float8_e4m3fn", "qfloat8_e4m3fn"), ("n", "float8_e5m2", "qfloat8_e5m2"), ("p", "uint8", "qint4")):
            sd[f"{nm_}.weight._data"] = new_input(E2, f"D_{nm_}", dt_, [4, 2])
            sd[f"{nm_}.weight._scale"] = new_input(E2, f"S_{nm_}", "float32", [4, 1])
            sd[f"{nm_}.weight.qtype"] = qn_
            sd[f"{nm_}.weight_qtype"] = qn_
        sd["m.bias"] = new_input(E2, "Bias", "float32", [4])
        E2.call(E2.get(f"{SER}::safe_save"), [sd, "f.safetensors"], {})
        back = E2.call(E2.get(f"{SER}::safe_load"), ["f.safetensors"], {})
        return sd, back

    inst = {"level": "safetensors"}
    try:
        res = E.explore(Builtin("c10s", prog), lambda E2: ([], {}), name="C10.safetensors")
    except Unsupported as u:
        run.undecide("C10/safetensors", u, inst)
        return
    run.absorb(E)
    for pi, r in enumerate(res):
        if r.outcome != "return":
            run.add(f"C10/safetensors-round-trip-runs/path{pi}", r.hyps, z3.BoolVal(False), "property", inst, {"outcome": repr(r.value)[:300]})
            continue
        sd, back = r.value
        ok = set(sd) == set(back) and all(sd[k] is back[k] or sd[k] == back[k] for k in sd if not isinstance(sd[k], STensor))
        run.add(f"C10/safe_save-safe_load-are-inverse/path{pi}", r.hyps, z3.BoolVal(bool(ok)), "property", inst, replay=lambda m, s: replay_safetensors(m, s))
        for k in sorted(sd):
            if isinstance(sd[k], STensor) and k in back:
                run.add(f"C10/safe_save-safe_load-restore-tensor:{k}/path{pi}", r.hyps, same_tensor(sd[k], back[k]) if isinstance(back[k], STensor) else z3.BoolVal(False), "property", inst,
                        {"dtype_saved": sd[k].dtype, "dtype_loaded": getattr(back[k], "dtype", None)}, replay=lambda m, s: replay_safetensors(m, s))


def build(run):
    from props import conformance

    conformance.run_conformance(run, ['pack'])
    run.assume("A-ENGINE", "A-PY (dict insertion order, str methods on concrete strings)", "A-SER ast.literal_eval(str(v)) == v; torch.save/load and safetensors preserve tensors and strings",
               "A-TORCH-NN nn.Module._load_from_state_dict / state_dict protocol; Parameter(q) reaches detach", "A-PURE equal codes/scales/zero-points give bit-identical outputs",
               "PackedTensor contract (C04)")
    run.assumptions += ["prefixes are concrete in the executions; the only prefix-dependent step, name.replace(prefix, ''), is proved for an arbitrary prefix as a string lemma (cvc5)",
                        "rank-2 weights with symbolic sizes; Linear twin (the mixin code is shared by Conv2d / LayerNorm)"]
    run.not_decided += ["real torch.save / torch.load(weights_only) / safetensors file I/O (A-SER)", "requantize() on whole models: see C08 (module walk) and the known findings"]
    E0 = run.engine()
    for key in (f"{OC.QTENSOR}::QTensor.save_to_state_dict", f"{OC.QBYTES}::QBytesTensor.load_from_state_dict", f"{OC.QBYTES}::QBytesTensor.__tensor_flatten__",
                f"{OC.QBYTES}::QBytesTensor.__tensor_unflatten__", f"{OC.QBITS}::QBitsTensor.load_from_state_dict", f"{OC.QBITS}::QBitsTensor.save_to_state_dict",
                f"{OC.QBITS}::QBitsTensor.optimize", f"{OC.QBITS}::QBitsTensor.__tensor_flatten__", f"{OC.QBITS}::QBitsTensor.__tensor_unflatten__",
                f"{PACKED}::PackedTensor.load_from_state_dict", f"{PACKED}::PackedTensor.__tensor_flatten__", f"{PACKED}::PackedTensor.__tensor_unflatten__",
                f"{QMOD}::QModuleMixin._save_to_state_dict", f"{QMOD}::QModuleMixin._load_from_state_dict", f"{SER}::safe_save", f"{SER}::safe_load"):
        run.under_contract(E0, key)
    for part in (string_lemma, tensor_level, module_level, requantize_models, safetensors_split):
        try:
            part(run)
        except Unsupported as u:
            run.undecide(f"C10/{part.__name__}", f"unsupported: {u}")


# ------------------------------------------------------------------------------------------------ native replay
def replay_tensor(model, seed, inst):
    import torch
    from optimum.quanto import QBitsTensor, QBytesTensor, absmax_scale, qtypes, quantize_weight
    from optimum.quanto.tensor.quantizers import SymmetricQuantizer

    torch.manual_seed(seed)
    w = torch.randn(8, 16)
    qt = qtypes[inst["qtype"]]
    if inst["class"] == "qbytes":
        sc = absmax_scale(w, qt, inst["axis"])
        q = SymmetricQuantizer.apply(w, qt, inst["axis"], sc)
        cls = QBytesTensor
    else:
        q = quantize_weight(w, qt, inst["axis"], 4 if inst["grouped"] else None)
        cls = QBitsTensor
    sd = {"other.bias": torch.zeros(1)}
    q.save_to_state_dict(sd, "w.", inst["keep_vars"])
    bad = {k: type(v).__name__ for k, v in sd.items() if not (type(v) is torch.Tensor or isinstance(v, str))}
    if bad:
        return {"what": "state dict holds values that are neither plain tensors nor strings", "values": bad}
    work = dict(sd)
    try:
        q2 = cls.load_from_state_dict(work, "w.")
    except Exception as e:
        return {"what": f"load_from_state_dict raises {type(e).__name__}: {str(e)[:150]}"}
    if set(work) != {"other.bias"}:
        return {"what": "load left keys behind / consumed foreign keys", "left": sorted(work)}
    if not torch.equal(q.dequantize(), q2.dequantize()) or q2.qtype != q.qtype or q2.axis != q.axis or q2.shape != q.shape:
        return {"what": "reloaded tensor differs"}
    return None


def replay_module(model, seed, inst, clauses=("types", "load", "outputs", "resave")):
    """Native oracle: 'types' (state_dict values), 'load' (load_state_dict runs, nothing missing), 'outputs' (bit-identical outputs),
    'resave' (saving again gives the same keys / strings)."""
    import torch
    from optimum.quanto import Calibration, freeze, qtypes, quantize

    torch.manual_seed(seed)

    def mk():
        return torch.nn.Sequential(torch.nn.Linear(256, 8), torch.nn.ReLU(), torch.nn.Linear(8, 4))

    src = mk()
    kw = {"weights": qtypes[inst["weights"]], "activations": qtypes[inst["activations"]] if inst["activations"] else None}
    quantize(src, **kw)
    x = torch.randn(3, 256)
    if inst["activations"]:
        with torch.no_grad(), Calibration(streamline=False):
            src(x)
    if inst["frozen"]:
        freeze(src)
    if inst["target"].endswith("source-streamlined"):
        for m_ in src:
            if hasattr(m_, "activation_qtype"):
                m_.activation_qtype = None
    with torch.no_grad():
        y = src(x)
    sd = src.state_dict()
    bad = {k: type(v).__name__ for k, v in sd.items() if not (type(v) is torch.Tensor or isinstance(v, str))}
    if bad and "types" in clauses:
        return {"what": "state_dict holds values that are neither plain tensors nor strings", "values": bad}
    tgt = mk()
    if inst["target"] == "default-quantized":
        quantize(tgt)
    else:
        quantize(tgt, **kw)
    if inst["target"] == "same-quantized-frozen":
        freeze(tgt)
    try:
        tgt.load_state_dict(sd)
    except Exception as e:
        if "load" in clauses:
            return {"what": f"load_state_dict raises {type(e).__name__}: {str(e)[:200]}"}
        return None
    if "resave" in clauses:
        sd2 = tgt.state_dict()
        if sorted(sd2) != sorted(sd):
            return {"what": "saving again gives other keys", "only_first": sorted(set(sd) - set(sd2))[:5], "only_second": sorted(set(sd2) - set(sd))[:5]}
        for k, v in sd.items():
            w = sd2[k]
            if isinstance(v, str) and v != w:
                return {"what": f"saving again gives another '{k}'", "first": v, "second": w}
            if type(v) is torch.Tensor and not (v.shape == w.shape and v.dtype == w.dtype and torch.equal(v.view(torch.uint8) if v.dtype.itemsize == 1 else v, w.view(torch.uint8) if w.dtype.itemsize == 1 else w)):
                return {"what": f"saving again gives another tensor '{k}'"}
    if "weights" in clauses:
        for ms, mt in zip(src, tgt):
            if hasattr(ms, "weight") and type(ms.weight.data) is torch.Tensor and not (type(mt.weight.data) is torch.Tensor and torch.equal(ms.weight, mt.weight)):
                return {"what": "the float weight of an unfrozen module is not restored"}
    with torch.no_grad():
        y2 = tgt(x)
    if "outputs" in clauses and not torch.equal(y, y2):
        return {"what": "outputs of the reloaded model differ", "max_abs_diff": (y - y2).abs().max().item(),
                "group_sizes": [getattr(m, "weight_group_size", None) for m in tgt if hasattr(m, "weight_group_size")]}
    return None


def replay_safetensors(model, seed):
    """safe_save / safe_load round trip of frozen models of every 8-bit weight qtype: bit-identical entries."""
    import os
    import tempfile
    import torch
    from optimum.quanto import freeze, qtypes, quantize
    from optimum.quanto.serialization import safe_load, safe_save

    torch.manual_seed(seed)
    for qn in ("qint8", "qfloat8_e4m3fn", "qfloat8_e5m2", "qint4"):
        m = torch.nn.Sequential(torch.nn.Linear(16, 8))
        quantize(m, weights=qtypes[qn])
        freeze(m)
        sd = m.state_dict()
        with tempfile.TemporaryDirectory() as d:
            f = os.path.join(d, "m.safetensors")
            try:
                safe_save(sd, f)
                back = safe_load(f)
            except Exception as e:
                return {"what": f"safetensors round trip raises {type(e).__name__}: {str(e)[:150]}", "qtype": qn}
        if sorted(back) != sorted(sd):
            return {"what": "keys differ after the safetensors round trip", "qtype": qn}
        for k, v in sd.items():
            w = back[k]
            if type(v) is torch.Tensor:
                same = v.dtype == w.dtype and v.shape == w.shape and torch.equal(v.view(torch.uint8) if v.dtype.itemsize == 1 else v, w.view(torch.uint8) if w.dtype.itemsize == 1 else w)
                if not same:
                    return {"what": f"entry '{k}' differs after the safetensors round trip", "qtype": qn, "dtype_saved": str(v.dtype), "dtype_loaded": str(w.dtype)}
            elif v != w:
                return {"what": f"string entry '{k}' differs", "qtype": qn}
    return None


def replay_requantize(model, seed, inst):
    import torch
    from optimum.quanto import Calibration, freeze, qtypes, quantize, requantize

    torch.manual_seed(seed)
    mk = lambda: torch.nn.Sequential(torch.nn.Linear(16, 8), torch.nn.LayerNorm(8))
    src = mk()
    quantize(src, weights=qtypes[inst["weights"]], activations=qtypes[inst["activations"]] if inst["activations"] else None)
    if inst.get("frozen", True):
        freeze(src)
    sd = src.state_dict()
    tgt = mk()
    try:
        requantize(tgt, sd)
    except Exception as e:
        return {"what": f"requantize raises {type(e).__name__}: {str(e)[:200]}"}
    sd2 = tgt.state_dict()
    if sorted(sd.keys()) != sorted(sd2.keys()):
        return {"what": "saving the requantized model again gives other keys", "only_loaded": sorted(set(sd) - set(sd2))[:6], "only_saved_again": sorted(set(sd2) - set(sd))[:6]}
    for k in sd:
        a, b = sd[k], sd2[k]
        if isinstance(a, torch.Tensor) and type(a) is torch.Tensor and not (a.shape == b.shape and a.dtype == b.dtype and torch.equal(a, b)):
            return {"what": f"entry '{k}' differs after requantize + state_dict"}
    return None


def replay_file(path):
    import json
    rec = json.load(open(path))
    inst = rec["instance"]
    r = replay_tensor({}, 0, inst) if inst.get("level") == "tensor" else replay_module({}, 0, inst) if inst.get("level") == "module" else replay_requantize({}, 0, inst) if inst.get("level") == "model" else replay_safetensors({}, 0) if inst.get("level") == "safetensors" else None
    print(json.dumps(r, indent=1, default=str))
    return 1 if r else 0
