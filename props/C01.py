"""C01 - 8-bit symmetric quantization is a nearest-grid-point projection (DESIGN 6.1).

(a) nearest, (c) axis: algebra R (A-REAL), every rank 1..4 x axis x qtype, symbolic shapes/values/scales.
(b) saturation / no wrap, (d) idempotence, (e) monotone: algebra F, bit-precise (fp16 + bf16 quick, fp32 thorough).
"""
import os

import z3

from qvc import lib, sym
from qvc.lib import idx_vars, zi
from qvc.sym import Unsupported
from qvc.tm_tensor import new_input
from qvc.values import Obj, STensor

SYMQ = "optimum/quanto/tensor/quantizers/symmetric.py"
QBYTES = "optimum/quanto/tensor/qbytes.py"
QTYPE = "optimum/quanto/tensor/qtype.py"
QACT = "optimum/quanto/tensor/qactivation.py"
CORE = "optimum/quanto/tensor/core.py"

DRIVER = """
def prog(base, qtype, axis, scale):
    q = SymmetricQuantizer.apply(base, qtype, axis, scale)
    return q, q.dequantize()
"""
DRIVER_ACT = """
def prog(base, qtype, axis, scale):
    q = quantize_activation(base, qtype, scale)
    return q, q.dequantize()
"""
DRIVER_FRESH = """
def prog(base, qtype, axis, scale):
    q = SymmetricQuantizer.apply(base, qtype, axis, scale)
    d1 = q.dequantize()
    with torch.no_grad():
        d2 = q.dequantize()
        d3 = q.dequantize()
    return q, d1, d2, d3
"""
DRIVER_TWICE = """
def prog(base, qtype, axis, scale):
    q = SymmetricQuantizer.apply(base, qtype, axis, scale)
    d = q.dequantize()
    q2 = SymmetricQuantizer.apply(d, qtype, axis, scale)
    return q, q2
"""
DRIVER_TWICE_D = """
def prog(base, qtype, axis, scale):
    q = SymmetricQuantizer.apply(base, qtype, axis, scale)
    d = q.dequantize()
    q2 = SymmetricQuantizer.apply(d, qtype, axis, scale)
    return q, d, q2
"""
QMAX = {"qint8": 127, "qfloat8_e4m3fn": 448, "qfloat8_e5m2": 57344}
QMIN = {"qint8": -128, "qfloat8_e4m3fn": -448, "qfloat8_e5m2": -57344}


def scale_shape(ds, axis):
    if axis is None:
        return []
    k = axis % len(ds)
    return [d if j == k else 1 for j, d in enumerate(ds)]


def bidx(ids, axis):
    """index of the scale element used for data index ids (the kept-axis index, others 0)."""
    if axis is None:
        return []
    k = axis % len(ids)
    return [i if j == k else 0 for j, i in enumerate(ids)]


def load(run, **kw):
    E = run.engine(**kw)
    E.load_module("optimum/quanto/tensor/__init__.py")
    return E


def part_fresh(run):
    """dequantize() is a function of the quantized tensor: every call (with or without autograd recording) returns a NEW tensor and
    leaves nothing behind on the quantized tensor - a caller that modifies one result in place cannot change the next one."""
    for qname in ("qint8", "qfloat8_e4m3fn"):
        inst = {"qtype": qname, "lemma": "dequantize returns fresh results"}
        E = load(run)
        qt = E.load_module(QTYPE).env.lookup(qname)
        prog = E.snippet(DRIVER_FRESH, SYMQ, {"SymmetricQuantizer": E.get(f"{SYMQ}::SymmetricQuantizer")})
        ds, dpos = lib.dims("d", 2)

        def setup(E2, ds=ds, dpos=dpos, qt=qt):
            for c in dpos:
                E2.assume(c)
            return [new_input(E2, "X", "float32", ds), qt, None, new_input(E2, "S", "float32", [])], {}

        try:
            res = E.explore(prog, setup, name="C01.fresh")
        except Unsupported as u:
            run.undecide(f"C01/fresh[{qname}]", u, inst)
            continue
        run.absorb(E)
        if not run.expect_paths(res, f"C01/fresh[{qname}]", inst):
            continue
        for pi, r in enumerate(res):
            if r.outcome != "return":
                continue
            q, d1, d2, d3 = r.value
            roots = lambda t: t.root() if isinstance(t, STensor) else None
            distinct = all(isinstance(t, STensor) for t in (d1, d2, d3)) and len({id(roots(t)) for t in (d1, d2, d3)}) == 3
            kept = sorted(k for k, v in q.fields.items() if isinstance(v, STensor) and any(v.root() is roots(t) for t in (d1, d2, d3)))
            run.add(f"C01/dequantize-returns-a-fresh-tensor-every-time[{qname}]/path{pi}", r.hyps, z3.BoolVal(bool(distinct and not kept)), "property", inst,
                    {"kept_on_the_quantized_tensor": kept}, replay=lambda m, sd, qn=qname: replay_fresh_deq(m, sd, qn))


def part_R(run):
    for qname in ("qint8", "qfloat8_e4m3fn", "qfloat8_e5m2"):
        for axis in (None, 0, -1):
            for rank in (1, 2, 3, 4):
                for entry in ("quantizer", "activation", "quantizer-expanded-input", "activation-mixed-dtypes"):
                    if entry.startswith("activation") and axis is not None:
                        continue
                    if entry == "activation-mixed-dtypes" and rank != 2:
                        continue   # float16 activations quantized with a float32 scale (scales calibrated in another precision)
                    if entry == "quantizer-expanded-input" and not (rank == 2 and axis is None):
                        continue   # "all shapes and strides": a broadcast (stride 0) source tensor
                    inst = {"qtype": qname, "axis": axis, "rank": rank, "entry": entry, "algebra": "R"}
                    run.count_instance(**inst)
                    E = load(run)
                    qt = E.load_module(QTYPE).env.lookup(qname)
                    prog = E.snippet(DRIVER if entry.startswith("quantizer") else DRIVER_ACT, SYMQ if entry.startswith("quantizer") else QACT,
                                     {"SymmetricQuantizer": E.get(f"{SYMQ}::SymmetricQuantizer")})
                    ds, dpos = lib.dims("d", rank)

                    def setup(E2, ds=ds, dpos=dpos, axis=axis, qt=qt, entry=entry):
                        for c in dpos:
                            E2.assume(c)
                        x = new_input(E2, "X", "float32" if entry != "activation-mixed-dtypes" else "float16", ds)
                        if entry == "quantizer-expanded-input":
                            # X[i, j] := C[i, 0] broadcast along the last dimension (the element function is the column's)
                            from qvc.tm_index import expand_to
                            col = new_input(E2, "X", "float32", [ds[0], 1])
                            cf = col._elem
                            col._elem = lambda idx: z3.Function("X", z3.IntSort(), z3.IntSort(), z3.RealSort())(idx[0], z3.IntVal(0))
                            x = expand_to(E2, col, [ds[0], ds[1]])
                        s = new_input(E2, "S", "float32", scale_shape(ds, axis))
                        return [x, qt, axis, s], {}

                    res = E.explore(prog, setup, name="C01.R")
                    run.absorb(E)
                    tag = f"{qname}/axis{axis}/r{rank}/{entry}"
                    if not run.expect_paths(res, f"C01/R[{tag}]", inst):
                        continue
                    nret = 0
                    for pi, r in enumerate(res):
                        if r.outcome == "raise":
                            # the documented refusals (C14 decides exactly which); anything but ValueError is a failure here
                            if r.value.tname != "ValueError":
                                run.add(f"C01/no-unexpected-exception[{tag}]/path{pi}:{r.value.tname}", r.hyps, z3.BoolVal(False), "property", inst,
                                        {"raises": repr(r.value)})
                            continue
                        nret += 1
                        q, d = r.value
                        data, scale = q.fields["_data"], q.fields["_scale"]
                        ids, inb = idx_vars("i", ds)
                        E.ps["touched"] = []
                        E.drain()
                        xfn = z3.Function("X", *([z3.IntSort()] * rank), z3.RealSort())
                        x = xfn(*ids) if entry != "quantizer-expanded-input" else xfn(ids[0], z3.IntVal(0))
                        eff_axis = q.fields["_axis"]
                        s = scale.elem(bidx(ids, eff_axis))
                        spos = s > 0
                        # the grid is the one of the scale that was GIVEN ("for every finite positive scale"): the result carries that very scale
                        sshape = scale_shape(ds, axis)
                        sgiven_f = z3.Function("S", *([z3.IntSort()] * len(sshape)), z3.RealSort()) if sshape else z3.Const("S", z3.RealSort())
                        jds, jnb = idx_vars("sj", list(scale.shape))
                        sg = sgiven_f(*jds) if (sshape and len(jds) == len(sshape)) else (sgiven_f if not sshape else None)
                        if sg is not None:
                            fs = E.drain()
                            run.add(f"C01/result-carries-the-given-scale[{tag}]/path{pi}", r.hyps + jnb + fs + [sg > 0], z3.And(lib.shape_eq(scale.shape, sshape), scale.elem(jds) == sg, z3.BoolVal(scale.dtype == "float32")), "property", inst,
                                    replay=lambda m, sd, qn=qname, ax=axis, rk=rank, en=entry: replay_given_scale(m, sd, qn, ax, rk, en))
                        y = x / s
                        code = data.elem(ids)
                        deq = d.elem(ids)
                        facts = E.drain()
                        hy = r.hyps + inb + [spos] + facts
                        # --- result structure (shape / dtype / which scale is used = clause (c))
                        run.add(f"C01/result-shape[{tag}]/path{pi}", r.hyps,
                                z3.And(lib.shape_eq(d.shape, ds), lib.shape_eq(data.shape, ds),
                                       z3.BoolVal(d.dtype == "float32" and isinstance(q, Obj) and q.cls.name == "QBytesTensor"
                                                  and q.fields["_qtype"] is q.fields["_qtype"])), "property", inst)
                        want_axis = None if axis is None else (-1 if axis % rank == rank - 1 else 0)
                        run.add(f"C01/axis-normalised[{tag}]/path{pi}", r.hyps, z3.BoolVal(eff_axis == want_axis), "property", inst)
                        # --- dequantizer contract: deq == scale[kept index] * val(code)
                        if qname == "qint8":
                            val = z3.ToReal(code)
                        else:
                            val = code
                        run.add(f"C01/dequantizer-contract[{tag}]/path{pi}", hy, deq == s * val, "property", inst)
                        # --- (a) nearest, in quotient space y = x / scale
                        if qname == "qint8":
                            v = z3.Int("v")
                            hv = [v >= -128, v <= 127]
                            vr = z3.ToReal(v)
                            goal = absr(val - y) <= absr(vr - y)
                            # generalise the quotient x/scale to an arbitrary real (sound: proves more), which keeps the query linear
                            Y = z3.Real("Yq")
                            gsub = z3.substitute(goal, (y, Y))
                            fsub = [z3.substitute(f, (y, Y)) for f in facts]
                            run.add(f"C01/nearest-quotient[{tag}]/path{pi}", r.hyps + inb + [spos] + fsub + hv, gsub, "property", inst,
                                    replay=lambda m, sd, qn=qname, ax=axis, rk=rank, ex=(entry == "quantizer-expanded-input"): replay_nearest(m, sd, qn, ax, rk, ex))
                            run.add(f"C01/code-in-grid[{tag}]/path{pi}", hy, z3.And(code >= -128, code <= 127), "property", inst)
                        else:
                            # cast to float8 is RNE onto the grid (assumed contract A-TORCH-EW, probed natively):
                            # G(rne(c)); |rne(c) - c| <= |v - c| for every grid v; grid within [-qmax, qmax]; +-qmax on grid
                            qmax = QMAX[qname]
                            G = z3.Function(f"grid_{qname}", z3.RealSort(), z3.BoolSort())
                            rne = z3.Function(f"rne_{'float8_e4m3fn' if 'e4m3' in qname else 'float8_e5m2'}", z3.RealSort(), z3.RealSort())
                            c = z3.If(y < -qmax, z3.RealVal(-qmax), z3.If(y > qmax, z3.RealVal(qmax), y))
                            v = z3.Real("v")
                            ax = [G(v), G(rne(c)), G(z3.RealVal(qmax)), G(z3.RealVal(-qmax)), v <= qmax, v >= -qmax,
                                  rne(c) <= qmax, rne(c) >= -qmax,
                                  absr(rne(c) - c) <= absr(v - c), absr(rne(c) - c) <= absr(z3.RealVal(qmax) - c),
                                  absr(rne(c) - c) <= absr(z3.RealVal(-qmax) - c)]
                            run.add(f"C01/code-is-cast-of-clamped-quotient[{tag}]/path{pi}", hy, code == rne(c), "property", inst)
                            run.add(f"C01/nearest-quotient[{tag}]/path{pi}", hy + ax, absr(val - y) <= absr(v - y), "property", inst,
                                    replay=lambda m, sd, qn=qname, ax_=axis, rk=rank, ex=(entry == "quantizer-expanded-input"): replay_nearest(m, sd, qn, ax_, rk, ex))
                        run.add_path_obligations([r], f"C01/exec[{tag}]", inst, kinds=("assert", "torch-pre"))
                    if nret == 0 and not (rank == 1 and axis is not None):
                        run.undecide(f"C01/R[{tag}]", "no returning path", inst)
    # scaling lemma (NRA): nearest in quotient space transfers to dequantized space for s > 0
    c, y, v, s = z3.Reals("c y v s")
    run.add("C01/scaling-lemma", [s > 0, absr(c - y) <= absr(v - y)], absr(s * c - s * y) <= absr(s * v - s * y), "property",
            {"lemma": "order-preserving scaling"})


def absr(t):
    return z3.If(t >= 0, t, -t)


# ------------------------------------------------------------------------------------------------ F (bit-precise)
def fp_consts(E, dtype, name):
    return z3.Const(name, E.alg.fpsort(dtype))


def finite(x):
    return z3.Not(z3.Or(z3.fpIsNaN(x), z3.fpIsInf(x)))


def part_F(run):
    FT = 240 if run.tier == "quick" else 600
    dtypes = ["float16", "bfloat16", "float32"]
    for qname in ("qint8", "qfloat8_e4m3fn", "qfloat8_e5m2"):
        for dtype in dtypes:
            light = (dtype == "float32" and run.tier != "thorough")   # quick tier: the per-element clauses only (no IEEE lemma, no second pass)
            inst = {"qtype": qname, "dtype": dtype, "algebra": "F"}
            run.count_instance(**inst)
            E = load(run, intmode="bv", floatmode="F")
            qt = E.load_module(QTYPE).env.lookup(qname)
            extra = {"SymmetricQuantizer": E.get(f"{SYMQ}::SymmetricQuantizer")}
            n = z3.Int("n")

            def setup(E2, qt=qt, dtype=dtype):
                E2.assume(n >= 1)
                return [new_input(E2, "X", dtype, [n]), qt, None, new_input(E2, "S", dtype, [])], {}

            tag = f"{qname}/{dtype}"
            srt = E.alg.fpsort(dtype)
            xf = z3.Function("X", z3.IntSort(), srt)
            s = z3.Const("S", srt)
            i, j = z3.Ints("i j")
            pre = [i >= 0, i < n, j >= 0, j < n, finite(s), z3.fpGT(s, z3.FPVal(0.0, srt))]
            # ---- (b) saturation / no wrap / sign, (e) monotone
            prog = E.snippet(DRIVER, SYMQ, extra)
            res = E.explore(prog, setup, name="C01.F")
            run.absorb(E)
            if run.expect_paths(res, f"C01/F[{tag}]", inst):
                for pi, r in enumerate(res):
                    if r.outcome != "return":
                        if r.outcome == "raise":
                            run.add(f"C01/F-no-exception[{tag}]/path{pi}:{r.value.tname}", r.hyps, z3.BoolVal(False), "property", inst)
                        continue
                    q, d = r.value
                    data = q.fields["_data"]
                    ci, cj = data.elem([i]), data.elem([j])
                    xi, xj = xf(i), xf(j)
                    hy = r.hyps + pre + [finite(xi), finite(xj)]
                    yq = z3.fpDiv(z3.RNE(), xi, s)
                    if qname == "qint8":
                        hi, lo = z3.BitVecVal(127, 8), z3.BitVecVal(-128, 8)
                        sat_hi = z3.Implies(z3.fpGEQ(yq, z3.FPVal(127.0, srt)), ci == hi)
                        sat_lo = z3.Implies(z3.fpLEQ(yq, z3.FPVal(-128.0, srt)), ci == lo)
                        sign = z3.And(z3.Implies(z3.fpGT(xi, z3.FPVal(0.0, srt)), ci >= 0), z3.Implies(z3.fpLT(xi, z3.FPVal(0.0, srt)), ci <= 0),
                                      z3.Implies(z3.fpIsZero(xi), ci == 0))
                        mono = z3.Implies(z3.fpLEQ(xi, xj), ci <= cj)
                        notnan = z3.BoolVal(True)
                    else:
                        f8 = E.alg.fpsort("float8_e4m3fn" if "e4m3" in qname else "float8_e5m2")
                        qm = z3.FPVal(float(QMAX[qname]), f8)
                        qmw = z3.FPVal(float(QMAX[qname]), srt)
                        sat_hi = z3.Implies(z3.fpGEQ(yq, qmw), z3.fpEQ(ci, qm))
                        sat_lo = z3.Implies(z3.fpLEQ(yq, z3.fpNeg(qmw)), z3.fpEQ(ci, z3.fpNeg(qm)))
                        sign = z3.And(z3.Implies(z3.fpGT(xi, z3.FPVal(0.0, srt)), z3.fpGEQ(ci, z3.FPVal(0.0, f8))),
                                      z3.Implies(z3.fpLT(xi, z3.FPVal(0.0, srt)), z3.fpLEQ(ci, z3.FPVal(0.0, f8))))
                        mono = z3.Implies(z3.fpLEQ(xi, xj), z3.fpLEQ(ci, cj))
                        notnan = z3.And(z3.Not(z3.fpIsNaN(ci)), z3.Not(z3.fpIsInf(ci)), z3.fpLEQ(z3.fpAbs(ci), qm))
                    rp = lambda m, sd, qn=qname, dt=dtype: replay_F(m, sd, qn, dt, ("near",))
                    rp_nan = lambda m, sd, qn=qname, dt=dtype: replay_F(m, sd, qn, dt, ("nan",))
                    rp_mono = lambda m, sd, qn=qname, dt=dtype: replay_F(m, sd, qn, dt, ("monotone",))
                    # (a') bit-precise closeness: the code is within half a grid step (+ 4 ulp of the working dtype:
                    # "a few units of rounding") of the correctly rounded quotient fl(x/scale), when that lies in the grid range
                    D = z3.FPSort(11, 53)
                    yd = z3.fpToFP(z3.RNE(), yq, D)
                    cd_ = z3.fpToFP(z3.RNE(), ci, D) if qname != "qint8" else z3.fpToFP(z3.RNE(), ci, D)
                    if qname == "qint8":
                        cd_ = z3.fpSignedToFP(z3.RNE(), ci, D)
                    eps = 2.0 ** -(sym.FLOAT_DTYPES[dtype][1] - 1)
                    ay = z3.fpAbs(yd)
                    rel, absl = {"qint8": (0.0, 0.5), "qfloat8_e4m3fn": (2.0**-4, 2.0**-10), "qfloat8_e5m2": (2.0**-3, 2.0**-17)}[qname]
                    bound = z3.fpAdd(z3.RNE(), z3.fpMul(z3.RNE(), z3.FPVal(rel + 4 * eps, D), ay), z3.FPVal(absl, D))
                    inrange = z3.fpLEQ(ay, z3.FPVal(float(QMAX[qname]), D))
                    near = z3.Implies(inrange, z3.fpLEQ(z3.fpAbs(z3.fpSub(z3.RNE(), cd_, yd)), bound))
                    run.add(f"C01/F-code-near-quotient[{tag}]/path{pi}", hy, near, "property", inst, replay=rp, timeout=FT)
                    # (a'') nearest, bit-precisely: no grid value v is closer to fl(x/scale) than the code, up to 4 ulp of the working dtype
                    # (a relative bound cannot see a tie broken the wrong way, e.g. by an intermediate rounding to a narrower type)
                    if qname == "qint8":
                        vg = z3.BitVec("vgrid", 8)
                        vd_, vh = z3.fpSignedToFP(z3.RNE(), vg, D), []
                    else:
                        vg = z3.Const("vgrid", f8)
                        vd_, vh = z3.fpToFP(z3.RNE(), vg, D), [finite(vg), z3.fpLEQ(z3.fpAbs(vg), qm)]
                        if "e4m3" in qname:
                            # the F(5,4) sort is wider than e4m3fn below 2^-6: compare with the normal grid values and zero only
                            vh.append(z3.Or(z3.fpIsZero(vg), z3.fpGEQ(z3.fpAbs(vg), z3.FPVal(2.0**-6, f8))))
                    slack = z3.fpAdd(z3.RNE(), z3.fpMul(z3.RNE(), z3.FPVal(4 * eps, D), ay), z3.FPVal(2.0**-60, D))
                    nearest = z3.Implies(inrange, z3.fpLEQ(z3.fpAbs(z3.fpSub(z3.RNE(), cd_, yd)), z3.fpAdd(z3.RNE(), z3.fpAbs(z3.fpSub(z3.RNE(), vd_, yd)), slack)))
                    run.add(f"C01/F-code-is-a-nearest-grid-value[{tag}]/path{pi}", hy + vh, nearest, "property", inst, timeout=FT,
                            replay=lambda m, sd, qn=qname, dt=dtype: replay_nearest_point(m, sd, qn, dt))
                    run.add(f"C01/F-code-on-grid-not-nan[{tag}]/path{pi}", hy, notnan, "property", inst, replay=rp_nan, timeout=FT)
                    run.add(f"C01/F-saturates-high[{tag}]/path{pi}", hy, sat_hi, "property", inst, replay=rp, timeout=FT)
                    run.add(f"C01/F-saturates-low[{tag}]/path{pi}", hy, sat_lo, "property", inst, replay=rp, timeout=FT)
                    run.add(f"C01/F-sign-preserved[{tag}]/path{pi}", hy, sign, "property", inst, replay=rp, timeout=FT)
                    # (e) monotone, decomposed: (e1) the quotient is monotone in x (IEEE division by a positive finite
                    # divisor, one lemma per dtype); (e2) round/clamp/cast of the code is monotone in the quotient.
                    yj = z3.fpDiv(z3.RNE(), xj, s)
                    y1, y2 = z3.Const("y1", srt), z3.Const("y2", srt)
                    c1s = z3.substitute(ci, (yq, y1))
                    c2s = z3.substitute(cj, (yj, y2))
                    if z3.eq(c1s, ci) or z3.eq(c2s, cj):
                        # the code is not a function of fl(x/scale) in this tree: fall back to the monolithic obligation
                        run.add(f"C01/F-monotone[{tag}]/path{pi}", hy, mono, "property", inst, replay=rp_mono, timeout=FT)
                    else:
                        le = (lambda a, b: a <= b) if qname == "qint8" else z3.fpLEQ
                        run.add(f"C01/F-monotone-stage[{tag}]/path{pi}", r.hyps + [z3.Not(z3.fpIsNaN(y1)), z3.Not(z3.fpIsNaN(y2)), z3.fpLEQ(y1, y2)],
                                le(c1s, c2s), "property", inst, replay=rp_mono, timeout=FT)
                        if qname == "qint8" and light:
                            if "A-IEEE-MONO float32" not in "".join(run.assumptions):
                                run.assumptions.append("A-IEEE-MONO float32: division by a positive finite divisor is monotone in the dividend; attempted by the solvers in the thorough tier only. "
                                                       "Reduced to the IEEE-754 definition (the quotient is a representable value nearest to the real quotient) by lemmas/Arith.lean rounded_div_monotone")
                        elif qname == "qint8" and dtype == "float16" and run.tier == "quick":
                            run.assumptions.append("A-IEEE-MONO: float16 division by a positive finite divisor is monotone in the dividend "
                                                   "(correct rounding); attempted by the solvers in the thorough tier only (cvc5 > 150 s); "
                                                   "the bfloat16 instance of the same lemma is discharged in the quick tier. Independently of the bit-precise attempt the lemma is reduced "
                                                   "to the IEEE-754 definition of division (a representable value nearest to the real quotient, any tie rule) by "
                                                   "lemmas/Arith.lean nearest_monotone / rounded_div_monotone (Lean 4 + Mathlib)")
                        elif qname == "qint8":
                            a, b = z3.Const("a", srt), z3.Const("b", srt)
                            run.add(f"C01/F-division-monotone[{dtype}]", [finite(a), finite(b), finite(s), z3.fpGT(s, z3.FPVal(0.0, srt)), z3.fpLEQ(a, b)],
                                    z3.fpLEQ(z3.fpDiv(z3.RNE(), a, s), z3.fpDiv(z3.RNE(), b, s)), "property",
                                    {"dtype": dtype, "lemma": "IEEE division by a positive divisor is monotone"},
                                    timeout=120 if run.tier == "quick" else 600)
            # ---- (d) idempotence: float16 and float32 sources only (the property does not claim bfloat16)
            #      + finiteness of the dequantized value (a grid point is finite), split at |x| <= max/2 so that the
            #        known overflow at the very top of the dtype range (known finding) cannot mask anything else
            if light:
                if "float32 idempotence" not in "".join(run.not_decided):
                    run.not_decided.append("float32 idempotence / finiteness of the dequantized value, bit-precise: thorough tier only (the real-arithmetic statement is decided in both tiers)")
                continue
            prog2 = E.snippet(DRIVER_TWICE_D, SYMQ, extra)
            res2 = E.explore(prog2, setup, name="C01.F.twice")
            run.absorb(E)
            half_max = z3.FPVal(sym.FLOAT_MAX[dtype] / 2, srt)
            if run.expect_paths(res2, f"C01/F-twice[{tag}]", inst):
                for pi, r in enumerate(res2):
                    if r.outcome != "return":
                        continue
                    q, d, q2 = r.value
                    c1, c2 = q.fields["_data"].elem([i]), q2.fields["_data"].elem([i])
                    dq = d.elem([i])
                    hy = r.hyps + pre + [finite(xf(i))]
                    small = z3.fpLEQ(z3.fpAbs(xf(i)), half_max)
                    run.add(f"C01/F-dequantized-finite-moderate[{tag}]/path{pi}", hy + [small], finite(dq), "property", inst, timeout=FT,
                            replay=lambda m, sd, qn=qname, dt=dtype: replay_F(m, sd, qn, dt, ("finite-moderate",)))
                    run.add(f"C01/F-dequantized-finite-extreme[{tag}]/path{pi}", hy + [z3.Not(small)], finite(dq), "property", inst, timeout=FT,
                            replay=lambda m, sd, qn=qname, dt=dtype: replay_F(m, sd, qn, dt, ("finite-extreme",)))
                    # the dequantized value is the product scale * code rounded ONCE to the working dtype (so that it lies on the grid
                    # {scale * v} up to that single rounding): an intermediate narrower type would move it off the grid
                    pd = {"qint8": "int8", "qfloat8_e4m3fn": "float8_e4m3fn", "qfloat8_e5m2": "float8_e5m2"}[qname]
                    cw = E.alg.cast(c1, pd, dtype)
                    prod = z3.fpMul(z3.RNE(), s, cw)
                    run.add(f"C01/F-dequantized-is-the-correctly-rounded-product[{tag}]/path{pi}", hy, z3.Or(z3.fpEQ(dq, prod), z3.And(z3.fpIsNaN(dq), z3.fpIsNaN(prod))),
                            "property", inst, timeout=FT, replay=lambda m, sd, qn=qname, dt=dtype: replay_product(m, sd, qn, dt))
                    same = (c1 == c2) if qname == "qint8" else z3.Or(c1 == c2, z3.And(z3.fpIsZero(c1), z3.fpIsZero(c2)))
                    if dtype == "bfloat16":
                        continue
                    tiny = {"float16": 2.0**-14, "float32": 2.0**-126, "bfloat16": 2.0**-126}[dtype]
                    normal = z3.Or(z3.fpIsZero(dq), z3.fpGEQ(z3.fpAbs(dq), z3.FPVal(tiny, srt)))
                    run.add(f"C01/F-idempotent-normal-range[{tag}]/path{pi}", hy + [finite(dq), normal], same, "property", inst, timeout=FT,
                            replay=lambda m, sd, qn=qname, dt=dtype: replay_point(m, sd, qn, dt, "normal"))
                    run.add(f"C01/F-idempotent-subnormal-range[{tag}]/path{pi}", hy + [finite(dq), z3.Not(normal)], same, "property", inst, timeout=FT,
                            replay=lambda m, sd, qn=qname, dt=dtype: replay_point(m, sd, qn, dt, "subnormal"))


def build(run):
    from props import conformance

    conformance.run_conformance(run, ['symmetric'])
    run.assume("A-ENGINE qvc VC generator + z3/cvc5", "A-PY python semantics subset",
               "A-REAL (R algebra only: float arithmetic treated as real arithmetic for the nearest / axis clauses)",
               "A-TORCH-EW point-wise ops, promotion, round = RNE, clamp, casts (float->int8 RTZ; float->float8 = RNE onto the grid)",
               "A-TORCH-DISPATCH autograd.Function.apply runs forward; _make_wrapper_subclass reports the given size/stride/dtype")
    run.assumptions += [
        "nearest (a) and axis (c) clauses are proved over the reals (A-REAL); the float-specific clauses (saturation, no wrap, sign, "
        "monotone, idempotence) are proved bit-precisely in SMT FloatingPoint for float16/bfloat16 (float32 in the thorough tier)",
        "cast to float8 is round-to-nearest-even onto the type's grid (assumed contract on torch; probed natively on all 2^16 fp16 inputs by the conformance step)",
        "ranks 1..4 (finite split); dimensions >= 1",
    ]
    run.not_decided += ["'up to a few units of rounding' as a numeric ulp bound (R proves nearest with zero slack; F proves faithful/monotone/idempotent)",
                        "ranks > 4"]
    E0 = run.engine()
    for k in (f"{SYMQ}::SymmetricQuantizer.forward", f"{QBYTES}::QBytesDequantizer.forward", f"{QBYTES}::QBytesTensor.__new__",
              f"{QBYTES}::QBytesTensor.__init__", f"{QBYTES}::QBytesTensor.dequantize", f"{QACT}::quantize_activation", f"{CORE}::dtype_info"):
        run.under_contract(E0, k)
    for part in (part_R, part_fresh, part_F):
        try:
            part(run)
        except Unsupported as u:
            run.undecide(f"C01/{part.__name__}", f"unsupported: {u}")
    from qvc import lib
    lib.lean_lemmas(run, ["nearest_monotone", "rounded_div_monotone"])


# ------------------------------------------------------------------------------------------------ native replay
def _grid(qname):
    import torch
    if qname == "qint8":
        return torch.arange(-128, 128, dtype=torch.float64)
    dt = torch.float8_e4m3fn if "e4m3" in qname else torch.float8_e5m2
    allb = torch.arange(0, 256, dtype=torch.int32).to(torch.uint8).view(dt).to(torch.float64)
    return allb[torch.isfinite(allb)].unique()


def native_check(x, scale, qname, axis):
    """Property statement on real tensors: each dequantized element is a grid point closest to x (few ulps slack)."""
    import torch
    from optimum.quanto import qtypes
    from optimum.quanto.tensor.quantizers import SymmetricQuantizer

    q = SymmetricQuantizer.apply(x, qtypes[qname], axis, scale)
    d = q.dequantize()
    g = _grid(qname)
    s64 = scale.to(torch.float64).expand_as(x) if scale.ndim else scale.to(torch.float64)
    y = x.to(torch.float64) / s64
    best = (g.view(*([1] * x.ndim), -1) - y.unsqueeze(-1)).abs().min(-1).values
    got = (d.to(torch.float64) / s64 - y).abs()
    eps = torch.finfo(x.dtype).eps
    bad = ~(got <= best + 4 * eps * (y.abs() + 1)) | ~torch.isfinite(d)
    if bad.any():
        k = bad.nonzero()[0].tolist()
        return {"index": k, "x": x[tuple(k)].item(), "deq": d[tuple(k)].item(), "qtype": qname, "axis": axis,
                "what": "dequantized value is not a closest grid point"}
    return None


def replay_nearest(model, seed, qname, axis, rank, expanded=False):
    import torch
    torch.manual_seed(seed)
    shape = [3, 4, 2, 5][:rank]
    for dt in (torch.float32, torch.float16, torch.bfloat16):
        for trial in range(20):
            x = (torch.randn(shape) * (10 ** torch.randint(-3, 3, (1,)).item())).to(dt)
            if expanded:
                x = x[:, :1].expand(*shape)      # a broadcast source (stride 0 along the last dimension)
            if axis is None:
                sc = (x.abs().max() / (127 * (1 + trial % 3))).to(dt)
            else:
                if rank == 1:
                    continue
                dims = [k for k in range(rank) if k != axis % rank]
                sc = (x.abs().amax(dim=dims, keepdim=True) / (100 + trial)).to(dt)
            if not bool((sc > 0).all()):
                continue
            try:
                r = native_check(x, sc, qname, axis)
            except ValueError:
                continue
            except Exception as e:
                return {"raised": repr(e), "qtype": qname, "axis": axis, "shape": shape}
            if r:
                r["dtype"] = str(dt)
                return r
    return None


def replay_F(model, seed, qname, dtype, clauses=("nan", "near", "monotone", "finite-moderate", "finite-extreme", "idempotent")):
    """Exhaustive native sweep of one scale over all 2^16 values for the 16-bit dtypes (seeded scales); `clauses` selects what is compared."""
    import torch
    from optimum.quanto import qtypes
    from optimum.quanto.tensor.quantizers import SymmetricQuantizer

    dt = {"float16": torch.float16, "bfloat16": torch.bfloat16, "float32": torch.float32}[dtype]
    torch.manual_seed(seed)
    if dt == torch.float32:
        xs = torch.randn(1 << 16) * 1000
    else:
        xs = torch.arange(0, 1 << 16, dtype=torch.int32).to(torch.int16).view(dt)
        xs = xs[torch.isfinite(xs)]
    xs = xs.sort().values
    scales = [torch.tensor(v, dtype=dt) for v in (1.0, 0.37, 3e-3, 513.0, 6e-5, 2.0**-20, 1e-7)] + [torch.rand(()).to(dt) * 10 for _ in range(4)]
    for sc in scales:
        if not (sc > 0 and torch.isfinite(sc)):
            continue
        q = SymmetricQuantizer.apply(xs, qtypes[qname], None, sc)
        codes = q._data.to(torch.float32)
        if "nan" in clauses and torch.isnan(codes).any():
            k = int(torch.isnan(codes).nonzero()[0])
            return {"x": xs[k].item(), "scale": sc.item(), "what": "NaN code", "qtype": qname, "dtype": dtype}
        yq = (xs / sc).to(torch.float64)
        rel, absl = {"qint8": (0.0, 0.5), "qfloat8_e4m3fn": (2.0**-4, 2.0**-10), "qfloat8_e5m2": (2.0**-3, 2.0**-17)}[qname]
        eps = torch.finfo(dt).eps
        far = (yq.abs() <= QMAX[qname]) & ((codes.to(torch.float64) - yq).abs() > (rel + 4 * eps) * yq.abs() + absl)
        if "near" in clauses and far.any():
            k = int(far.nonzero()[0])
            return {"x": xs[k].item(), "scale": sc.item(), "code": codes[k].item(), "quotient": yq[k].item(),
                    "what": "code is further than half a grid step (+4 ulp) from x/scale", "qtype": qname, "dtype": dtype}
        if "monotone" in clauses and (codes[1:] < codes[:-1]).any():
            k = int((codes[1:] < codes[:-1]).nonzero()[0])
            return {"x": [xs[k].item(), xs[k + 1].item()], "scale": sc.item(), "what": "not monotone", "qtype": qname, "dtype": dtype}
        dq = q.dequantize()
        moderate = xs.abs() <= torch.finfo(dt).max / 2
        badf = ~torch.isfinite(dq) & ((moderate if "finite-moderate" in clauses else torch.zeros_like(moderate)) | (~moderate if "finite-extreme" in clauses else torch.zeros_like(moderate)))
        if badf.any():
            k = int(badf.nonzero()[0])
            return {"x": xs[k].item(), "scale": sc.item(), "deq": dq[k].item(), "what": "dequantized value is not finite", "qtype": qname, "dtype": dtype}
        if "idempotent" in clauses and dtype != "bfloat16" and torch.isfinite(dq).all():
            q2 = SymmetricQuantizer.apply(dq, qtypes[qname], None, sc)
            diff = q2._data.to(torch.float32) != codes
            if diff.any():
                k = int(diff.nonzero()[0])
                return {"x": xs[k].item(), "scale": sc.item(), "code": codes[k].item(), "code2": q2._data.to(torch.float32)[k].item(),
                        "what": "requantization changes the code", "qtype": qname, "dtype": dtype}
    return None


def replay_fresh_deq(model, seed, qname):
    import torch
    from optimum.quanto import qtypes
    from optimum.quanto.tensor.quantizers import SymmetricQuantizer

    torch.manual_seed(seed)
    x = torch.randn(3, 4)
    q = SymmetricQuantizer.apply(x, qtypes[qname], None, torch.tensor(0.05))
    for grad in (True, False):
        with torch.set_grad_enabled(grad):
            y = q.dequantize()
            want = y.clone()
            y += 1.0
            z = q.dequantize()
        if not torch.equal(z, want):
            return {"what": "modifying the result of dequantize() in place changes what the next dequantize() returns", "grad_enabled": grad, "qtype": qname,
                    "max_abs_diff": (z - want).abs().max().item()}
    return None


def replay_given_scale(model, seed, qname, axis, rank, entry):
    """The returned tensor carries exactly the scale it was given - also tiny (subnormal) and huge ones."""
    import torch
    from optimum.quanto import qtypes, quantize_activation
    from optimum.quanto.tensor.quantizers import SymmetricQuantizer

    torch.manual_seed(seed)
    shape = [3, 4, 2, 2][:rank]
    for dt in (torch.float32, torch.float16, torch.bfloat16):
        fi = torch.finfo(dt)
        for sv in (0.37, fi.tiny / 8, fi.tiny * fi.eps * 4, fi.max / 1024):
            x = torch.randn(shape).to(dt if entry != "activation-mixed-dtypes" else torch.float16)
            if axis is None:
                sc = torch.tensor(sv if entry != "activation-mixed-dtypes" else 2.0 ** -20 * 1.37, dtype=dt)
            else:
                ss = [1] * rank
                ss[axis % rank] = shape[axis % rank]
                sc = torch.full(ss, sv, dtype=dt)
            if not (sc > 0).all() or not torch.isfinite(sc).all():
                continue
            try:
                q = quantize_activation(x, qtypes[qname], sc) if entry.startswith("activation") else SymmetricQuantizer.apply(x, qtypes[qname], axis, sc)
            except ValueError:
                continue
            if tuple(q._scale.shape) != tuple(sc.shape) or q._scale.dtype != sc.dtype or not torch.equal(q._scale, sc):
                return {"what": "the quantized tensor does not carry the scale it was given", "given": sc.flatten()[0].item(), "carried": q._scale.flatten()[0].item(),
                        "dtype": str(dt), "qtype": qname, "entry": entry}
    return None


def replay_nearest_point(model, seed, qname, dtype):
    """Replay the solver's counter-model (x, scale) of the nearest-grid-value clause on the real code: is some grid value closer to
    fl(x/scale) than the produced code (beyond 4 ulp of the working dtype)?  Falls back to the sweep oracle."""
    import torch
    from optimum.quanto import qtypes
    from optimum.quanto.tensor.quantizers import SymmetricQuantizer
    from qvc.lib import model_values

    eb, sb = sym.FLOAT_DTYPES[dtype]
    vals = model_values(model, ["X", "S"], eb, sb)
    dt = {"float16": torch.float16, "bfloat16": torch.bfloat16, "float32": torch.float32}[dtype]
    qt = qtypes[qname]
    if qt.is_floating_point:
        grid = torch.arange(0, 256, dtype=torch.int32).to(torch.uint8).view(qt.dtype).to(torch.float64)
        grid = grid[torch.isfinite(grid)]
    else:
        grid = torch.arange(-128, 128, dtype=torch.float64)
    if vals.get("X") is not None and vals.get("S") is not None:
        x = torch.tensor([vals["X"]], dtype=dt)
        sc = torch.tensor(vals["S"], dtype=dt)
        if torch.isfinite(x).all() and torch.isfinite(sc) and sc > 0:
            q = SymmetricQuantizer.apply(x, qt, None, sc)
            code = q._data.to(torch.float64)
            y = (x / sc).to(torch.float64)
            if torch.isfinite(y).all() and y.abs().item() <= QMAX[qname]:
                best = (grid - y).abs().min()
                eps = torch.finfo(dt).eps
                if (code - y).abs().item() > best.item() + 4 * eps * y.abs().item() + 2.0**-60:
                    return {"x": x.item(), "scale": sc.item(), "quotient": y.item(), "code": code.item(), "closest_grid_value": grid[(grid - y).abs().argmin()].item(),
                            "qtype": qname, "dtype": dtype, "what": "the code is not a nearest grid value of x/scale"}
    return replay_F(model, seed, qname, dtype, ("near",))


def replay_product(model, seed, qname, dtype):
    """dequantize() == scale * code rounded once to the working dtype, per-tensor scales (exhaustive over the codes, several scales)."""
    import torch
    from optimum.quanto import qtypes
    from optimum.quanto.tensor.qbytes import QBytesTensor

    dt = {"float16": torch.float16, "bfloat16": torch.bfloat16, "float32": torch.float32}[dtype]
    qt = qtypes[qname]
    codes = torch.arange(0, 256, dtype=torch.int32).to(torch.uint8).view(qt.dtype)
    if qt.is_floating_point:
        codes = codes[torch.isfinite(codes.to(torch.float32))]
    torch.manual_seed(seed)
    for sv in (0.37, 3e-3, 1.0, 0.0123, 7.77):
        sc = torch.tensor(sv, dtype=dt)
        q = QBytesTensor(qt, None, codes.size(), codes.stride(), codes, sc)
        d = q.dequantize()
        want = (sc.to(torch.float64) * codes.to(torch.float64)).to(dt)
        bad = d != want
        if bad.any():
            k = int(bad.nonzero()[0])
            return {"scale": sc.item(), "code": codes[k].to(torch.float32).item(), "dequantized": d[k].item(), "scale_times_code_rounded_once": want[k].item(),
                    "qtype": qname, "dtype": dtype, "what": "the dequantized value is not scale*code rounded once to the working dtype"}
    return None


def replay_point(model, seed, qname, dtype, rng="any"):
    """Replay exactly the solver's counter-model (x, scale) for the idempotence clause on the real code; rng = 'normal' / 'subnormal' /
    'any' restricts to dequantized values in that range of the dtype (the two ranges are separate obligations)."""
    import torch
    from optimum.quanto import qtypes
    from optimum.quanto.tensor.quantizers import SymmetricQuantizer
    from qvc.lib import model_values

    eb, sb = sym.FLOAT_DTYPES[dtype]
    vals = model_values(model, ["X", "S"], eb, sb)
    dt = {"float16": torch.float16, "bfloat16": torch.bfloat16, "float32": torch.float32}[dtype]
    cands = []
    if vals.get("X") is not None and vals.get("S") is not None:
        cands.append((vals["X"], vals["S"]))
    u = {"float16": 2.0**-24, "float32": 2.0**-149, "bfloat16": 2.0**-133}[dtype]
    cands += [(-15 * u, 464 * u), (5 * u, 576 * u)]
    for xv, sv in cands:
        x = torch.tensor([xv], dtype=dt)
        sc = torch.tensor(sv, dtype=dt)
        if not (torch.isfinite(x).all() and torch.isfinite(sc) and sc > 0):
            continue
        q = SymmetricQuantizer.apply(x, qtypes[qname], None, sc)
        d = q.dequantize()
        if not torch.isfinite(d).all():
            continue
        is_normal = bool((d == 0).all() or (d.abs() >= torch.finfo(dt).tiny).all())
        if (rng == "normal" and not is_normal) or (rng == "subnormal" and is_normal):
            continue
        q2 = SymmetricQuantizer.apply(d, qtypes[qname], None, sc)
        a, b = q._data.to(torch.float32), q2._data.to(torch.float32)
        if not torch.equal(a, b):
            return {"x": x.item(), "scale": sc.item(), "code": a.item(), "dequantized": d.item(), "code_after_requantization": b.item(),
                    "qtype": qname, "dtype": dtype, "what": "requantizing the dequantized tensor with the same scale changes the code"}
    return None


def replay_file(path):
    import json
    rec = json.load(open(path))
    inst = rec["instance"]
    if inst.get("algebra") == "F":
        r = replay_F(rec.get("model") or {}, rec.get("seed", 0), inst["qtype"], inst["dtype"])
    else:
        r = replay_nearest(rec.get("model") or {}, rec.get("seed", 0), inst["qtype"], inst.get("axis"), inst.get("rank", 2))
    print(json.dumps(r, indent=1, default=str))
    return 1 if r else 0
