"""C13 - calibration is scoped; inference and quantization are free of side effects (DESIGN 6.13).

Scoping: contracts over the with-protocol with the three registries named by the property as ghost state (A-TORCH-NN:
register_* adds one entry and returns its handle, handle.remove() deletes exactly it, TorchFunctionMode.__enter__/__exit__ push/pop).
Frames: `modifies = []` obligations from the executor's write log (attribute stores, tensor stores, in-place methods).
"""
import z3

from contracts import group as CG
from contracts import packed as CP
from props import ops_common as OC
from qvc import lib
from qvc.lib import zi
from qvc.sym import Unsupported
from qvc.tm_tensor import is_wrapper, new_input
from qvc.torchmodel import TFMODE_CLS
from qvc.values import Builtin, ExtClass, Obj, STensor

CAL = "optimum/quanto/calibrate.py"
OPS = "optimum/quanto/library/ops.py"
QMOD = "optimum/quanto/nn/qmodule.py"
QLIN = "optimum/quanto/nn/qlinear.py"
QCONV = "optimum/quanto/nn/qconv2d.py"
QLN = "optimum/quanto/nn/qlayernorm.py"
QW = "optimum/quanto/tensor/qweight.py"
QACT = "optimum/quanto/tensor/qactivation.py"
QUANT = "optimum/quanto/quantize.py"


def install_registries(E):
    """Assumed contracts on PyTorch's global hook registries and torch-function mode stack."""
    HANDLE = ExtClass("RemovableHandle")

    def reg(kind):
        def f(E2, fn, **kw):
            regs = E2.ps.setdefault("registries", {"pre": [], "post": [], "modes": []})
            h = Obj(HANDLE)
            entry = (h.oid, fn)
            regs[kind].append(entry)

            def remove(E3, self=None):
                rr = E3.ps["registries"][kind]
                for k, e in enumerate(rr):
                    if e[0] == h.oid:
                        del rr[k]
                        break
            h.fields["remove"] = Builtin("handle.remove", remove)
            return h
        return Builtin(f"register_{kind}", f)

    E.models["torch.nn.modules.module.register_module_forward_pre_hook"] = reg("pre")
    E.models["torch.nn.modules.module.register_module_forward_hook"] = reg("post")

    def mode_enter(E2, self):
        E2.ps.setdefault("registries", {"pre": [], "post": [], "modes": []})["modes"].append(self.oid)
        return self

    def mode_exit(E2, self, et=None, ev=None, tb=None):
        st = E2.ps.setdefault("registries", {"pre": [], "post": [], "modes": []})["modes"]
        if st and st[-1] == self.oid:
            st.pop()
        else:
            st.append(("corrupt-pop", self.oid))
        return None

    TFMODE_CLS.ns["__enter__"] = Builtin("TorchFunctionMode.__enter__", mode_enter)
    TFMODE_CLS.ns["__exit__"] = Builtin("TorchFunctionMode.__exit__", mode_exit)


SCENARIOS = {
    "same-object-entered-twice": """
def prog(pre):
    c = Calibration(streamline=S)
    with c:
        probe()
    with c:
        probe()
    return "done"
""",
    "constructed-not-entered": """
def prog(pre):
    c = Calibration(streamline=S)
    return "done"
""",
    "constructed-earlier-entered-later": """
def prog(pre):
    c = Calibration(streamline=S)
    d = Calibration(momentum=0.5, streamline=S)
    with c:
        probe()
        pass
    return "done"
""",
    "normal": """
def prog(pre):
    with Calibration(streamline=S):
        probe()
        pass
    return "done"
""",
    "exception": """
def prog(pre):
    with Calibration(streamline=S):
        probe()
        raise RuntimeError("raised inside a forward")
    return "done"
""",
    "nested-inner-exception": """
def prog(pre):
    with Calibration(streamline=S):
        probe()
        try:
            with Calibration(momentum=0.5, streamline=S):
                probe()
                raise RuntimeError("raised inside a forward")
        except RuntimeError:
            pass
    return "done"
""",
    "nested-outer-exception": """
def prog(pre):
    with Calibration(streamline=S):
        probe()
        with Calibration(momentum=0.5, streamline=S):
            probe()
            pass
        raise ValueError("raised after the inner context")
    return "done"
""",
    "sequential": """
def prog(pre):
    with Calibration(streamline=S):
        probe()
        pass
    try:
        with Calibration(streamline=S):
            probe()
            raise RuntimeError("x")
    except RuntimeError:
        pass
    with Calibration(streamline=S):
        probe()
        pass
    return "done"
""",
}


def scoping(run):
    for name, src in SCENARIOS.items():
        for streamline in (True, False):
            inst = {"lemma": "scoping", "scenario": name, "streamline": streamline}
            run.count_instance(scenario=name, streamline=streamline)
            E = OC.engine(run)
            install_registries(E)
            E.load_module(CAL)
            def probe(E2):
                regs_ = E2.ps.get("registries", {})
                E2.ps.setdefault("probes", []).append((len(regs_.get("pre", [])), len(regs_.get("post", [])), len(regs_.get("modes", []))))

            prog = E.snippet(src.replace("S)", f"{streamline})"), CAL, {"probe": Builtin("probe", probe)})
            state = {}

            def setup(E2):
                regs = E2.ps.setdefault("registries", {"pre": [], "post": [], "modes": []})
                # registries are not empty to start with: somebody else's hooks and an outer mode must survive
                regs["pre"].append(("other-pre", "hook0"))
                regs["post"].append(("other-post", "hook1"))
                regs["modes"].append("outer-mode")
                return [None], {}

            try:
                res = E.explore(prog, setup, name="C13.scoping")
            except Unsupported as u:
                run.undecide(f"C13/scoping[{name}]", u, inst)
                continue
            run.absorb(E)
            tag = f"{name}/streamline={streamline}"
            if not run.expect_paths(res, f"C13/scoping[{tag}]", inst):
                continue
            rp = lambda m, s, i=dict(inst): replay_scoping(m, s, i)
            for pi, r in enumerate(res):
                regs = r.ps.get("registries", {})
                restored = (regs.get("pre") == [("other-pre", "hook0")] and regs.get("post") == [("other-post", "hook1")] and regs.get("modes") == ["outer-mode"])
                run.add(f"C13/registries-restored[{tag}]/path{pi}", r.hyps, z3.BoolVal(bool(restored)), "property", inst,
                        {"after": {k: [str(x) for x in v] for k, v in regs.items()}}, replay=rp)
                probes = r.ps.get("probes", [])
                active = bool(probes) and all(p_[0] >= 2 and p_[1] >= 2 and p_[2] >= 2 for p_ in probes)
                if name != "constructed-not-entered":
                    run.add(f"C13/calibration-is-active-inside-every-context[{tag}]/path{pi}", r.hyps, z3.BoolVal(active), "property", inst,
                            {"registered (pre, post, modes) at each probe; 1 of each is somebody else's": probes}, replay=rp)
                expect_exc = {"exception": "RuntimeError", "nested-outer-exception": "ValueError"}.get(name)
                if expect_exc:
                    ok = r.outcome == "raise" and r.value.tname == expect_exc
                else:
                    ok = r.outcome == "return" and r.value == "done"
                run.add(f"C13/exit-is-exception-neutral[{tag}]/path{pi}", r.hyps, z3.BoolVal(bool(ok)), "property", inst,
                        {"outcome": r.outcome, "value": repr(r.value)[:200]}, replay=rp)


def ext_switch(run):
    """disable_extensions: the switch is on again after the block on every outcome."""
    for name, body in (("normal", "pass"), ("exception", "raise RuntimeError('x')")):
        inst = {"lemma": "disable_extensions", "scenario": name}
        E = OC.engine(run)
        E.load_module(OPS)
        src = f"""
def prog():
    with disable_extensions():
        {body}
"""
        prog = E.snippet(src, OPS)
        res = E.explore(prog, lambda E2: ([], {}), name="C13.ext")
        run.absorb(E)
        for pi, r in enumerate(res):
            if r.outcome == "unsupported":
                run.undecide(f"C13/disable_extensions[{name}]", r.value, inst)
                continue
            on = E.load_module(OPS).env.vars.get("_ext_enabled")
            run.add(f"C13/extensions-enabled-after-block[{name}]/path{pi}", r.hyps, z3.BoolVal(on is True), "property", inst)
        E.load_module(OPS).env.vars["_ext_enabled"] = True


def freeze_inputs(mod):
    """Mark everything reachable from a module as pre-existing (not allocated by the function under check)."""
    mod.fresh = False
    for v in mod.fields.values():
        if isinstance(v, STensor):
            v.fresh = False
            v.root().fresh = False
        elif is_wrapper(v):
            v.fresh = False
            for w in v.fields.values():
                if isinstance(w, STensor):
                    w.fresh = False


def writes_to_preexisting(r, allowed=()):
    bad = []
    for w in r.writes:
        kind, target = w[0], w[1]
        if kind == "attr" and isinstance(target, Obj) and not target.fresh and (target.oid, w[2]) not in allowed:
            bad.append(f"attribute store {target.cls.name}.{w[2]} at {w[4]}")
        elif kind == "tensor" and isinstance(target, STensor) and not target.fresh:
            bad.append(f"in-place tensor write to {target.name} at {w[4]}")
        elif kind == "tensor" and isinstance(target, STensor) and isinstance(target.root().attrs.get("may_alias"), STensor) and not target.root().attrs["may_alias"].fresh:
            bad.append(f"in-place tensor write to {target.name}, which may be a view of {target.root().attrs['may_alias'].name}, at {w[4]}")
        elif kind == "global":
            bad.append(f"global store {w[2]} at {w[4]}")
        elif kind == "tensor-attr" and not target.fresh:
            bad.append(f"attribute store on tensor {target.name}.{w[2]} at {w[4]}")
    return bad


def quantize_frame(run):
    """quantize(model) never modifies the float tensors it reads: over module trees, no in-place write, attribute store or storage
    swap on a tensor that existed before the call (module attribute stores - the in-place replacement - are its purpose)."""
    from props import C08
    from qvc.nnmodel import named_modules

    for act in (None, "qint8"):
        for weights in ("qint8", "qint4"):
            E0 = C08.engine(run)
            names = [n for n, _ in C08.trees(E0)]
            for tname in names:
                if run.tier == "quick" and weights == "qint4" and tname not in ("flat", "derived-classes"):
                    continue
                inst = {"lemma": "quantize() frame", "tree": tname, "weights": weights, "activations": act}
                run.count_instance(**{"qframe_tree": tname, "qframe_w": weights, "qframe_act": act})
                E = C08.engine(run)
                qz = E.get(f"{QUANT}::quantize")

                def prog(E2, tname=tname, act=act, weights=weights):
                    model = dict(C08.trees(E2))[tname]()
                    mods = named_modules(E2, model)
                    pre = []
                    for n, m in mods:
                        for k, v in list(m.fields.items()) + list((m.fields.get("_parameters") or {}).items() if isinstance(m.fields.get("_parameters"), dict) else []):
                            if isinstance(v, STensor):
                                v.fresh = False
                                v.root().fresh = False
                                pre.append((f"{n}.{k}", v, list(v.shape), v.root().attrs.get("_version", 0)))
                    qt = E2.load_module(OC.QTYPE).env.lookup
                    nw = len(E2.writes)
                    E2.call(qz, [model], {"weights": qt(weights), "activations": qt(act) if act else None})
                    return pre, list(E2.writes[nw:])

                tag = f"{tname}/w={weights}/a={act}"
                try:
                    res = E.explore(Builtin("qframe", prog), lambda E2: ([], {}), name="C13.quantize-frame")
                except Unsupported as u:
                    run.undecide(f"C13/quantize-frame[{tag}]", u, inst)
                    continue
                run.absorb(E)
                if not run.expect_paths(res, f"C13/quantize-frame[{tag}]", inst):
                    continue
                rp = lambda m, s, i=dict(inst): replay_quantize_frame(m, s, i)
                for pi, r in enumerate(res):
                    if r.outcome != "return":
                        continue   # C08's business
                    pre, ws = r.value
                    bad = []
                    for w in ws:
                        kind, target = w[0], w[1]
                        if kind == "tensor" and isinstance(target, STensor) and not target.root().fresh:
                            bad.append(f"in-place tensor write to {target.name} at {w[4]}")
                        elif kind == "tensor-attr" and isinstance(target, STensor) and not target.root().fresh:
                            bad.append(f"attribute store on tensor {target.name}.{w[2]} at {w[4]}")
                    run.add(f"C13/quantize-writes-no-preexisting-tensor[{tag}]/path{pi}", r.hyps, z3.BoolVal(not bad), "property", inst, {"writes": bad[:5]}, replay=rp)
                    same = all(lib_shape_same(v.shape, shp) and v.root().attrs.get("_version", 0) == ver for _, v, shp, ver in pre)
                    run.add(f"C13/quantize-keeps-shape-and-version-of-float-tensors[{tag}]/path{pi}", r.hyps, z3.BoolVal(bool(same)), "property", inst, replay=rp)
                    run.add(f"C13/quantize-frame-nonvacuous[{tag}]/path{pi}", r.hyps, z3.BoolVal(len(pre) >= 2), "side", inst)


def lib_shape_same(a, b):
    return len(a) == len(b) and all((x is y) or (z3.is_expr(x) and z3.is_expr(y) and x.eq(y)) or (not z3.is_expr(x) and not z3.is_expr(y) and x == y) for x, y in zip(a, b))


def replay_quantize_frame(model, seed, inst):
    import torch
    from torch import nn
    from optimum.quanto import qtypes, quantize

    torch.manual_seed(seed)
    emb = nn.Embedding(16, 8)
    head = nn.Linear(8, 16, bias=False)
    head.weight = emb.weight     # tied weights: the float Parameter is still referenced after the Linear is replaced
    conv = nn.Conv2d(2, 2, 1)
    ln = nn.LayerNorm(8)
    model_ = nn.Sequential(emb, ln, head)
    keep = {"emb.weight": emb.weight, "conv.weight": conv.weight, "conv.bias": conv.bias, "ln.weight": ln.weight}
    other = nn.Sequential(conv)
    before = {k: (v.detach().clone(), v._version) for k, v in keep.items()}
    act = qtypes[inst["activations"]] if inst["activations"] else None
    for m_ in (model_, other):
        quantize(m_, weights=qtypes[inst["weights"]], activations=act)
    for k, v in keep.items():
        b, ver = before[k]
        if tuple(v.shape) != tuple(b.shape) or not torch.equal(v.detach(), b):
            return {"what": f"quantize() modified the float tensor {k} it read", "shape_before": list(b.shape), "shape_after": list(v.shape)}
    return None



def frames(run):
    qt = lambda E, n: E.load_module(OC.QTYPE).env.lookup(n)
    # ---- modules: forward / qweight / freeze
    for kind in ("linear", "conv2d", "layernorm"):
        for weights in ("qint8", "qint4", "qfloat8_e4m3fn"):
            for act in (None, "qint8"):
                for frozen in (False, True):
                    for inp in ("float", "quantized", "float16"):
                        if kind == "layernorm" and (act is None or weights != "qint8"):
                            continue
                        if inp == "float16" and (act is None or kind != "linear" or weights != "qint8"):
                            continue   # an input of another float dtype than the module (mixed precision): activation-quantized Linear
                        if run.tier == "quick" and kind != "linear" and (weights == "qfloat8_e4m3fn" or inp == "quantized"):
                            continue
                        if inp == "quantized" and act is None:
                            continue
                        inst = {"lemma": "frame", "module": kind, "weights": weights, "activations": act, "frozen": frozen, "input": inp}
                        run.count_instance(**{"frame_module": kind, "frame_weights": weights, "frame_act": act, "frame_frozen": frozen})
                        E = OC.engine(run)
                        for m in (QLIN, QCONV, QLN, "optimum/quanto/library/__init__.py", OC.QFUNC):
                            E.load_module(m)
                        F, O, B = z3.Ints("F O B")

                        def prog(E2, kind=kind, weights=weights, act=act, frozen=frozen, inp=inp):
                            for v in (F, O, B):
                                E2.assume(v >= 1)
                            kw = {"weights": qt(E2, weights) if kind != "layernorm" else None, "activations": qt(E2, act) if act else None}
                            if kind == "linear":
                                mod = E2.call(E2.get(f"{QLIN}::QLinear"), [F, O], kw)
                                xs = [B, F]
                            elif kind == "conv2d":
                                mod = E2.call(E2.get(f"{QCONV}::QConv2d"), [F, O, 1], kw)
                                xs = [B, F, 2, 2]
                            else:
                                mod = E2.call(E2.get(f"{QLN}::QLayerNorm"), [(F,)], kw)
                                xs = [B, F]
                            if frozen:
                                E2.call(E2.getattr(mod, "freeze"), [], {})
                            freeze_inputs(mod)
                            if inp in ("float", "float16"):
                                x = new_input(E2, "X", "float32" if inp == "float" else "float16", xs)
                            else:
                                h = OC.H(E2, act, None)
                                x = h.q(xs, name="X")
                                x.fresh = False
                            nw = len(E2.writes)
                            snap = {k: v for k, v in mod.fields.items()}
                            out1 = E2.call(E2.getattr(mod, "forward"), [x], {})
                            E2.ps["fwd_out"] = out1
                            w1 = list(E2.writes[nw:])
                            nw = len(E2.writes)
                            qw = E2.getattr(mod, "qweight")
                            w2 = list(E2.writes[nw:])
                            # in-place arithmetic on the returned activation (h *= 0.5 after a layer): must stay local to the result
                            w3 = None
                            if is_wrapper(out1):
                                nw = len(E2.writes)
                                from qvc.interp import RaiseEx
                                from qvc.tm_tensor import call_aten
                                from qvc.values import AtenOp
                                try:
                                    call_aten(E2, AtenOp("mul_"), [out1, 0.5], {})
                                    w3 = list(E2.writes[nw:])
                                except RaiseEx:
                                    w3 = None
                            E2.ps["w3"] = w3
                            return mod, snap, w1, w2

                        try:
                            res = E.explore(Builtin("frames", prog), lambda E2: ([], {}), name="C13.frames")
                        except Unsupported as u:
                            run.undecide(f"C13/frame[{kind}/{weights}/{act}/{frozen}/{inp}]", u, inst)
                            continue
                        run.absorb(E)
                        tag = f"{kind}/w={weights}/a={act}/{'frozen' if frozen else 'unfrozen'}/{inp}"
                        if not run.expect_paths(res, f"C13/frame[{tag}]", inst):
                            continue
                        rp = lambda m, s, i=dict(inst): replay_frames(m, s, i)
                        for pi, r in enumerate(res):
                            if r.outcome != "return":
                                # a forward that raises is C05/C08's business; nothing is claimed about its frame
                                continue
                            mod, snap, w1, w2 = r.value

                            class R_:
                                pass
                            r1, r2 = R_(), R_()
                            r1.writes, r2.writes = w1, w2
                            b1, b2 = writes_to_preexisting(r1), writes_to_preexisting(r2)
                            run.add(f"C13/forward-writes-nothing[{tag}]/path{pi}", r.hyps, z3.BoolVal(not b1), "property", inst, {"writes": b1[:5]}, replay=rp)
                            run.add(f"C13/qweight-writes-nothing[{tag}]/path{pi}", r.hyps, z3.BoolVal(not b2), "property", inst, {"writes": b2[:5]}, replay=rp)
                            same = all(mod.fields.get(k) is v for k, v in snap.items())
                            run.add(f"C13/module-state-unchanged-by-forward[{tag}]/path{pi}", r.hyps, z3.BoolVal(bool(same)), "property", inst, replay=rp)
                            w3 = r.ps.get("w3")
                            if w3 is not None:
                                r3 = R_()
                                r3.writes = w3
                                b3 = writes_to_preexisting(r3)
                                run.add(f"C13/in-place-arithmetic-on-the-result-writes-no-module-state[{tag}]/path{pi}", r.hyps, z3.BoolVal(not b3), "property", inst, {"writes": b3[:5]},
                                        replay=lambda m, s, i=dict(inst): replay_result_inplace(m, s, i))
                            # the returned activation must not be a handle on the module's state: copy_ / in-place ops on a result write its
                            # codes and scale in place, and would then rewrite a calibrated buffer
                            out1 = r.ps.get("fwd_out")
                            if is_wrapper(out1):
                                own = {id(v.root()): k for k, v in mod.fields.items() if isinstance(v, STensor)}
                                own.update({id(v.root()): f"_buffers.{k}" for k, v in (mod.fields.get("_buffers") or {}).items() if isinstance(v, STensor)})
                                shared = sorted({f"result.{fo} is module.{own[id(t.root())]}" for fo, t in out1.fields.items() if isinstance(t, STensor) and id(t.root()) in own})
                                run.add(f"C13/result-aliases-module-state/forward-result-shares-no-storage-with-the-module[{tag}]/path{pi}", r.hyps, z3.BoolVal(not shared), "property", inst,
                                        {"shared": shared}, replay=lambda m, s, i=dict(inst): replay_result_alias(m, s, i))
    # ---- library entry points: quantize_weight / quantize_activation never modify the float tensors they read
    for fn, qnames in (("quantize_weight", ("qint8", "qfloat8_e4m3fn", "qint4", "qint2")), ("quantize_activation", ("qint8", "qfloat8_e5m2"))):
        for qn in qnames:
            for grouped, axis in [(g_, a_) for g_ in ((False, True) if qn in ("qint4", "qint2") else (False,)) for a_ in ((0, -1) if fn == "quantize_weight" else (0,))]:
                inst = {"lemma": "frame", "function": fn, "qtype": qn, "grouped": grouped, "axis": axis}
                E = OC.engine(run)
                E.load_module(QW)
                ds, dpos = lib.dims("d", 2)
                G, ag = z3.Ints("G ag")

                def prog(E2, fn=fn, qn=qn, grouped=grouped, axis=axis):
                    for c in dpos:
                        E2.assume(c)
                    x = new_input(E2, "X", "float16", ds)
                    if fn == "quantize_weight":
                        if grouped:
                            k = axis % 2
                            E2.assume(G >= 1)
                            E2.assume(ag >= 1)
                            E2.assume(ds[1 - k] == G * ag)
                            for hh in CG.hints(ds, k, ds[1 - k], G, ag):
                                E2.assume(hh)
                        q = E2.call(E2.get(f"{QW}::quantize_weight"), [x, qt(E2, qn), axis, G if grouped else None], {})
                        return [x], q
                    s = new_input(E2, "S", "float16", [])
                    q = E2.call(E2.get(f"{QACT}::quantize_activation"), [x, qt(E2, qn), s], {})
                    return [x, s], q

                try:
                    res = E.explore(Builtin("frames2", prog), lambda E2: ([], {}), name="C13.frames.lib")
                except Unsupported as u:
                    run.undecide(f"C13/frame[{fn}/{qn}]", u, inst)
                    continue
                run.absorb(E)
                tag = f"{fn}/{qn}/{'grouped' if grouped else 'nogroup'}/axis{axis}"
                if not run.expect_paths(res, f"C13/frame[{tag}]", inst):
                    continue
                rp = lambda m, s, i=dict(inst): replay_frames(m, s, i)
                for pi, r in enumerate(res):
                    if r.outcome != "return":
                        continue
                    bad = writes_to_preexisting(r)
                    run.add(f"C13/{fn}-does-not-modify-its-inputs[{tag}]/path{pi}", r.hyps, z3.BoolVal(not bad), "property", inst, {"writes": bad[:5]}, replay=rp)
                    # the input element functions are unchanged (bit-identical re-read)
                    ins, q = r.value
                    for t in ins:
                        ids, inb = lib.idx_vars("i", t.shape)
                        fnz = z3.Function(t.name, *([z3.IntSort()] * len(t.shape)), E.alg.sort(t.dtype)) if t.shape else z3.Const(t.name, E.alg.sort(t.dtype))
                        want = fnz(*ids) if t.shape else fnz
                        run.add(f"C13/{fn}-input-{t.name}-unchanged[{tag}]/path{pi}", r.hyps + inb, t.elem(ids) == want, "property", inst, replay=rp)


def build(run):
    run.assume("A-ENGINE", "A-PY (writes = attribute stores, tensor subscript/augmented stores, in-place methods `*_`, callee frames)",
               "A-TORCH-NN contracts of register_module_forward_(pre_)hook / RemovableHandle.remove / TorchFunctionMode.__enter__/__exit__",
               "A-PURE PyTorch ops are deterministic functions of their inputs (bit-identical repetition = empty frame + purity)")
    run.assumptions += ["interleavings of enter/exit: per-scenario contracts (normal, exception, nested, sequential) + induction over nesting depth",
                        "PyTorch-internal state other than the three registries named by the property is not modelled",
                        "an in-place PyTorch method the model does not cover is treated as a write to its receiver (naming convention `*_`)"]
    E0 = run.engine()
    for key in (f"{CAL}::Calibration.__enter__", f"{CAL}::Calibration.__exit__", f"{OPS}::disable_extensions", f"{QMOD}::QModuleMixin.forward",
                f"{QMOD}::QModuleMixin.qweight", f"{QMOD}::QModuleMixin.freeze", f"{QLIN}::QLinear.qforward", f"{QCONV}::QConv2d.qforward",
                f"{QLN}::QLayerNorm.qforward", f"{QW}::quantize_weight", f"{QACT}::quantize_activation"):
        run.under_contract(E0, key)
    for part in (scoping, ext_switch, frames, quantize_frame):
        try:
            part(run)
        except Unsupported as u:
            run.undecide(f"C13/{part.__name__}", f"unsupported: {u}")


# ------------------------------------------------------------------------------------------------ native replay
def replay_scoping(model, seed, inst):
    import torch
    from torch.nn.modules import module as M
    from torch.overrides import _get_current_function_mode_stack
    from optimum.quanto import Calibration

    def snapshot():
        return (dict(M._global_forward_pre_hooks), dict(M._global_forward_hooks), list(_get_current_function_mode_stack()))

    before = snapshot()
    S = inst["streamline"]
    lin = torch.nn.Linear(2, 2)
    try:
        try:
            if inst["scenario"] == "same-object-entered-twice":
                c = Calibration(streamline=S)
                counts = []
                for _ in range(2):
                    with c:
                        counts.append((len(M._global_forward_pre_hooks), len(M._global_forward_hooks)))
                if any(a_ < len(before[0]) + 1 or b_ < len(before[1]) + 1 for a_, b_ in counts):
                    return {"scenario": inst["scenario"], "streamline": S, "what": "no calibration hooks are registered inside a context entered a second time", "hooks_inside": counts}
            elif inst["scenario"] == "constructed-not-entered":
                c = Calibration(streamline=S)
            elif inst["scenario"] == "constructed-earlier-entered-later":
                c = Calibration(streamline=S)
                d = Calibration(momentum=0.5, streamline=S)
                with c:
                    lin(torch.randn(1, 2))
            elif inst["scenario"] in ("exception", "sequential"):
                with Calibration(streamline=S):
                    raise RuntimeError("x")
            elif inst["scenario"].startswith("nested"):
                with Calibration(streamline=S):
                    try:
                        with Calibration(momentum=0.5, streamline=S):
                            raise RuntimeError("x")
                    except RuntimeError:
                        pass
                    raise ValueError("y")
            else:
                with Calibration(streamline=S):
                    lin(torch.randn(1, 2))
        except (RuntimeError, ValueError):
            pass
        except Exception as e:
            after = snapshot()
            M._global_forward_pre_hooks.clear(); M._global_forward_hooks.clear()
            return {"scenario": inst["scenario"], "streamline": S, "what": f"__exit__ raised {type(e).__name__}: {e}", "registries_restored": after[:2] == before[:2]}
        after = snapshot()
        if after != before:
            return {"scenario": inst["scenario"], "streamline": S, "what": "global hook registries / mode stack not restored",
                    "pre_hooks": len(after[0]), "post_hooks": len(after[1]), "modes": len(after[2])}
    finally:
        M._global_forward_pre_hooks.clear()
        M._global_forward_hooks.clear()
    return None


def replay_result_inplace(model, seed, inst):
    """h = module(x); h *= 0.5 must not change the module."""
    import torch
    from optimum.quanto import qtypes
    from optimum.quanto.nn import QConv2d, QLayerNorm, QLinear

    torch.manual_seed(seed)
    if inst["activations"] is None:
        return None
    kw = {"weights": qtypes[inst["weights"]] if inst["module"] != "layernorm" else None, "activations": qtypes[inst["activations"]]}
    if inst["module"] == "linear":
        m, x = QLinear(8, 4, **kw), torch.randn(2, 8)
    elif inst["module"] == "conv2d":
        m, x = QConv2d(4, 2, 1, **kw), torch.randn(1, 4, 2, 2)
    else:
        m, x = QLayerNorm((8,), **kw), torch.randn(2, 8)
    m.input_scale.fill_(0.02); m.output_scale.fill_(0.03)
    if inst["frozen"]:
        m.freeze()
    with torch.no_grad():
        before = {k: v.clone() for k, v in m.state_dict().items() if type(v) is torch.Tensor}
        h = m(x)
        try:
            h *= 0.5
        except Exception:
            return None
    for k, v in before.items():
        if not torch.equal(v, m.state_dict()[k]):
            return {"what": f"in-place arithmetic on the result of forward (h *= 0.5) changed the module's '{k}'", "before": v.flatten()[:3].tolist(), "after": m.state_dict()[k].flatten()[:3].tolist()}
    return None


def replay_result_alias(model, seed, inst):
    """out = module(x); out.copy_(p) must not change the module (its calibrated scales)."""
    import torch
    from optimum.quanto import absmax_scale, qtypes, quantize_activation
    from optimum.quanto.nn import QConv2d, QLayerNorm, QLinear

    torch.manual_seed(seed)
    if inst["activations"] is None:
        return None
    kw = {"weights": qtypes[inst["weights"]] if inst["module"] != "layernorm" else None, "activations": qtypes[inst["activations"]]}
    if inst["module"] == "linear":
        m, x = QLinear(8, 4, **kw), torch.randn(2, 8)
    elif inst["module"] == "conv2d":
        m, x = QConv2d(4, 2, 1, **kw), torch.randn(1, 4, 2, 2)
    else:
        m, x = QLayerNorm((8,), **kw), torch.randn(2, 8)
    m.input_scale.fill_(0.02); m.output_scale.fill_(0.03)
    if inst["frozen"]:
        m.freeze()
    with torch.no_grad():
        out = m(x)
        if not hasattr(out, "_scale"):
            return None
        before = {k: v.clone() for k, v in m.state_dict().items() if type(v) is torch.Tensor}
        t = torch.randn(*out.shape) * 50
        out.copy_(quantize_activation(t, out.qtype, absmax_scale(t, out.qtype)))
    for k, v in before.items():
        if not torch.equal(v, m.state_dict()[k]):
            return {"what": f"writing into the result of forward (out.copy_(p)) changed the module's '{k}'", "before": v.flatten()[:3].tolist(), "after": m.state_dict()[k].flatten()[:3].tolist()}
    return None


def replay_frames(model, seed, inst):
    import copy
    import torch
    from optimum.quanto import qtypes, quantize_activation, quantize_weight
    from optimum.quanto.nn import QConv2d, QLayerNorm, QLinear

    torch.manual_seed(seed)
    if "function" in inst:
        x = torch.randn(4, 8, dtype=torch.float16)
        x0 = x.clone()
        if inst["function"] == "quantize_weight":
            axis = inst.get("axis", 0)
            for shape, gs in (((4, 8), 4), ((1, 8), 4), ((8, 1), 1), ((64, 16), 64), ((16, 4), 16)):
                xx = torch.randn(*shape, dtype=torch.float16)
                xx0 = xx.clone()
                try:
                    with torch.no_grad():
                        quantize_weight(xx, qtypes[inst["qtype"]], axis, gs if inst.get("grouped") else None)
                except ValueError:
                    continue
                if not torch.equal(xx, xx0):
                    return {"what": "quantize_weight modified its input", "shape": list(shape), "axis": axis, "group_size": gs if inst.get("grouped") else None}
            return None
        for sv in (0.0, 0.5):
            s = torch.tensor(sv, dtype=torch.float16)
            s0 = s.clone()
            quantize_activation(x, qtypes[inst["qtype"]], s)
            if not torch.equal(s, s0) or not torch.equal(x, x0):
                return {"what": "quantize_activation modified the tensors it reads", "scale_before": s0.item(), "scale_after": s.item()}
        return None
    kw = {"weights": qtypes[inst["weights"]] if inst["module"] != "layernorm" else None, "activations": qtypes[inst["activations"]] if inst["activations"] else None}
    for out_features in (4, 1):
        r_ = _replay_frames_module(inst, kw, out_features)
        if r_:
            return r_
    return None


def _replay_frames_module(inst, kw, out_features):
    import torch
    from optimum.quanto.nn import QConv2d, QLayerNorm, QLinear

    if inst["module"] == "linear":
        m, x = QLinear(8, out_features, **kw), torch.randn(2, 8)
    elif inst["module"] == "conv2d":
        m, x = QConv2d(4, out_features, 1, **kw), torch.randn(1, 4, 2, 2)
    else:
        m, x = QLayerNorm((8,), **kw), torch.randn(2, 8)
    if inst.get("input") == "float16":
        x = x.to(torch.float16)
        m.input_scale.fill_(0.0123); m.output_scale.fill_(0.0457)
    for scale0 in (None, 0.0):
        if scale0 is not None:
            m.input_scale.zero_(); m.output_scale.zero_()
        if inst["frozen"]:
            m.freeze()
        sd0 = {k: (v.clone() if isinstance(v, torch.Tensor) and type(v) is torch.Tensor else v) for k, v in m.state_dict().items()}
        try:
            with torch.no_grad():
                y1 = m(x); y2 = m(x)
        except Exception:
            continue
        sd1 = m.state_dict()
        for k, v in sd0.items():
            w = sd1[k]
            if isinstance(v, torch.Tensor) and type(v) is torch.Tensor and (v.dtype != w.dtype or not torch.equal(v, w)) and not (torch.isnan(v).all() and torch.isnan(w).all()):
                return {"what": f"forward changed '{k}'", "before": v.flatten()[:4].tolist(), "after": w.flatten()[:4].tolist()}
    return None


def replay_file(path):
    import json
    rec = json.load(open(path))
    inst = rec["instance"]
    r = replay_result_inplace({}, 0, inst) if "in-place-arithmetic-on-the-result" in rec.get("obligation", "") else replay_result_alias({}, 0, inst) if "result-aliases-module-state" in rec.get("obligation", "") else replay_scoping({}, 0, inst) if inst.get("lemma") == "scoping" else replay_frames({}, 0, inst) if inst.get("lemma") == "frame" else \
        replay_quantize_frame({}, 0, inst) if inst.get("lemma") == "quantize() frame" else None
    print(json.dumps(r, indent=1, default=str))
    return 1 if r else 0
