"""Representation invariants of the quantized tensor classes (DESIGN 6.6), as z3 formulas over the symbolic objects."""
import z3

from qvc import lib
from qvc.lib import zi
from qvc.values import Obj, STensor, numel_of

QTYPE_DTYPE = {"qint2": "int8", "qint4": "int8", "qint8": "int8", "qfloat8": "float8_e4m3fn", "qfloat8_e4m3fn": "float8_e4m3fn",
               "qfloat8_e5m2": "float8_e5m2"}


def B(b):
    return z3.BoolVal(bool(b))


def keepdim_shape(shape, axis):
    if axis is None:
        return []
    k = axis % len(shape)
    return [d if j == k else 1 for j, d in enumerate(shape)]


def inv_qbytes(q):
    """Inv_B: list of (clause name, formula)."""
    if not (isinstance(q, Obj) and q.cls.name == "QBytesTensor"):
        return [("is-QBytesTensor", B(False))]
    f = q.fields
    data, scale, size, axis, qt = f.get("_data"), f.get("_scale"), f["_w_size"], f.get("_axis"), f.get("_qtype")
    out = []
    if not isinstance(data, STensor) or not isinstance(scale, STensor):
        return [("inner-tensors-are-plain-tensors", B(False))]
    qname = qt.fields["name"] if isinstance(qt, Obj) else None
    out.append(("size==payload-shape", lib.shape_eq(list(size), data.shape)))
    out.append(("payload-dtype==qtype-storage", B(QTYPE_DTYPE.get(qname) == data.dtype)))
    out.append(("dtype==scale-dtype", B(f["_w_dtype"] is not None and f["_w_dtype"].name == scale.dtype and scale.dtype in ("float32", "float16", "bfloat16"))))
    out.append(("device", B(f["_w_device"] == data.device and data.device == scale.device)))
    if axis is None:
        out.append(("per-tensor-scale-is-0-dim", B(len(scale.shape) == 0)))
    elif axis in (0, -1) and len(size) >= 1:
        out.append(("per-axis-scale-has-keepdim-shape", lib.shape_eq(scale.shape, keepdim_shape(list(size), axis))))
    else:
        out.append(("axis-in-(None,0,-1)", B(False)))
    return out


def inv_packed(p):
    if not (isinstance(p, Obj) and p.cls.name == "PackedTensor"):
        return [("is-PackedTensor", B(False))]
    f = p.fields
    data, bits, size = f.get("_data"), f.get("_bits"), f["_w_size"]
    if not isinstance(data, STensor):
        return [("payload-is-plain-tensor", B(False))]
    out = [("bits-in-(2,4)", B(bits in (2, 4))), ("payload-uint8", B(data.dtype == "uint8"))]
    if bits in (2, 4) and len(size) >= 1 and len(data.shape) == len(size):
        rows = zi(size[0])
        out.append(("payload-rows==ceil(rows*bits/8)", z3.And(8 * zi(data.shape[0]) >= rows * bits, 8 * (zi(data.shape[0]) - 1) < rows * bits)))
        out.append(("payload-trailing-dims", lib.shape_eq(data.shape[1:], list(size[1:]))))
    else:
        out.append(("payload-rank", B(False)))
    return out


def inv_qbits(q, hyps_group=None):
    """Inv_Q."""
    if not (isinstance(q, Obj) and q.cls.name in ("QBitsTensor",)):
        return [("is-QBitsTensor", B(False))]
    f = q.fields
    data, scale, zp, size, axis, qt, gs = f.get("_data"), f.get("_scale"), f.get("_zeropoint"), f["_w_size"], f.get("_axis"), f.get("_qtype"), f.get("_group_size")
    out = [("packed:" + n, c) for n, c in inv_packed(data)]
    if not isinstance(scale, STensor) or not isinstance(zp, STensor) or not isinstance(data, Obj):
        return out + [("inner-tensors", B(False))]
    qname = qt.fields["name"] if isinstance(qt, Obj) else None
    psize = list(data.fields["_w_size"])
    out.append(("qtype-is-low-bit", B(qname in ("qint2", "qint4") and data.fields.get("_bits") == {"qint2": 2, "qint4": 4}.get(qname))))
    out.append(("one-code-per-element", zi(numel_of(psize)) == zi(numel_of(list(size)))))
    out.append(("dtype==scale-dtype", B(f["_w_dtype"] is not None and f["_w_dtype"].name == scale.dtype)))
    out.append(("zeropoint-int8", B(zp.dtype == "int8")))
    out.append(("axis-in-(0,-1)", B(axis in (0, -1))))
    if axis in (0, -1) and len(psize) >= 1:
        if gs is None:
            out.append(("payload-shape==size", lib.shape_eq(psize, list(size))))
            ks = keepdim_shape(psize, axis) if len(psize) > 1 else None
        else:
            n = numel_of(list(size))
            want = [zi(n) / zi(gs), gs] if axis == 0 else [gs, zi(n) / zi(gs)]
            out.append(("payload-shape==grouped-shape", lib.shape_eq(psize, want) if len(psize) == 2 else B(False)))
            ks = keepdim_shape(psize, axis)
        if ks is not None:
            out.append(("scale-has-keepdim-shape-over-payload", lib.shape_eq(scale.shape, ks)))
            out.append(("zeropoint-has-keepdim-shape-over-payload", lib.shape_eq(zp.shape, ks)))
    return out
