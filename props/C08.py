"""C08 - quantize() swaps exactly the eligible modules and each computes its float twin (DESIGN 6.8).

(a) registry / eligibility, (b) qcreate mirrors the real torch constructor signature, (c) from_module copies parameters
bit-identically, (d) forward = requant(qforward(requant(in))) and qforward calls the same float computation as the source module on
dequantized operands, (e) quantize() on module trees (tree shapes enumerated; sizes symbolic) with and without a module filter.
"""
import z3

from props import ops_common as OC
from qvc import lib
from qvc.interp import RaiseEx
from qvc.lib import idx_vars, zi
from qvc.sym import Unsupported
from qvc.tm_tensor import is_wrapper, new_input
from qvc.torchmodel import CONV2D_CLS, LAYERNORM_CLS, LINEAR_CLS, MODULE_CLS
from qvc.values import Builtin, Device, DType, ExtClass, Obj, STensor

QUANT = "optimum/quanto/quantize.py"
QMOD = "optimum/quanto/nn/qmodule.py"
QLIN = "optimum/quanto/nn/qlinear.py"
QCONV = "optimum/quanto/nn/qconv2d.py"
QLN = "optimum/quanto/nn/qlayernorm.py"
RELU = ExtClass("ReLU", bases=[MODULE_CLS])


def engine(run):
    E = OC.engine(run)
    for m in (QLIN, QCONV, QLN, QUANT, "optimum/quanto/library/__init__.py", OC.QFUNC):
        E.load_module(m)
    return E


def same_tensor(a, b):
    from props.C10 import same_tensor as st
    return st(a, b)


# ------------------------------------------------------------------------------------------------ source modules
def mk_linear(E, tag, bias=True, dtype="float32"):
    i, o = z3.Int(f"in_{tag}"), z3.Int(f"out_{tag}")
    E.assume(i >= 1)
    E.assume(o >= 1)
    return E.call(LINEAR_CLS, [i, o], {"bias": bias, "dtype": DType(dtype)})


def mk_conv(E, tag, bias=True, padding=1, padding_mode="zeros", groups=None, stride=(2, 1), dilation=1):
    cg, co, kh, kw, g = [z3.Int(f"{n}_{tag}") for n in ("cg", "cout", "kh", "kw", "groups")]
    for v in (cg, co, kh, kw, g):
        E.assume(v >= 1)
    cin = z3.Int(f"cin_{tag}")
    E.assume(cin == cg * g)
    E.assume(cin / g == cg)
    E.assume(cin % g == 0)
    E.assume(co % g == 0)
    return E.call(CONV2D_CLS, [cin, co, (kh, kw)], {"stride": stride, "padding": padding, "dilation": dilation, "groups": g, "bias": bias, "padding_mode": padding_mode})


def mk_ln(E, tag, affine=True, bias=True):
    n = z3.Int(f"n_{tag}")
    E.assume(n >= 1)
    return E.call(LAYERNORM_CLS, [(n,)], {"eps": z3.Real(f"eps_{tag}"), "elementwise_affine": affine, "bias": bias})


def container(E, **children):
    c = E.call(MODULE_CLS, [], {})
    for k, v in children.items():
        E.setattr(c, k, v)
    return c


def seqc(E, *children):
    return container(E, **{str(i): ch for i, ch in enumerate(children)})


# ------------------------------------------------------------------------------------------------ (b, c) twins
def native_ctor_params():
    """Parameter names of the REAL torch constructors (read at check time): a new hyper-parameter fails the mirror obligation."""
    import inspect

    import torch

    out = {}
    for nm, cls in (("linear", torch.nn.Linear), ("conv2d", torch.nn.Conv2d), ("layernorm", torch.nn.LayerNorm)):
        out[nm] = [p for p in inspect.signature(cls.__init__).parameters if p != "self"]
    return out


def twins(run):
    ctor = native_ctor_params()
    variants = [("linear", dict(bias=True)), ("linear", dict(bias=False)), ("linear", dict(bias=True, dtype="float16")),
                ("conv2d", dict(bias=True, padding=1, padding_mode="zeros")), ("conv2d", dict(bias=False, padding="same", padding_mode="reflect", stride=(1, 1))),
                ("conv2d", dict(bias=True, padding=(2, 1), padding_mode="circular", dilation=(2, 1))), ("conv2d", dict(bias=True, padding="valid", padding_mode="replicate")),
                ("layernorm", dict(affine=True, bias=True)), ("layernorm", dict(affine=True, bias=False)), ("layernorm", dict(affine=False))]
    for kind, kw in variants:
        for weights in ("qint8", "qint4"):
            for act in (None, "qint8"):
                if run.tier == "quick" and weights == "qint4" and kind != "linear":
                    continue
                inst = {"lemma": "twin", "module": kind, "args": str(kw), "weights": weights, "activations": act}
                run.count_instance(**{"twin_module": kind, "twin_args": str(kw), "twin_weights": weights, "twin_act": act})
                E = engine(run)
                qm = E.get(f"{QMOD}::quantize_module")

                def prog(E2, kind=kind, kw=kw, weights=weights, act=act):
                    src = {"linear": mk_linear, "conv2d": mk_conv, "layernorm": mk_ln}[kind](E2, "m", **kw)
                    qt = E2.load_module(OC.QTYPE).env.lookup
                    snap = {k: v for k, v in src.fields.items()}
                    n0 = len(E2.writes)
                    q = E2.call(qm, [src], {"weights": qt(weights), "activations": qt(act) if act else None})
                    return src, snap, q, list(E2.writes[n0:])

                tag = f"{kind}/{kw}/w={weights}/a={act}"
                try:
                    res = E.explore(Builtin("twin", prog), lambda E2: ([], {}), name="C08.twin")
                except Unsupported as u:
                    run.undecide(f"C08/twin[{tag}]", u, inst)
                    continue
                run.absorb(E)
                if not run.expect_paths(res, f"C08/twin[{tag}]", inst):
                    continue
                rp = lambda m, s, i=dict(inst), kw_=dict(kw): replay_twin(m, s, i, kw_)
                for pi, r in enumerate(res):
                    fam = "C08/layernorm-without-affine" if (kind == "layernorm" and not kw.get("affine", True)) else "C08"
                    if r.outcome != "return":
                        run.add(f"{fam}/quantize_module-does-not-raise[{tag}]/path{pi}", r.hyps, z3.BoolVal(False), "property", inst, {"outcome": repr(r.value)[:200]}, replay=rp)
                        continue
                    src, snap, q, writes = r.value
                    if kind == "layernorm" and act is None:
                        run.add(f"C08/layernorm-only-with-quantized-activations[{tag}]/path{pi}", r.hyps, z3.BoolVal(q is None), "property", inst, replay=rp)
                        continue
                    want_cls = {"linear": "QLinear", "conv2d": "QConv2d", "layernorm": "QLayerNorm"}[kind]
                    okc = isinstance(q, Obj) and q.cls.name == want_cls
                    run.add(f"C08/eligible-module-gets-its-twin-class[{tag}]/path{pi}", r.hyps, z3.BoolVal(bool(okc)), "property", inst, replay=rp)
                    if not okc:
                        continue
                    # (b) every parameter of the real torch constructor is mirrored from the source module
                    for pname in ctor[kind]:
                        if pname in ("device", "dtype"):
                            w = src.fields.get("weight")
                            got = q.fields["weight"].device if pname == "device" else q.fields["weight"].dtype
                            want = w.device if pname == "device" else w.dtype
                            ok = (got == want)
                        elif pname == "bias":
                            ok = (q.fields.get("bias") is None) == (src.fields.get("bias") is None)
                        else:
                            a, b = q.fields.get(pname, "<missing>"), src.fields.get(pname, "<missing2>")
                            e = E.eq(a, b)
                            ok = e if not isinstance(e, bool) else z3.BoolVal(e)
                        run.add(f"C08/constructor-argument-mirrored:{pname}[{tag}]/path{pi}", r.hyps, ok if not isinstance(ok, bool) else z3.BoolVal(ok), "property", inst, replay=rp)
                    # (c) float parameters bit-identical
                    for pn in ("weight", "bias"):
                        a, b = src.fields.get(pn), q.fields.get(pn)
                        if a is None and b is None:
                            continue
                        run.add(f"C08/parameter-bit-identical:{pn}[{tag}]/path{pi}", r.hyps,
                                same_tensor(a, b) if (isinstance(a, STensor) and isinstance(b, STensor)) else z3.BoolVal(False), "property", inst, replay=rp)
                    # qtypes / optimizer honoured, source untouched by from_module
                    qt = E.load_module(OC.QTYPE).env.lookup
                    run.add(f"C08/qtypes-honoured[{tag}]/path{pi}", r.hyps,
                            z3.BoolVal(q.fields.get("weight_qtype") is (qt(weights) if kind != "layernorm" else None) and q.fields.get("activation_qtype") is (qt(act) if act else None)),
                            "property", inst, replay=rp)
                    touched_src = [w for w in writes if (w[0] == "attr" and w[1] is src) or (w[0] == "tensor" and any(w[1] is v.root() for v in snap.values() if isinstance(v, STensor)))]
                    run.add(f"C08/source-module-untouched-by-from_module[{tag}]/path{pi}", r.hyps, z3.BoolVal(not touched_src), "property", inst, replay=rp)


# ------------------------------------------------------------------------------------------------ (d) forward structure
def forwards(run):
    """Each quantized module calls the SAME float computation as its source module, on the dequantized quantized weight and the
    (de)quantized input; the output is re-quantized with the module's output scale when activations are quantized."""
    variants = [("linear", dict(bias=True)), ("conv2d", dict(bias=True, padding=1, padding_mode="zeros")),
                ("conv2d", dict(bias=True, padding=(2, 1), padding_mode="reflect", dilation=(2, 1))), ("conv2d", dict(bias=False, padding="same", padding_mode="zeros", stride=(1, 1))),
                ("layernorm", dict(affine=True, bias=True))]
    variants = [(k_, kw_, "qint8") for k_, kw_ in variants] + [("linear", dict(bias=True), "qint4")]
    for kind, kw, wq in variants:
        for act in (None, "qint8"):
            for inp in ("float", "quantized"):
                if (kind == "layernorm" or inp == "quantized") and act is None:
                    continue
                inst = {"lemma": "forward", "module": kind, "args": str(kw), "activations": act, "input": inp, "weights": wq}
                run.count_instance(**{"fwd_module": kind, "fwd_args": str(kw), "fwd_act": act, "fwd_input": inp})
                E = engine(run)
                qm = E.get(f"{QMOD}::quantize_module")

                def prog(E2, kind=kind, kw=kw, act=act, inp=inp, wq=wq):
                    src = {"linear": mk_linear, "conv2d": mk_conv, "layernorm": mk_ln}[kind](E2, "m", **kw)
                    qt = E2.load_module(OC.QTYPE).env.lookup
                    q = E2.call(qm, [src], {"weights": qt(wq), "activations": qt(act) if act else None})
                    # frozen twin: the quantized weight is a stored object, so the reference below dequantizes the very same tensor
                    # (that freezing does not change the weight the dynamic path computes is C09)
                    E2.call(E2.getattr(q, "freeze"), [], {})
                    B = z3.Int("B")
                    E2.assume(B >= 1)
                    w = src.fields["weight"]
                    xs = [B, w.shape[1]] if kind == "linear" else [B, src.fields["in_channels"], z3.Int("H"), z3.Int("W")] if kind == "conv2d" else [B, w.shape[0]]
                    for d in xs:
                        if hasattr(d, "sort"):
                            E2.assume(d >= 1)
                    if inp == "float":
                        x = new_input(E2, "X", "float32", xs)
                    else:
                        x = OC.H(E2, act, None).q(xs, name="X")
                    E2.ps["ufun_calls"] = []
                    E2.ps["functional_log"] = []
                    out = E2.call(E2.getattr(q, "forward"), [x], {})
                    calls_q = list(E2.ps.get("ufun_calls", []))
                    flog = [e for e in E2.ps.get("functional_log", []) if e[0] == "linear"]
                    # the reference: the float module evaluated with the dequantized quantized weight on the (de)quantized input
                    qw = E2.getattr(q, "qweight")
                    wd = OC.deq(E2, qw) if qw is not None else q.fields["weight"]
                    if act is not None and inp == "float" and kind != "layernorm":
                        qa = E2.call(E2.get("optimum/quanto/tensor/qactivation.py::quantize_activation"), [x], {"qtype": qt(act), "scale": q.fields["input_scale"]})
                        xd = OC.deq(E2, qa)
                    else:
                        xd = OC.deq(E2, x) if is_wrapper(x) else x
                    ref_mod = Obj(src.cls, dict(q.fields))
                    ref_mod.fields["weight"] = wd
                    E2.ps["ufun_calls"] = []
                    from qvc.nnmodel import module_forward
                    ref = module_forward(E2, ref_mod, xd)
                    calls_ref = list(E2.ps.get("ufun_calls", []))
                    E2.ps["linear_args"] = (flog, xd, qw, OC.deq(E2, flog[0][1][0]) if (flog and len(flog[0][1]) >= 1 and is_wrapper(flog[0][1][0])) else (flog[0][1][0] if flog and flog[0][1] else None))
                    return q, x, out, calls_q, ref, calls_ref, OC.deq(E2, out) if is_wrapper(out) else out

                tag = f"{kind}/{kw}/w={wq}/a={act}/{inp}"
                try:
                    res = E.explore(Builtin("fwd", prog), lambda E2: ([], {}), name="C08.forward")
                except Unsupported as u:
                    run.undecide(f"C08/forward[{tag}]", u, inst)
                    continue
                run.absorb(E)
                if not run.expect_paths(res, f"C08/forward[{tag}]", inst):
                    continue
                rp = lambda m, s, i=dict(inst), kw_=dict(kw): replay_forward(m, s, i, kw_)
                for pi, r in enumerate(res):
                    fam = "C08/quantized-input-to-padded-conv" if (kind == "conv2d" and kw.get("padding_mode") != "zeros" and act is not None) else "C08"
                    if r.outcome != "return":
                        run.add(f"{fam}/forward-does-not-raise[{tag}]/path{pi}", r.hyps, z3.BoolVal(False), "property", inst, {"outcome": repr(r.value)[:200]}, replay=rp)
                        continue
                    E.focus(r)
                    q, x, out, calls_q, ref, calls_ref, outd = r.value
                    if act is not None:
                        ok = is_wrapper(out) and out.cls.name == "QBytesTensor" and out.fields["_scale"] is q.fields["output_scale"] and out.fields["_axis"] is None \
                            and out.fields["_qtype"] is q.fields["activation_qtype"]
                        run.add(f"C08/output-requantized-with-output-scale[{tag}]/path{pi}", r.hyps, z3.BoolVal(bool(ok)), "property", inst, replay=rp)
                    else:
                        run.add(f"C08/output-is-a-float-tensor[{tag}]/path{pi}", r.hyps, z3.BoolVal(isinstance(out, STensor)), "property", inst, replay=rp)
                    if kind == "linear":
                        # the value of F.linear on quantized operands is C07; here: the functional is reached ONCE, with the (de)quantized input
                        # of the statement, this module's quantized weight and its bias
                        flog, xd_, qw_, fin = r.ps.get("linear_args", ([], None, None, None))
                        okc = len(flog) == 1 and len(flog[0][1]) >= 2 and flog[0][1][1] is qw_ and (flog[0][1][2] if len(flog[0][1]) > 2 else flog[0][2].get("bias")) is q.fields.get("bias")
                        run.add(f"C08/linear-reaches-the-functional-once-with-its-weight-and-bias[{tag}]/path{pi}", r.hyps, z3.BoolVal(bool(okc)), "property", inst, replay=rp)
                        if okc and isinstance(fin, STensor) and isinstance(xd_, STensor):
                            run.add(f"C08/linear-input-is-the-dequantized-quantized-input[{tag}]/path{pi}", r.hyps, same_tensor(fin, xd_), "property", inst, replay=rp, timeout=30)
                            if act is not None:
                                run.add(f"C08/linear-input-is-quantized-when-activations-are[{tag}]/path{pi}", r.hyps, z3.BoolVal(is_wrapper(flog[0][1][0])), "property", inst, replay=rp)
                        continue
                    # same uninterpreted float computation: same function names, same non-tensor arguments, element-wise equal tensor arguments
                    same_len = len(calls_q) == len(calls_ref) and [c[1] for c in calls_q] == [c[1] for c in calls_ref]
                    run.add(f"C08/calls-the-same-float-functions[{tag}]/path{pi}", r.hyps, z3.BoolVal(bool(same_len)), "property", inst,
                            {"quantized": [c[1] for c in calls_q], "reference": [c[1] for c in calls_ref]}, replay=rp)
                    if not same_len:
                        continue
                    for ci, (cq, cr) in enumerate(zip(calls_q, calls_ref)):
                        aq, ar = list(cq[2]) + [v for _, v in cq[3]], list(cr[2]) + [v for _, v in cr[3]]
                        okn = len(aq) == len(ar)
                        conj = [z3.BoolVal(okn)]
                        if okn:
                            for a, b in zip(aq, ar):
                                if isinstance(a, STensor) and isinstance(b, STensor):
                                    if a.attrs.get("ufun") is not None and b.attrs.get("ufun") is not None:
                                        continue  # output of the previous call (compared there)
                                    conj.append(same_tensor(a, b))
                                elif isinstance(a, STensor) or isinstance(b, STensor):
                                    conj.append(z3.BoolVal(False))
                                else:
                                    e = E.eq(a, b)
                                    conj.append(e if not isinstance(e, bool) else z3.BoolVal(e))
                        facts = E.drain() + list(E.ps.get("lazy_facts", []))
                        run.add(f"C08/same-arguments-as-the-float-module:{cq[1]}#{ci}[{tag}]/path{pi}", r.hyps + facts, z3.And(*conj), "property", inst, replay=rp, timeout=30)


# ------------------------------------------------------------------------------------------------ (e) trees
def trees(E):
    L, C, N = mk_linear, mk_conv, mk_ln
    yield "flat", lambda: container(E, fc=L(E, "a"), act=E.call(RELU, [], {}), conv=C(E, "b"), norm=N(E, "c"))
    yield "named-depth3", lambda: container(E, enc=container(E, blk=container(E, fc=L(E, "a"), act=E.call(RELU, [], {})), out=L(E, "b")))
    yield "sequential-1.1", lambda: seqc(E, L(E, "a"), seqc(E, E.call(RELU, [], {}), L(E, "b")))
    yield "sequential-0.1.1", lambda: seqc(E, seqc(E, L(E, "a"), seqc(E, E.call(RELU, [], {}), L(E, "b"), N(E, "c"))), L(E, "d"))
    yield "layer1.1.fc1", lambda: container(E, layer1=seqc(E, container(E, fc1=L(E, "a")), container(E, fc1=L(E, "b"), norm=N(E, "c"))))
    yield "proj.out_proj", lambda: container(E, attn=container(E, proj=container(E, out_proj=L(E, "a"), drop=E.call(RELU, [], {})), q=L(E, "b")))
    yield "mlp.fc.c", lambda: container(E, mlp=container(E, fc=container(E, c=C(E, "a")), act=E.call(RELU, [], {})))
    yield "derived-classes", lambda: container(E, fc=mk_derived(E, "linear", "a"), blk=container(E, conv=mk_derived(E, "conv", "b"), norm=mk_derived(E, "ln", "c")), out=L(E, "d"))


SUBCLS = """
def mk(kind, a, b):
    class DerivedLinear(torch.nn.Linear):
        pass

    class DerivedConv2d(torch.nn.Conv2d):
        pass

    class DerivedLayerNorm(torch.nn.LayerNorm):
        pass

    if kind == "linear":
        return DerivedLinear(a, b)
    if kind == "conv":
        return DerivedConv2d(a, b, (1, 1))
    return DerivedLayerNorm((a,))
"""


def mk_derived(E, kind, tag):
    """An instance of a user subclass of Linear / Conv2d / LayerNorm (isinstance-eligible: 'the Linear and Conv2d modules')."""
    a, b = z3.Int(f"da_{tag}"), z3.Int(f"db_{tag}")
    E.assume(a >= 1)
    E.assume(b >= 1)
    return E.call(E.snippet(SUBCLS, QLIN), [kind, a, b], {})


def kind_of(m):
    """Linear / Conv2d / LayerNorm class the module is an instance of (subclasses included), else None."""
    cls = m.cls
    for base in (LINEAR_CLS, CONV2D_CLS, LAYERNORM_CLS):
        if cls is base or (hasattr(cls, "is_subclass_of") and cls.is_subclass_of(base)):
            return base
    return None


def walks(run):
    for act in (None, "qint8"):
        for filt in ("all", "some", "empty"):
            E0 = engine(run)
            names = [n for n, _ in trees(E0)]
            for tname in names:
                inst = {"lemma": "quantize() walk", "tree": tname, "activations": act, "filter": filt}
                run.count_instance(**{"walk_tree": tname, "walk_act": act, "walk_filter": filt})
                E = engine(run)
                qz = E.get(f"{QUANT}::quantize")

                def prog(E2, tname=tname, act=act, filt=filt):
                    build = dict(trees(E2))[tname]
                    model = build()
                    from qvc.nnmodel import named_modules
                    before = named_modules(E2, model)
                    snap = {n: {k: v for k, v in m.fields.items() if k in ("weight", "bias")} for n, m in before}
                    hp = {n: dict(m.fields) for n, m in before}
                    qt = E2.load_module(OC.QTYPE).env.lookup
                    elig = [(n, m) for n, m in before if kind_of(m) is not None]
                    sel = None
                    if filt == "empty":
                        sel = []
                    if filt == "some":
                        sel = [m for k, (n, m) in enumerate(elig) if k % 2 == 0] + [m for n, m in before if m.cls is RELU][:1]
                    # everything that exists before the call is pre-existing: quantize() may re-wire modules, not write into float tensors
                    for n_, m_ in before:
                        for v_ in list(m_.fields.values()) + list((m_.fields.get("_parameters") or {}).values() if isinstance(m_.fields.get("_parameters"), dict) else []):
                            if isinstance(v_, STensor):
                                v_.fresh = False
                                v_.root().fresh = False
                    nw = len(E2.writes)
                    E2.call(qz, [model], {"modules": sel, "weights": qt("qint8"), "activations": qt(act) if act else None})
                    E2.ps["quantize_writes"] = [f"{w[0]} {getattr(w[1], 'name', '?')}{'.' + str(w[2]) if w[0] == 'tensor-attr' else ''} at {w[4]}" for w in E2.writes[nw:]
                                                if w[0] in ("tensor", "tensor-attr") and isinstance(w[1], STensor) and not w[1].root().fresh]
                    after = named_modules(E2, model)
                    return model, before, snap, hp, sel, after

                tag = f"{tname}/a={act}/filter={filt}"
                try:
                    res = E.explore(Builtin("walk", prog), lambda E2: ([], {}), name="C08.walk")
                except Unsupported as u:
                    run.undecide(f"C08/walk[{tag}]", u, inst)
                    continue
                run.absorb(E)
                if not run.expect_paths(res, f"C08/walk[{tag}]", inst):
                    continue
                rp = lambda m, s, i=dict(inst): replay_walk(m, s, i)
                for pi, r in enumerate(res):
                    if r.outcome != "return":
                        run.add(f"C08/quantize-does-not-raise[{tag}]/path{pi}", r.hyps, z3.BoolVal(False), "property", inst, {"outcome": repr(r.value)[:200]}, replay=rp)
                        continue
                    model, before, snap, hp, sel, after = r.value
                    qwr = r.ps.get("quantize_writes", [])
                    run.add(f"C08/float-parameters-are-not-written[{tag}]/path{pi}", r.hyps, z3.BoolVal(not qwr), "property", inst, {"writes": qwr[:4]},
                            replay=lambda m, s, i=dict(inst): replay_tied(m, s, i))
                    run.add(f"C08/module-names-unchanged[{tag}]/path{pi}", r.hyps, z3.BoolVal([n for n, _ in before] == [n for n, _ in after]), "property", inst,
                            {"before": [n for n, _ in before], "after": [n for n, _ in after]}, replay=rp)
                    if [n for n, _ in before] != [n for n, _ in after]:
                        continue
                    want = {LINEAR_CLS: "QLinear", CONV2D_CLS: "QConv2d", LAYERNORM_CLS: "QLayerNorm"}
                    for (n, m), (_, q) in zip(before, after):
                        eligible = kind_of(m) in (LINEAR_CLS, CONV2D_CLS) or (kind_of(m) is LAYERNORM_CLS and act is not None)
                        selected = sel is None or any(m is s_ for s_ in sel)
                        if eligible and selected:
                            ok = isinstance(q, Obj) and q.cls.name == want[kind_of(m)] and q is not m
                            run.add(f"C08/eligible-selected-module-replaced:{n}[{tag}]/path{pi}", r.hyps, z3.BoolVal(bool(ok)), "property", inst, replay=rp)
                            if not ok:
                                continue
                            run.add(f"C08/twin-knows-its-name:{n}[{tag}]/path{pi}", r.hyps, z3.BoolVal(q.fields.get("name") == n), "property", inst, replay=rp)
                            for pn, pv in snap[n].items():
                                b = q.fields.get(pn)
                                if pv is None and b is None:
                                    continue
                                run.add(f"C08/twin-parameter-bit-identical:{n}.{pn}[{tag}]/path{pi}", r.hyps,
                                        same_tensor(pv, b) if (isinstance(pv, STensor) and isinstance(b, STensor)) else z3.BoolVal(False), "property", inst, replay=rp)
                            hyper = [k for k in hp[n] if k not in ("weight", "bias", "_parameters", "_buffers", "_modules", "training")]
                            okh = True
                            for k in hyper:
                                e = E.eq(q.fields.get(k, "<missing>"), hp[n][k])
                                if e is False:
                                    okh = False
                            run.add(f"C08/twin-hyper-parameters:{n}[{tag}]/path{pi}", r.hyps, z3.BoolVal(bool(okh)), "property", inst, replay=rp)
                        else:
                            same = q is m and all(m.fields.get(k) is v for k, v in hp[n].items() if k in ("weight", "bias"))
                            run.add(f"C08/other-module-untouched:{n or '<root>'}[{tag}]/path{pi}", r.hyps, z3.BoolVal(bool(same)), "property", inst, replay=rp)


def build(run):
    run.assume("A-ENGINE", "A-PY", "A-TORCH-NN nn.Module (named_modules pre-order, get_submodule, __setattr__, register_buffer, to), constructors of Linear/Conv2d/LayerNorm, "
               "Conv2d._conv_forward / LayerNorm.forward as the composites of the documentation; conv2d / layer_norm / pad are uninterpreted functions", "A-TORCH-DISPATCH (C05)",
               "the value of F.linear on quantized operands (C07)")
    run.assumptions += ["module trees: the tree SHAPES are enumerated (7 shapes incl. nested anonymous Sequentials and names whose parent path ends in characters of the child name); "
                        "sizes, hyper-parameters and tensors are symbolic; roots are containers and modules are pairwise distinct",
                        "the parameter lists of torch.nn.Linear/Conv2d/LayerNorm.__init__ are read from the real library at check time"]
    run.not_decided += ["an inductive invariant of the walk for arbitrary tree shapes", "numerical value of conv2d / layer_norm (PyTorch kernels)"]
    E0 = run.engine()
    for key in (f"{QUANT}::quantize", f"{QUANT}::set_module_by_name", f"{QMOD}::quantize_module", f"{QMOD}::register_qmodule", f"{QMOD}::QModuleMixin.__init__",
                f"{QMOD}::QModuleMixin.from_module", f"{QMOD}::QModuleMixin.forward", f"{QMOD}::QModuleMixin.qweight", f"{QLIN}::QLinear.qcreate", f"{QLIN}::QLinear.qforward",
                f"{QCONV}::QConv2d.qcreate", f"{QCONV}::QConv2d.qforward", f"{QLN}::QLayerNorm.qcreate", f"{QLN}::QLayerNorm.qforward"):
        run.under_contract(E0, key)
    for part in (twins, forwards, walks):
        try:
            part(run)
        except Unsupported as u:
            run.undecide(f"C08/{part.__name__}", f"unsupported: {u}")


# ------------------------------------------------------------------------------------------------ native replay
def _native_module(kind, kw):
    import torch
    if kind == "linear":
        return torch.nn.Linear(8, 4, bias=kw.get("bias", True), dtype=getattr(torch, kw.get("dtype", "float32"))), torch.randn(3, 8)
    if kind == "conv2d":
        return torch.nn.Conv2d(4, 4, (3, 3), stride=kw.get("stride", (2, 1)), padding=kw.get("padding", 1), dilation=kw.get("dilation", 1), groups=2,
                               bias=kw.get("bias", True), padding_mode=kw.get("padding_mode", "zeros")), torch.randn(2, 4, 9, 9)
    return torch.nn.LayerNorm((8,), eps=kw.get("eps", 1e-3), elementwise_affine=kw.get("affine", True), bias=kw.get("bias", True)), torch.randn(3, 8)


def replay_twin(model, seed, inst, kw):
    import torch
    from optimum.quanto import qtypes
    from optimum.quanto.nn import quantize_module

    torch.manual_seed(seed)
    m, x = _native_module(inst["module"], kw)
    try:
        q = quantize_module(m, weights=qtypes[inst["weights"]], activations=qtypes[inst["activations"]] if inst["activations"] else None)
    except Exception as e:
        return {"module": inst["module"], "args": kw, "what": f"quantize_module raises {type(e).__name__}: {str(e)[:150]}"}
    if q is None:
        return None
    for k in ("stride", "padding", "dilation", "groups", "padding_mode", "in_features", "out_features", "normalized_shape", "eps", "elementwise_affine", "kernel_size"):
        if hasattr(m, k) and getattr(m, k) != getattr(q, k, None):
            return {"what": f"hyper-parameter {k} not mirrored", "source": str(getattr(m, k)), "twin": str(getattr(q, k, None))}
    if (m.bias is None) != (q.bias is None) or not torch.equal(m.weight, q.weight):
        return {"what": "parameters not copied bit-identically"}
    return None


def replay_forward(model, seed, inst, kw):
    import torch
    from optimum.quanto import Calibration, qtypes
    from optimum.quanto.nn import quantize_module

    torch.manual_seed(seed)
    m, x = _native_module(inst["module"], kw)
    act = qtypes[inst["activations"]] if inst["activations"] else None
    q = quantize_module(m, weights=qtypes[inst.get("weights", "qint8")], activations=act)
    if q is None:
        return None
    try:
        with torch.no_grad():
            if act is not None:
                with Calibration(streamline=False):
                    q(x)
                if inst["module"] == "linear":
                    q.input_scale.fill_(float(x.abs().max()) / 16)    # a coarse input scale: skipping the input quantization is visible
            xin = x
            if inst["input"] == "quantized":
                from optimum.quanto import absmax_scale, quantize_activation
                xin = quantize_activation(x, act, absmax_scale(x, act))
            out = q(xin)
    except Exception as e:
        return {"module": inst["module"], "args": kw, "input": inst["input"], "what": f"forward raises {type(e).__name__}: {str(e)[:150]}"}
    if act is None:
        twin = type(m)(*([8, 4] if inst["module"] == "linear" else [])) if False else None
        import copy
        ref = copy.deepcopy(m)
        with torch.no_grad():
            ref.weight.copy_(q.qweight.dequantize())
            want = ref(x)
        if not torch.allclose(out, want, atol=1e-4, rtol=1e-4):
            return {"module": inst["module"], "args": kw, "what": "output differs from the float module evaluated with the dequantized quantized weight",
                    "max_abs_diff": (out - want).abs().max().item()}
    elif inst["module"] == "linear" and inst["input"] == "float":
        import copy
        from optimum.quanto import quantize_activation
        ref = copy.deepcopy(m)
        with torch.no_grad():
            ref.weight.copy_(q.qweight.dequantize())
            xd = quantize_activation(x, act, q.input_scale).dequantize()
            want = ref(xd)
        got = out.dequantize() if hasattr(out, "dequantize") else out
        step = q.output_scale.item()
        if (got - want).abs().max().item() > 1.01 * step + 1e-5:
            return {"module": "linear", "weights": inst.get("weights"), "what": "output differs by more than one output step from the float module on the dequantized weight and (de)quantized input",
                    "max_abs_diff": (got - want).abs().max().item(), "output_step": step}
    return None


def replay_tied(model, seed, inst):
    """A float Parameter that something else still holds (tied weights) keeps its values across quantize()."""
    import torch
    from torch import nn
    from optimum.quanto import qtypes, quantize

    torch.manual_seed(seed)
    emb = nn.Embedding(16, 8)
    head = nn.Linear(8, 16, bias=False)
    head.weight = emb.weight
    model_ = nn.Sequential(emb, head)
    before = emb.weight.detach().clone()
    act = qtypes[inst["activations"]] if inst.get("activations") else None
    quantize(model_, weights=qtypes["qint8"], activations=act)
    if tuple(emb.weight.shape) != tuple(before.shape) or not torch.equal(emb.weight.detach(), before):
        return {"what": "quantize() modified a float Parameter that another module still holds (tied weights)", "shape_before": list(before.shape), "shape_after": list(emb.weight.shape)}
    return None


def replay_walk(model, seed, inst):
    import torch
    from collections import OrderedDict
    from torch import nn
    from optimum.quanto import qtypes, quantize
    from optimum.quanto.nn import QModuleMixin

    def seq(**kw):
        return nn.Sequential(OrderedDict(kw))

    trees_ = {
        "flat": lambda: seq(fc=nn.Linear(8, 8), act=nn.ReLU(), conv=nn.Conv2d(2, 2, 1), norm=nn.LayerNorm(8)),
        "named-depth3": lambda: seq(enc=seq(blk=seq(fc=nn.Linear(8, 8), act=nn.ReLU()), out=nn.Linear(8, 8))),
        "sequential-1.1": lambda: nn.Sequential(nn.Linear(8, 8), nn.Sequential(nn.ReLU(), nn.Linear(8, 8))),
        "sequential-0.1.1": lambda: nn.Sequential(nn.Sequential(nn.Linear(8, 8), nn.Sequential(nn.ReLU(), nn.Linear(8, 8), nn.LayerNorm(8))), nn.Linear(8, 8)),
        "layer1.1.fc1": lambda: seq(layer1=nn.Sequential(seq(fc1=nn.Linear(8, 8)), seq(fc1=nn.Linear(8, 8), norm=nn.LayerNorm(8)))),
        "proj.out_proj": lambda: seq(attn=seq(proj=seq(out_proj=nn.Linear(8, 8), drop=nn.ReLU()), q=nn.Linear(8, 8))),
        "mlp.fc.c": lambda: seq(mlp=seq(fc=seq(c=nn.Conv2d(2, 2, 1)), act=nn.ReLU())),
        "derived-classes": lambda: seq(fc=type("DerivedLinear", (nn.Linear,), {})(8, 8), blk=seq(conv=type("DerivedConv2d", (nn.Conv2d,), {})(2, 2, 1),
                                                                                                  norm=type("DerivedLayerNorm", (nn.LayerNorm,), {})(8)), out=nn.Linear(8, 8)),
    }
    model_ = trees_[inst["tree"]]()
    before = dict(model_.named_modules())
    act = qtypes[inst["activations"]] if inst["activations"] else None
    sel = None
    eligs = [m for m in before.values() if isinstance(m, (nn.Linear, nn.Conv2d, nn.LayerNorm))]
    if inst.get("filter") == "empty":
        sel = []
    elif inst.get("filter") == "some":
        sel = [m for k, m in enumerate(eligs) if k % 2 == 0] + [m for m in before.values() if isinstance(m, nn.ReLU)][:1]
    try:
        quantize(model_, modules=sel, weights=qtypes["qint8"], activations=act)
    except Exception as e:
        return {"tree": inst["tree"], "what": f"quantize() raises {type(e).__name__}: {str(e)[:150]}"}
    after = dict(model_.named_modules())
    if list(before) != list(after):
        return {"tree": inst["tree"], "what": "module names changed", "before": list(before), "after": list(after)}
    for n, m in before.items():
        elig = isinstance(m, (nn.Linear, nn.Conv2d)) or (act is not None and isinstance(m, nn.LayerNorm))
        elig = elig and (sel is None or any(m is s_ for s_ in sel))
        if elig and not isinstance(after[n], QModuleMixin):
            return {"tree": inst["tree"], "what": f"eligible module '{n}' was not replaced"}
        if not elig and after[n] is not m:
            return {"tree": inst["tree"], "what": f"non-eligible module '{n}' was replaced"}
    return None


def replay_file(path):
    import json
    rec = json.load(open(path))
    inst = rec["instance"]
    kw = eval(inst.get("args", "{}")) if "args" in inst else {}
    r = {"twin": lambda: replay_twin({}, 0, inst, kw), "forward": lambda: replay_forward({}, 0, inst, kw), "quantize() walk": lambda: (replay_tied({}, 0, inst) if "float-parameters-are-not-written" in rec.get("obligation", "") else replay_walk({}, 0, inst))}[inst["lemma"]]()
    print(json.dumps(r, indent=1, default=str))
    return 1 if r else 0
