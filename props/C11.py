"""C11 - gradients pass straight through quantization and match the float linear backward (DESIGN 6.11).

Backward contracts against the textbook gradients of x W^T + b (the oracle is mathematics): contractions are uninterpreted sums whose
summands are compared for a symbolic summation index.  Algebra R.
"""
import z3

from props import ops_common as OC
from props.C07 import make_act, make_weight, occurrences, sums_in
from qvc import lib
from qvc.lib import idx_vars, zi
from qvc.sym import Unsupported
from qvc.tm_tensor import is_wrapper, new_input
from qvc.values import Builtin, Obj, STensor

SYMQ = "optimum/quanto/tensor/quantizers/symmetric.py"
AFFQ = "optimum/quanto/tensor/quantizers/affine.py"
QMOD = "optimum/quanto/nn/qmodule.py"
QLIN = "optimum/quanto/nn/qlinear.py"
AWQ = "optimum/quanto/tensor/qbits/awq/qbits.py"


def identity_backwards(run):
    """Quantizer / dequantizer backward: the incoming gradient is returned as is for the tensor input, None for everything else."""
    cases = [(f"{SYMQ}::SymmetricQuantizer", 4), (f"{AFFQ}::AffineQuantizer", 6), (f"{OC.QBYTES}::QBytesDequantizer", 1), (f"{OC.QBITS}::QBitsDequantizer", 1),
             (f"{AWQ}::AWQBitsDequantizer", 1)]
    for key, ninputs in cases:
        inst = {"lemma": "identity backward", "function": key.split("::")[1]}
        E = OC.engine(run)
        try:
            cls = E.get(key)
            bwd, _ = cls.lookup("backward")
        except Exception as e:
            run.undecide(f"C11/identity-backward[{inst['function']}]", f"cannot locate backward: {e}", inst)
            continue
        run.under_contract(E, key + ".backward")
        ds, dpos = lib.dims("d", 2)

        def setup(E2):
            for c in dpos:
                E2.assume(c)
            return [Obj(cls), new_input(E2, "GO", "float32", ds)], {}

        res = E.explore(bwd, setup, name="C11.identity")
        run.absorb(E)
        for pi, r in enumerate(res):
            tag = f"{inst['function']}/path{pi}"
            if r.outcome != "return":
                run.add(f"C11/backward-returns[{tag}]", r.hyps, z3.BoolVal(False), "property", inst, {"outcome": repr(r.value)[:200]})
                continue
            v = r.value
            vals = list(v) if isinstance(v, tuple) else [v]
            first_is_go = isinstance(vals[0], STensor) and vals[0].name == "GO" and vals[0].imap is None
            rest_none = all(x is None for x in vals[1:])
            arity = len(vals) >= ninputs if ninputs > 1 else len(vals) == 1
            run.add(f"C11/gradient-passes-straight-through[{tag}]", r.hyps, z3.BoolVal(bool(first_is_go and rest_none and arity)), "property", inst,
                    {"returned": [repr(x)[:40] for x in vals], "forward_inputs": ninputs}, replay=lambda m, s: replay_ste(m, s))
            bad = [w for w in r.writes if w[0] in ("tensor", "attr") and not getattr(w[1], "fresh", True)]
            run.add(f"C11/backward-does-not-modify-the-gradient[{tag}]", r.hyps, z3.BoolVal(not bad), "property", inst)


SRC = """
def prog(x, w, b, go, flags):
    out = torch.nn.functional.linear(x, w, b)
    return out
"""


def nested_sum_leaf(E, term, depth):
    """Follow `depth` nested uninterpreted sums: returns (list of (SumTerm, index symbol)), leaf summand term."""
    chain = []
    cur = term
    for t in range(depth):
        ss = sums_in(E, cur)
        if len(ss) != 1:
            return None
        k = z3.Int(f"n{t}")
        chain.append((ss[0], k))
        cur = ss[0].summand(k)
    return chain, cur


def linear_backward(run):
    for wkind in ("qint8-axis0", "qint4-axis0", "qfloat8-axis0"):
        for akind in ("float", "qint8"):
            for brank in (1, 2, 3):
                for flags in ((True, True, True), (False, True, True), (True, False, True), (True, True, False)):
                    if run.tier == "quick" and flags != (True, True, True) and not (wkind == "qint8-axis0" and brank == 1):
                        continue
                    inst = {"weight": wkind, "activation": akind, "input_rank": brank + 1, "needs_input_grad": list(flags)}
                    run.count_instance(weight=wkind, activation=akind, input_rank=brank + 1, flags=str(flags))
                    E = OC.engine(run)
                    E.load_module("optimum/quanto/library/__init__.py")
                    E.load_module(OC.QFUNC)
                    QTL = E.get(f"{OC.QFUNC}::QTensorLinear")
                    K, N = z3.Ints("K N")
                    bs = [z3.Int(f"b{t}") for t in range(brank)]

                    def prog(E2, wkind=wkind, akind=akind, flags=flags, bs=bs):
                        for v in [K, N] + bs:
                            E2.assume(v >= 1)
                        h = OC.H(E2, "qint8", 0, "float32")
                        w = make_weight(E2, h, wkind, N, K, "float32")
                        x = make_act(E2, h, akind, bs + [K], "float32")
                        b = new_input(E2, "B", "float32", [N])
                        go = new_input(E2, "GO", "float32", bs + [N])
                        ctx = Obj(E2.ext_modules["builtins"].entries["object"])
                        ctx.fields["needs_input_grad"] = flags
                        ctx.fields["save_for_backward"] = Builtin("save_for_backward", lambda E3, *ts: ctx.fields.__setitem__("saved_tensors", tuple(ts)))
                        fwd, _ = QTL.lookup("forward")
                        out = E2.call(fwd, [ctx, x, w, b], {})
                        saved = ctx.fields.get("saved_tensors")
                        bwd, _ = QTL.lookup("backward")
                        grads = E2.call(bwd, [ctx, go], {})
                        return x, w, saved, grads, OC.deq(E2, w), OC.deq(E2, x)

                    tag = f"{wkind}/{akind}/rank{brank+1}/{''.join('T' if f else 'F' for f in flags)}"
                    try:
                        res = E.explore(Builtin("c11", prog), lambda E2: ([], {}), name="C11.linear")
                    except Unsupported as u:
                        run.undecide(f"C11/linear-backward[{tag}]", u, inst)
                        continue
                    run.absorb(E)
                    if not run.expect_paths(res, f"C11/linear-backward[{tag}]", inst):
                        continue
                    rp = lambda m, s, i=dict(inst): replay_linear(m, s, i)
                    for pi, r in enumerate(res):
                        if r.outcome != "return":
                            run.add(f"C11/backward-does-not-raise[{tag}]/path{pi}", r.hyps, z3.BoolVal(False), "property", inst, {"outcome": repr(r.value)[:200]}, replay=rp)
                            continue
                        E.focus(r)
                        x, w, saved, grads, wd, xd = r.value
                        run.add(f"C11/forward-saves-input-and-weight[{tag}]/path{pi}", r.hyps, z3.BoolVal(isinstance(saved, tuple) and len(saved) == 2 and saved[0] is x and saved[1] is w),
                                "property", inst, replay=rp)
                        ok3 = isinstance(grads, tuple) and len(grads) == 3
                        run.add(f"C11/three-gradients[{tag}]/path{pi}", r.hyps, z3.BoolVal(ok3), "property", inst, replay=rp)
                        if not ok3:
                            continue
                        gin, gw, gb = grads
                        for nme, gval, flag in (("input", gin, flags[0]), ("weight", gw, flags[1]), ("bias", gb, flags[2])):
                            if not flag:
                                run.add(f"C11/no-gradient-when-not-needed[{tag}]/{nme}/path{pi}", r.hyps, z3.BoolVal(gval is None), "property", inst, replay=rp)
                        gof = z3.Function("GO", *([z3.IntSort()] * (brank + 1)), z3.RealSort())
                        # ---- input gradient: gin[.., i] == sum_o GO[.., o] * deq(W)[o, i]
                        if flags[0]:
                            okk = isinstance(gin, STensor)
                            run.add(f"C11/input-gradient-shape[{tag}]/path{pi}", r.hyps, lib.shape_eq(gin.shape, bs + [K]) if okk else z3.BoolVal(False), "property", inst, replay=rp)
                            if okk and len(gin.shape) == brank + 1:
                                ids, inb = idx_vars("g", bs + [K])
                                E.drain()
                                term = gin.elem(ids)
                                lf = nested_sum_leaf(E, term, 1)
                                if lf is None or not z3.eq(term, occurrences(term, lf[0][0][0].term.decl().name())[0]):
                                    run.undecide(f"C11/input-gradient[{tag}]/path{pi}", "input gradient element is not a single contraction", inst)
                                else:
                                    (S, k), = lf[0]
                                    leaf = lf[1]
                                    want = gof(*ids[:-1], k) * wd.elem([k, ids[-1]])
                                    facts = E.drain() + list(E.ps.get("lazy_facts", []))
                                    run.add(f"C11/input-gradient-is-gO-times-dequantized-weight[{tag}]/path{pi}", r.hyps + inb + facts + [k >= 0, k < N],
                                            z3.And(leaf == want, zi(S.bound) == N), "property", inst, replay=rp, timeout=30)
                        # ---- weight gradient: gw[o, i] == sum_n GO2[n, o] * deq(X)2[n, i]   (same row order on both operands)
                        if flags[1]:
                            okk = isinstance(gw, STensor)
                            run.add(f"C11/weight-gradient-shape[{tag}]/path{pi}", r.hyps, lib.shape_eq(gw.shape, [N, K]) if okk else z3.BoolVal(False), "property", inst, replay=rp)
                            if okk and len(gw.shape) == 2:
                                o, i = z3.Ints("o i")
                                E.drain()
                                term = gw.elem([o, i])
                                lf = nested_sum_leaf(E, term, 1)
                                if lf is None:
                                    run.undecide(f"C11/weight-gradient[{tag}]/path{pi}", "weight gradient element is not a single contraction", inst)
                                else:
                                    (S, n), = lf[0]
                                    leaf = lf[1]
                                    # row n of the flattened batch = multi-index unflat(n) of the batch dims (row-major), for BOTH operands
                                    from qvc.tm_index import unflat_index
                                    bidx = unflat_index(bs, n) if brank > 1 else [n]
                                    want = gof(*bidx, o) * xd.elem(list(bidx) + [i])
                                    facts = E.drain() + list(E.ps.get("lazy_facts", []))
                                    rows = 1
                                    for b_ in bs:
                                        rows = rows * b_
                                    run.add(f"C11/weight-gradient-is-gO^T-times-dequantized-input[{tag}]/path{pi}",
                                            r.hyps + facts + [o >= 0, o < N, i >= 0, i < K, n >= 0, n < rows], z3.And(leaf == want, zi(S.bound) == rows), "property", inst,
                                            replay=rp, timeout=30)
                        # ---- bias gradient: gb[o] == sum over all leading dims of GO[.., o]
                        if flags[2]:
                            okk = isinstance(gb, STensor)
                            run.add(f"C11/bias-gradient-shape[{tag}]/path{pi}", r.hyps, lib.shape_eq(gb.shape, [N]) if okk else z3.BoolVal(False), "property", inst, replay=rp)
                            if okk and len(gb.shape) == 1:
                                o = z3.Int("o")
                                E.drain()
                                term = gb.elem([o])
                                lf = nested_sum_leaf(E, term, brank)
                                if lf is None:
                                    run.undecide(f"C11/bias-gradient[{tag}]/path{pi}", "bias gradient element is not a nest of sums over the leading dims", inst)
                                else:
                                    chain, leaf = lf
                                    ks = [k for _, k in chain]
                                    # the sums run over the leading dims, each exactly once (any order)
                                    bounds = sorted(str(z3.simplify(zi(S.bound))) for S, _ in chain)
                                    okb = bounds == sorted(str(b_) for b_ in bs)
                                    order = {str(z3.simplify(zi(S.bound))): k for S, k in chain}
                                    idx = [order.get(str(b_)) for b_ in bs]
                                    facts = E.drain()
                                    if okb and all(x_ is not None for x_ in idx) and len(set(map(str, bs))) == len(bs):
                                        run.add(f"C11/bias-gradient-sums-gO-over-leading-dims[{tag}]/path{pi}", r.hyps + facts, leaf == gof(*idx, o), "property", inst, replay=rp)
                                    else:
                                        run.add(f"C11/bias-gradient-sums-gO-over-leading-dims[{tag}]/path{pi}", r.hyps, z3.BoolVal(bool(okb)), "property", inst, replay=rp)


def linear_dispatch(run):
    """torch.nn.functional.linear on a quantized weight reaches QTensorLinear.apply with the SAME arguments and with gradient
    recording left as the caller set it - whatever requires grad among weight and bias (a frozen layer must still pass the gradient
    of its input to the layers before it)."""
    for wkind in ("qint8-axis0", "qint4-axis0"):
        for w_rg in (False, True):
            for bias in ("none", "no-grad", "grad"):
                for ambient in (True, False):
                    inst = {"lemma": "linear dispatch", "weight": wkind, "weight_requires_grad": w_rg, "bias": bias, "ambient_grad": ambient}
                    run.count_instance(**{"ld_w": wkind, "ld_wrg": w_rg, "ld_bias": bias, "ld_amb": ambient})
                    E = OC.engine(run)
                    E.load_module("optimum/quanto/library/__init__.py")
                    E.load_module(OC.QFUNC)
                    lin = E.snippet("""
def call_linear(x, w, b):
    f = get_qtensor_func(torch.nn.functional.linear)
    return f(x, w, b)
""", OC.QFUNC)
                    K, N, B = z3.Ints("K N B")

                    def prog(E2, wkind=wkind, w_rg=w_rg, bias=bias, ambient=ambient):
                        for v in (K, N, B):
                            E2.assume(v >= 1)
                        h = OC.H(E2, "qint8", 0, "float32")
                        w = make_weight(E2, h, wkind, N, K, "float32")
                        w.fields["_w_requires_grad"] = w_rg
                        x = new_input(E2, "X", "float32", [B, K])
                        x.requires_grad = True
                        b = None
                        if bias != "none":
                            b = new_input(E2, "B", "float32", [N])
                            b.requires_grad = (bias == "grad")
                        E2.ps["grad_enabled"] = ambient
                        E2.ps["apply_log"] = []
                        E2.call(lin, [x, w, b], {})
                        return x, w, b, list(E2.ps["apply_log"]), E2.ps.get("grad_enabled", True)

                    tag = f"{wkind}/w_rg={w_rg}/bias={bias}/ambient={ambient}"
                    try:
                        res = E.explore(Builtin("c11d", prog), lambda E2: ([], {}), name="C11.dispatch")
                    except Unsupported as u:
                        run.undecide(f"C11/linear-dispatch[{tag}]", u, inst)
                        continue
                    run.absorb(E)
                    if not run.expect_paths(res, f"C11/linear-dispatch[{tag}]", inst):
                        continue
                    rp = lambda m, s, i=dict(inst): replay_dispatch(m, s, i)
                    for pi, r in enumerate(res):
                        if r.outcome != "return":
                            run.add(f"C11/linear-dispatch-does-not-raise[{tag}]/path{pi}", r.hyps, z3.BoolVal(False), "property", inst, {"outcome": repr(r.value)[:200]}, replay=rp)
                            continue
                        x, w, b, log, after = r.value
                        log = [e for e in log if e[0] == "QTensorLinear"]   # (inner Functions, e.g. the dequantizer of packed weights, are not the subject)
                        ok = len(log) == 1 and log[0][0] == "QTensorLinear" and len(log[0][2]) == 3 and log[0][2][0] is x and log[0][2][1] is w and log[0][2][2] is b
                        run.add(f"C11/linear-applies-the-function-to-its-own-arguments[{tag}]/path{pi}", r.hyps, z3.BoolVal(bool(ok)), "property", inst, replay=rp)
                        run.add(f"C11/linear-keeps-the-callers-grad-mode[{tag}]/path{pi}", r.hyps, z3.BoolVal(bool(log) and all(e[1] == ambient for e in log) and after == ambient),
                                "property", inst, {"grad_mode_at_apply": [e[1] for e in log], "ambient": ambient}, replay=rp)


def replay_dispatch(model, seed, inst):
    import torch
    from optimum.quanto import qtypes, quantize_weight

    torch.manual_seed(seed)
    qt = qtypes["qint8" if inst["weight"].startswith("qint8") else "qint4"]
    w = quantize_weight(torch.randn(4, 8), qt, 0).requires_grad_(False)
    if inst["weight_requires_grad"]:
        return None   # (a quantized weight that requires grad cannot be built from python; the symbolic case is kept for completeness)
    x = torch.randn(3, 8, requires_grad=True)
    b = None if inst["bias"] == "none" else torch.randn(4, requires_grad=(inst["bias"] == "grad"))
    with torch.set_grad_enabled(inst["ambient_grad"]):
        out = torch.nn.functional.linear(x, w, b)
    if inst["ambient_grad"] and not out.requires_grad:
        return {"what": "the output of a linear with a frozen quantized weight is cut from the graph: its input gets no gradient", "bias": inst["bias"]}
    if inst["ambient_grad"]:
        out.sum().backward()
        want = w.dequantize().sum(0).expand(3, 8)
        if x.grad is None or not torch.allclose(x.grad, want, atol=1e-5):
            return {"what": "input gradient differs from gO @ dequantized weight"}
    return None



def reloaded_frozen_weights(run):
    """A frozen quantized weight stays out of training after a state_dict round trip: loaded into an unfrozen or a frozen module,
    with or without assign, the installed weight does not require grad."""
    for weights in ("qint8", "qint4"):
        for target in ("unfrozen", "frozen"):
            for assign in (False, True):
                inst = {"lemma": "reloaded frozen weight", "weights": weights, "target": target, "assign": assign}
                run.count_instance(**{"rl_w": weights, "rl_t": target, "rl_a": assign})
                E = OC.engine(run)
                E.load_module(QLIN)
                F, O = z3.Ints("F O")

                def prog(E2, weights=weights, target=target, assign=assign):
                    E2.assume(F >= 1)
                    E2.assume(O >= 1)
                    qt = E2.load_module(OC.QTYPE).env.lookup(weights)
                    QL = E2.get(f"{QLIN}::QLinear")
                    src = E2.call(QL, [F, O], {"weights": qt})
                    E2.call(E2.getattr(src, "freeze"), [], {})
                    sd = E2.call(E2.getattr(src, "state_dict"), [], {"prefix": "layer."})
                    tgt = E2.call(QL, [F, O], {"weights": qt})
                    if target == "frozen":
                        E2.call(E2.getattr(tgt, "freeze"), [], {})
                    before_rg = getattr(tgt.fields["weight"], "requires_grad", None)
                    E2.call(E2.getattr(tgt, "_load_from_state_dict"), [dict(sd), "layer.", {"assign_to_params_buffers": assign}, True, [], [], []], {})
                    return tgt, before_rg

                tag = f"{weights}/{target}/assign={assign}"
                try:
                    res = E.explore(Builtin("c11r", prog), lambda E2: ([], {}), name="C11.reload")
                except Unsupported as u:
                    run.undecide(f"C11/reload[{tag}]", u, inst)
                    continue
                run.absorb(E)
                if not run.expect_paths(res, f"C11/reload[{tag}]", inst):
                    continue
                rp = lambda m, s, i=dict(inst): replay_reload(m, s, i)
                for pi, r in enumerate(res):
                    if r.outcome != "return":
                        continue   # C10's business
                    tgt, before_rg = r.value
                    fw = tgt.fields["weight"]
                    rg = fw.fields.get("_w_requires_grad") if is_wrapper(fw) else getattr(fw, "requires_grad", None)
                    run.add(f"C11/frozen/reloaded-frozen-weight-does-not-require-grad[{tag}]/path{pi}", r.hyps, z3.BoolVal(is_wrapper(fw) and rg is False), "property", inst,
                            {"requires_grad": rg, "target_weight_required_grad_before": before_rg}, replay=rp)


def replay_reload(model, seed, inst):
    import torch
    from optimum.quanto import qtypes
    from optimum.quanto.nn import QLinear
    from optimum.quanto.tensor import QTensor

    torch.manual_seed(seed)
    qt = qtypes[inst["weights"]]
    src = QLinear(16, 8, weights=qt)
    src.freeze()
    tgt = QLinear(16, 8, weights=qt)
    if inst["target"] == "frozen":
        tgt.freeze()
    tgt.load_state_dict(src.state_dict(), assign=inst["assign"])
    if not isinstance(tgt.weight, QTensor):
        return None
    if tgt.weight.requires_grad:
        return {"what": "a frozen quantized weight reloaded from a state_dict requires grad", "target": inst["target"], "assign": inst["assign"]}
    out = tgt(torch.randn(2, 16, requires_grad=True)).sum()
    out.backward()
    if tgt.weight.grad is not None:
        return {"what": "a reloaded frozen quantized weight received a gradient"}
    return None



def twin_trainability(run):
    """The bias / weight of an unfrozen quantized module receive the float module's gradients only if they are still trained: a parameter
    of the source module that requires grad must require grad in the quantized twin (whatever the flags of the source's other parameters)."""
    from props import C08

    for kind in ("linear", "conv2d"):   # QLayerNorm has no quantized weight and exists only with quantized activations
        for frozen in ("weight", "bias", None):
            inst = {"lemma": "twin trainability", "module": kind, "source_parameter_not_trained": frozen}
            run.count_instance(**{"tt_module": kind, "tt_frozen": frozen})
            E = C08.engine(run)
            qm = E.get(f"{QMOD}::quantize_module")

            def prog(E2, kind=kind, frozen=frozen):
                src = {"linear": C08.mk_linear, "conv2d": C08.mk_conv, "layernorm": C08.mk_ln}[kind](E2, "m")
                if frozen is not None:
                    p = src.fields[frozen]
                    if not isinstance(p, STensor):
                        raise Unsupported("source parameter is not a plain tensor")
                    p.requires_grad = False
                flags = {n: src.fields[n].requires_grad for n in ("weight", "bias")}
                qt = E2.load_module(OC.QTYPE).env.lookup
                q = E2.call(qm, [src], {"weights": qt("qint8"), "activations": None})
                return flags, q

            tag = f"{kind}/source-{frozen}-not-trained"
            try:
                res = E.explore(Builtin("c11tt", prog), lambda E2: ([], {}), name="C11.twin_trainability")
            except Unsupported as u:
                run.undecide(f"C11/twin-trainability[{tag}]", u, inst)
                continue
            run.absorb(E)
            if not run.expect_paths(res, f"C11/twin-trainability[{tag}]", inst):
                continue
            rp = lambda m, s, i=dict(inst): replay_trainability(m, s, i)
            for pi, r in enumerate(res):
                if r.outcome != "return":
                    continue   # C08's business
                flags, q = r.value
                if not isinstance(q, Obj):
                    continue
                for n, was in flags.items():
                    if was is not True:
                        continue
                    tw = q.fields.get(n)
                    rg = tw.fields.get("_w_requires_grad") if is_wrapper(tw) else getattr(tw, "requires_grad", None)
                    run.add(f"C11/unfrozen/twin-{n}-still-trained-when-the-source's-is[{tag}]/path{pi}", r.hyps, z3.BoolVal(rg is True), "property", inst,
                            {"twin_requires_grad": rg, "source_flags": flags}, replay=rp)


def replay_trainability(model, seed, inst):
    import torch
    from optimum.quanto import qint8
    from optimum.quanto.nn import quantize_module

    torch.manual_seed(seed)
    kind = inst["module"]
    if kind == "linear":
        m, x = torch.nn.Linear(16, 8), torch.randn(3, 16)
    elif kind == "conv2d":
        m, x = torch.nn.Conv2d(4, 6, 3), torch.randn(2, 4, 8, 8)
    else:
        m, x = torch.nn.LayerNorm(16), torch.randn(3, 16)
    fr = inst["source_parameter_not_trained"]
    if fr:
        getattr(m, fr).requires_grad_(False)
    q = quantize_module(m, weights=qint8)
    if q is None:
        return None
    m(x).sum().backward()
    out = q(x).sum()
    if out.requires_grad:
        out.backward()
    for n in ("weight", "bias"):
        if getattr(m, n).grad is not None and getattr(q, n).grad is None:
            return {"what": f"the float module's {n} receives a gradient, the unfrozen quantized twin's does not", "module": kind, "source_parameter_not_trained": fr,
                    "twin_requires_grad": bool(getattr(q, n).requires_grad)}
    return None


def differentiable_reads(run):
    """The gradient can only flow back to the producer of a quantized tensor through its differentiable entry point, dequantize() (an
    autograd Function), called while gradient recording is on.  Two call sites read quantized inputs on behalf of the user:
      (a) QModuleMixin.forward re-quantizing an input of another qtype / a per-axis input,
      (b) qfallback (every function quanto does not implement).
    Obligation: the dequantizer Function is applied to that very input, with the caller's grad mode."""
    from qvc.values import Builtin as _B
    # (a)
    for act, in_q, in_axis in (("qint8", "qfloat8_e4m3fn", None), ("qfloat8_e4m3fn", "qint8", None), ("qint8", "qint8", 0)):
        inst = {"lemma": "differentiable read", "site": "forward", "activations": act, "input_qtype": in_q, "input_axis": in_axis}
        run.count_instance(**{"dr_act": act, "dr_in": in_q, "dr_axis": in_axis})
        E = OC.engine(run)
        E.load_module(QLIN)
        F, O, B = z3.Ints("F O B")

        def prog(E2, act=act, in_q=in_q, in_axis=in_axis):
            for v in (F, O, B):
                E2.assume(v >= 1)
            qt = E2.load_module(OC.QTYPE).env.lookup
            m = E2.call(E2.get(f"{QLIN}::QLinear"), [F, O], {"weights": qt("qint8"), "activations": qt(act)})
            x = OC.H(E2, in_q, in_axis).q([B, F], name="X")
            x.fields["_w_requires_grad"] = True
            E2.ps["grad_enabled"] = True
            E2.ps["apply_log"] = []
            try:
                E2.call(E2.getattr(m, "forward"), [x], {})
            except Exception as e:      # a forward that raises is C05/C08's business
                if e.__class__.__name__ != "RaiseEx":
                    raise
            return x, list(E2.ps["apply_log"])

        tag = f"forward/a={act}/input={in_q}/axis{in_axis}"
        try:
            res = E.explore(_B("c11dr", prog), lambda E2: ([], {}), name="C11.diffread")
        except Unsupported as u:
            run.undecide(f"C11/differentiable-read[{tag}]", u, inst)
            continue
        run.absorb(E)
        if not run.expect_paths(res, f"C11/differentiable-read[{tag}]", inst):
            continue
        for pi, r in enumerate(res):
            if r.outcome != "return":
                continue
            x, log = r.value
            deq = [e for e in log if e[0].endswith("Dequantizer") and e[2] and e[2][0] is x]
            run.add(f"C11/requantized-input-is-read-through-its-dequantizer[{tag}]/path{pi}", r.hyps, z3.BoolVal(len(deq) >= 1 and all(e[1] is True for e in deq)), "property", inst,
                    {"functions_applied": [e[0] for e in log]}, replay=lambda m_, s_, i=dict(inst): replay_diffread(m_, s_, i))
    # (b)
    inst = {"lemma": "differentiable read", "site": "qfallback"}
    E = OC.engine(run)
    qf = E.get(f"{OC.QTENSOR}::qfallback")

    def prog_b(E2):
        h = OC.H(E2, "qint8", None)
        ds = h.dims(2)
        q1, q2 = h.q(ds), h.q(ds)
        E2.ps["grad_enabled"] = True
        E2.ps["apply_log"] = []
        seen = {}

        def generic(E3, *a, **k):
            seen["grad_at_call"] = E3.ps.get("grad_enabled", True)
            return a[0] if a else None
        E2.call(qf, [_B("generic", generic), q1, 3], {"other": q2})
        return q1, q2, list(E2.ps["apply_log"]), seen.get("grad_at_call"), E2.ps.get("grad_enabled", True)

    try:
        res = E.explore(_B("c11fb", prog_b), lambda E2: ([], {}), name="C11.diffread.qfallback")
        run.absorb(E)
        for pi, r in enumerate(res):
            if r.outcome != "return":
                continue
            q1, q2, log, g_call, g_after = r.value
            ok = all(any(e[0].endswith("Dequantizer") and e[2] and e[2][0] is q and e[1] is True for e in log) for q in (q1, q2)) and g_call is True and g_after is True
            run.add(f"C11/qfallback-dequantizes-with-the-callers-grad-mode/path{pi}", r.hyps, z3.BoolVal(bool(ok)), "property", inst,
                    {"applied (function, grad mode)": [(e[0], e[1]) for e in log], "grad_mode_at_the_call": g_call}, replay=lambda m_, s_, i=dict(inst): replay_diffread(m_, s_, i))
    except Unsupported as u:
        run.undecide("C11/differentiable-read[qfallback]", u, inst)


def replay_diffread(model, seed, inst):
    import torch
    from optimum.quanto import absmax_scale, qtypes, quantize_activation
    from optimum.quanto.nn import QLinear
    from optimum.quanto.tensor.quantizers import SymmetricQuantizer

    torch.manual_seed(seed)
    if inst.get("site") == "forward":
        x = torch.randn(3, 8, requires_grad=True)
        qi = qtypes[inst["input_qtype"]]
        ax = inst["input_axis"]
        sc = absmax_scale(x.detach(), qi, ax)
        qx = SymmetricQuantizer.apply(x, qi, ax, sc)
        m = QLinear(8, 4, weights=qtypes["qint8"], activations=qtypes[inst["activations"]])
        m.input_scale.fill_(0.05); m.output_scale.fill_(0.05)
        try:
            out = m(qx)
        except Exception:
            return None
        out.dequantize().sum().backward()
        if x.grad is None:
            return {"what": "no gradient reaches the producer of a quantized input that the module re-quantizes", "activations": inst["activations"], "input_qtype": inst["input_qtype"]}
        return None
    x = torch.randn(3, 8, requires_grad=True)
    qx = SymmetricQuantizer.apply(x, qtypes["qint8"], None, absmax_scale(x.detach(), qtypes["qint8"]))
    loss = torch.nn.functional.log_softmax(qx, dim=-1).sum()
    if loss.grad_fn is None:
        return {"what": "a function that falls back to dequantized operands returns a result without autograd history"}
    loss.backward()
    if x.grad is None:
        return {"what": "no gradient flows through a fallback function"}
    return None



def freshness(run):
    """Until frozen every access to qweight re-quantizes from the CURRENT float weights (no hidden cache); frozen weights get no gradient."""
    for weights in ("qint8", "qint4"):
        for grad_mode in ("in-place", "through-data"):
            inst = {"lemma": "qweight freshness", "weights": weights, "update": grad_mode}
            E = OC.engine(run)
            E.load_module(QLIN)
            E.models["torch.is_grad_enabled"] = Builtin("is_grad_enabled", lambda E2: E2.choice("grad_enabled"))
            F, O = z3.Ints("F O")

            def prog(E2, weights=weights, grad_mode=grad_mode):
                E2.assume(F >= 1)
                E2.assume(O >= 1)
                qt = E2.load_module(OC.QTYPE).env.lookup(weights)
                mod = E2.call(E2.get(f"{QLIN}::QLinear"), [F, O], {"weights": qt})
                mod.fresh = False
                q1 = E2.getattr(mod, "qweight")
                nw = len(E2.writes)
                q1b = E2.getattr(mod, "qweight")
                w_second = list(E2.writes[nw:])
                # optimizer step: the float weight is replaced by new values (in place through .data)
                neww = new_input(E2, "W2", "float32", [O, F])
                neww.attrs["is_parameter"] = True
                old_w = mod.fields["weight"]
                from qvc.tm_index import copy_
                copy_(E2, E2.getattr(old_w, "data") if grad_mode == "through-data" else old_w, neww)
                q2 = E2.getattr(mod, "qweight")
                direct = E2.call(E2.get("optimum/quanto/tensor/qweight.py::quantize_weight"), [mod.fields["weight"]],
                                 {"qtype": qt, "axis": 0, "group_size": mod.fields["weight_group_size"], "optimizer": None})
                E2.call(E2.getattr(mod, "freeze"), [], {})
                return mod, q1, q1b, q2, direct, w_second

            try:
                res = E.explore(Builtin("fresh", prog), lambda E2: ([], {}), name="C11.fresh")
            except Unsupported as u:
                run.undecide(f"C11/freshness[{weights}/{grad_mode}]", u, inst)
                continue
            run.absorb(E)
            if not run.expect_paths(res, f"C11/freshness[{weights}]", inst):
                continue
            rp = lambda m, s, i=dict(inst): replay_fresh(m, s, i)
            for pi, r in enumerate(res):
                tag = f"{weights}/{grad_mode}/path{pi}"
                if r.outcome != "return":
                    run.add(f"C11/freshness-runs[{tag}]", r.hyps, z3.BoolVal(False), "property", inst, {"outcome": repr(r.value)[:200]}, replay=rp)
                    continue
                E.focus(r)
                mod, q1, q1b, q2, direct, w_second = r.value
                hidden = [w for w in w_second if w[0] == "attr" and w[1] is mod]
                run.add(f"C11/qweight-keeps-no-hidden-state[{tag}]", r.hyps, z3.BoolVal(not hidden and q2 is not q1), "property", inst,
                        {"writes": [str(w[2]) for w in hidden]}, replay=rp)
                # after the update the quantized weight is computed from the NEW values: same scale / code terms as a direct quantization
                def codes(q):
                    d = q.fields["_data"]
                    return d if isinstance(d, STensor) else d.fields.get("_ghost_codes") or d.fields["_data"].attrs.get("ghost_codes")
                a, b = codes(q2), codes(direct)
                ids, inb = idx_vars("i", a.shape)
                E.drain()
                ea, eb = a.elem(ids), b.elem(ids)
                # reductions of the two computations have fresh names: relate them through their defining axioms (same source values)
                from qvc.tm_tensor import reduction_facts
                facts = E.drain() + reduction_facts(E, extra_points=[ids], rounds=2) + E.drain()
                reds = E.ps.get("reductions", [])
                same_src = []
                by_kind = {}
                for ri in reds:
                    by_kind.setdefault((ri.kind, tuple(ri.dims), len(ri.src.shape)), []).append(ri)
                touched_w2 = any(nm == "W2" for nm, _, _ in E.ps.get("touched", []))
                if not touched_w2:
                    # grouped weights: the codes are functions of the grouped tensor; look at what was grouped (the contract keeps the source)
                    for gt in E.ps.get("groups", []):
                        base = gt.attrs["grouped_from"][0]
                        bi, _ = idx_vars("gb", base.shape)
                        n0 = len(E.ps.get("touched", []))
                        base.elem(bi)
                        if any(nm == "W2" for nm, _, _ in E.ps.get("touched", [])[n0:]):
                            touched_w2 = True
                run.add(f"C11/qweight-reads-the-current-weights[{tag}]", r.hyps, z3.BoolVal(bool(touched_w2)), "property", inst, replay=rp)
                # frozen weights receive no gradient
                fw = mod.fields["weight"]
                rg = fw.fields.get("_w_requires_grad") if is_wrapper(fw) else getattr(fw, "requires_grad", None)
                run.add(f"C11/frozen/frozen-weight-does-not-require-grad[{tag}]", r.hyps, z3.BoolVal(rg is False), "property", inst, replay=rp)


def build(run):
    run.assume("A-ENGINE", "A-PY", "A-REAL", "A-TORCH-RED matmul / sum are exact finite sums", "A-TORCH-NN autograd composes Function.backward as documented; "
               "needs_input_grad / save_for_backward / saved_tensors", "A-TORCH-IDX view(-1, features) is the row-major flattening")
    run.assumptions += ["dimensions >= 1; input ranks 2..4", "Conv2d twin: only the two identity backward contracts are on quanto's side (PyTorch's convolution backward after qfallback)",
                        "scales / zero-points get None from the quantizer backward (they are not inputs of QTensorLinear)"]
    run.not_decided += ["that autograd composes these functions as specified", "Conv2d backward"]
    E0 = run.engine()
    for key in (f"{OC.QFUNC}::QTensorLinear.forward", f"{OC.QFUNC}::QTensorLinear.backward", f"{QMOD}::QModuleMixin.qweight", f"{QMOD}::QModuleMixin.freeze"):
        run.under_contract(E0, key)
    lib.lean_lemmas(run, ["sum_linear", "flat_div", "flat_mod"])
    for part in (identity_backwards, linear_backward, linear_dispatch, differentiable_reads, reloaded_frozen_weights, twin_trainability, freshness):
        try:
            part(run)
        except Unsupported as u:
            run.undecide(f"C11/{part.__name__}", f"unsupported: {u}")


# ------------------------------------------------------------------------------------------------ native replay
def replay_ste(model, seed):
    import torch
    from optimum.quanto import absmax_scale, qint8, quantize_activation

    torch.manual_seed(seed)
    x = (torch.randn(4, 8) * 5).requires_grad_(True)
    s = torch.tensor(0.01)
    q = quantize_activation(x, qint8, s)
    g = torch.randn(4, 8)
    q.dequantize().backward(g)
    if not torch.equal(x.grad, g):
        return {"what": "gradient through quantize/dequantize is not the identity", "saturated_elements": int((x.abs() > 1.27).sum())}
    return None


def replay_linear(model, seed, inst):
    import torch
    from optimum.quanto import absmax_scale, qtypes, quantize_activation, quantize_weight

    torch.manual_seed(seed)
    wq = {"qint8-axis0": "qint8", "qint4-axis0": "qint4", "qfloat8-axis0": "qfloat8_e4m3fn"}[inst["weight"]]
    shape = {2: [3, 8], 3: [2, 3, 8], 4: [2, 2, 3, 8]}[inst["input_rank"]]
    w = torch.randn(5, 8, requires_grad=True)
    b = torch.randn(5, requires_grad=True)
    x = torch.randn(shape, requires_grad=True)
    qw = quantize_weight(w, qtypes[wq], 0)
    xin = x if inst["activation"] == "float" else quantize_activation(x, qtypes["qint8"], absmax_scale(x, qtypes["qint8"]).detach())
    out = torch.nn.functional.linear(xin, qw, b)
    g = torch.randn_like(out)
    out.backward(g)
    xd = (xin.dequantize() if hasattr(xin, "dequantize") else xin).detach()
    wd = qw.dequantize().detach()
    want_x = g @ wd
    want_w = g.reshape(-1, 5).t() @ xd.reshape(-1, 8)
    want_b = g.reshape(-1, 5).sum(0)
    for nme, got, want in (("input", x.grad, want_x), ("weight", w.grad, want_w), ("bias", b.grad, want_b)):
        if got is None or not torch.allclose(got, want, atol=1e-4, rtol=1e-4):
            return {"what": f"{nme} gradient differs from the float linear backward", "input_rank": inst["input_rank"]}
    return None


def replay_fresh(model, seed, inst):
    import torch
    from optimum.quanto import qtypes
    from optimum.quanto.nn import QLinear

    torch.manual_seed(seed)
    for nograd in (True, False):
        m = QLinear(8, 4, weights=qtypes[inst["weights"]])
        x = torch.randn(2, 8)
        ctxm = torch.no_grad() if nograd else torch.enable_grad()
        with ctxm:
            y1 = m(x)
        m.weight.data.add_(1.0)
        with ctxm:
            y2 = m(x)
        ref = torch.nn.functional.linear(x, m.qweight.dequantize(), m.bias)
        if not torch.allclose(y2, ref, atol=1e-5):
            return {"what": "forward after a weight update still uses the old quantized weights", "no_grad": nograd}
    m = QLinear(8, 4, weights=qtypes[inst["weights"]])
    m.freeze()
    out = m(torch.randn(2, 8))
    out.sum().backward()
    if m.weight.grad is not None:
        return {"what": "a frozen (quantized) weight received a gradient", "grad_shape": list(m.weight.grad.shape)}
    return None


def replay_file(path):
    import json
    rec = json.load(open(path))
    inst = rec["instance"]
    if inst.get("lemma") == "identity backward":
        r = replay_ste({}, 0)
    elif inst.get("lemma") == "qweight freshness":
        r = replay_fresh({}, 0, inst)
    elif inst.get("lemma") == "differentiable read":
        r = replay_diffread({}, 0, inst)
    elif inst.get("lemma") == "reloaded frozen weight":
        r = replay_reload({}, 0, inst)
    elif inst.get("lemma") == "linear dispatch":
        r = replay_dispatch({}, 0, inst)
    else:
        r = replay_linear({}, 0, inst)
    print(json.dumps(r, indent=1, default=str))
    return 1 if r else 0
