"""C09 - freeze() preserves outputs bit-for-bit, is idempotent and compacts storage (DESIGN 6.9).

qweight / freeze contracts with quantize_weight as an uninterpreted PURE function (its call arguments are recorded): the weight a
frozen module stores is the value of the very call the dynamic path makes; frames; class invariants give the storage bound;
moves / copies keep codes (clone, _to_copy, detach).
"""
import z3

from props import inv
from props import ops_common as OC
from qvc import lib
from qvc.interp import RaiseEx
from qvc.lib import idx_vars, zi
from qvc.sym import Unsupported
from qvc.tm_tensor import call_aten, is_wrapper, new_input
from qvc.values import AtenOp, Builtin, Device, DType, Obj, STensor

QMOD = "optimum/quanto/nn/qmodule.py"
QLIN = "optimum/quanto/nn/qlinear.py"
QCONV = "optimum/quanto/nn/qconv2d.py"
QUANT = "optimum/quanto/quantize.py"
QW = "optimum/quanto/tensor/qweight.py"


def engine(run):
    E = OC.engine(run)
    for m in (QLIN, QCONV, QUANT, "optimum/quanto/library/__init__.py", OC.QFUNC):
        E.load_module(m)
    return E


def same_tensor(a, b):
    from props.C10 import same_tensor as st
    return st(a, b)


def inner_equal(a, b):
    """Inner tensors / meta of two quantized tensors are equal."""
    if not (is_wrapper(a) and is_wrapper(b)) or a.cls is not b.cls:
        return z3.BoolVal(False)
    conj = [z3.BoolVal(a.fields["_qtype"] is b.fields["_qtype"] and a.fields["_axis"] == b.fields["_axis"]), lib.shape_eq(list(a.fields["_w_size"]), list(b.fields["_w_size"]))]
    for fld in ("_scale", "_zeropoint"):
        if fld in a.fields:
            conj.append(same_tensor(a.fields[fld], b.fields[fld]))
    da, db = a.fields["_data"], b.fields["_data"]
    if isinstance(da, STensor):
        conj.append(same_tensor(da, db) if isinstance(db, STensor) else z3.BoolVal(False))
    else:
        ga = da.fields.get("_ghost_codes") or da.fields["_data"].attrs.get("ghost_codes")
        gb = db.fields.get("_ghost_codes") or db.fields["_data"].attrs.get("ghost_codes") if is_wrapper(db) else None
        conj.append(same_tensor(ga, gb) if (ga is not None and gb is not None) else z3.BoolVal(False))
        conj.append(same_tensor(da.fields["_data"], db.fields["_data"]) if is_wrapper(db) else z3.BoolVal(False))
    return z3.And(*conj)


def lifecycle(run):
    for kind in ("linear", "conv2d"):
        for weights in ("qint8", "qfloat8_e4m3fn", "qint4", "qint2"):
            for act in (None, "qint8"):
                if run.tier == "quick" and kind == "conv2d" and (weights in ("qfloat8_e4m3fn", "qint2") or act):
                    continue
                inst = {"lemma": "freeze", "module": kind, "weights": weights, "activations": act}
                run.count_instance(**{"fz_module": kind, "fz_weights": weights, "fz_act": act})
                E = engine(run)
                real_qw = E.get(f"{QW}::quantize_weight")
                calls = []

                def qw_recorder(E2, args, kwargs):
                    # quantize_weight is executed for real (its own contract is C01-C03/C14); the call is recorded
                    E2._in_contract_target = f"{QW}::quantize_weight"
                    try:
                        out = E2.call_closure(real_qw, list(args), dict(kwargs))
                    finally:
                        E2._in_contract_target = None
                    calls.append((tuple(args), dict(kwargs), out))
                    return out

                E.contracts[f"{QW}::quantize_weight"] = qw_recorder
                F, O = z3.Ints("F O")

                def prog(E2, kind=kind, weights=weights, act=act):
                    del calls[:]
                    E2.assume(F >= 1)
                    E2.assume(O >= 1)
                    qt = E2.load_module(OC.QTYPE).env.lookup
                    kw = {"weights": qt(weights), "activations": qt(act) if act else None}
                    if kind == "linear":
                        m = E2.call(E2.get(f"{QLIN}::QLinear"), [F, O], kw)
                    else:
                        m = E2.call(E2.get(f"{QCONV}::QConv2d"), [F, O, 1], kw)
                    m.fresh = False
                    for v in m.fields.values():
                        if isinstance(v, STensor):
                            v.fresh = False
                    w0 = m.fields["weight"]
                    before = {k: v for k, v in m.fields.items()}
                    dyn = E2.getattr(m, "qweight")           # what a forward before freeze uses
                    n_dyn = len(calls)
                    nw = len(E2.writes)
                    E2.call(E2.getattr(m, "freeze"), [], {})
                    w_freeze = list(E2.writes[nw:])
                    n_fz = len(calls)
                    stored = m.fields["weight"]
                    after1 = E2.getattr(m, "qweight")         # what a forward after freeze uses
                    n_after = len(calls)
                    nw = len(E2.writes)
                    E2.call(E2.getattr(m, "freeze"), [], {})  # freeze again
                    w_freeze2 = list(E2.writes[nw:])
                    stored2 = m.fields["weight"]
                    return m, w0, before, dyn, stored, after1, stored2, w_freeze, w_freeze2, list(calls), (n_dyn, n_fz, n_after)

                tag = f"{kind}/w={weights}/a={act}"
                try:
                    res = E.explore(Builtin("c09", prog), lambda E2: ([], {}), name="C09.lifecycle")
                except Unsupported as u:
                    run.undecide(f"C09/lifecycle[{tag}]", u, inst)
                    continue
                run.absorb(E)
                if not run.expect_paths(res, f"C09/lifecycle[{tag}]", inst):
                    continue
                rp = lambda mo, sd, i=dict(inst): replay_freeze(mo, sd, i)
                for pi, r in enumerate(res):
                    if r.outcome != "return":
                        run.add(f"C09/freeze-does-not-raise[{tag}]/path{pi}", r.hyps, z3.BoolVal(False), "property", inst, {"outcome": repr(r.value)[:200]}, replay=rp)
                        continue
                    E.focus(r)
                    m, w0, before, dyn, stored, after1, stored2, w_freeze, w_freeze2, cl, (n_dyn, n_fz, n_after) = r.value
                    # dynamic path and freeze make the SAME call to the pure function quantize_weight (same weight object, qtype, axis, group size, optimizer)
                    ok_calls = (n_dyn == 1 and n_fz == 2 and n_after == 2)
                    if ok_calls:
                        (a1, k1, o1), (a2, k2, o2) = cl[0], cl[1]
                        ok_calls = len(a1) == len(a2) and all(x is y for x, y in zip(a1, a2)) and set(k1) == set(k2) and all(
                            (k1[k] is k2[k]) or (E.eq(k1[k], k2[k]) is True) for k in k1) and a1[0] is w0
                    run.add(f"C09/freeze-stores-the-value-the-dynamic-path-computes[{tag}]/path{pi}", r.hyps, z3.BoolVal(bool(ok_calls)), "property", inst,
                            {"calls": [n_dyn, n_fz, n_after]}, replay=rp)
                    if ok_calls:
                        run.add(f"C09/frozen-weight-holds-the-quantized-weight[{tag}]/path{pi}", r.hyps, inner_equal(cl[1][2], stored), "property", inst, replay=rp)
                    run.add(f"C09/frozen-qweight-is-the-stored-object[{tag}]/path{pi}", r.hyps, z3.BoolVal(after1 is stored), "property", inst, replay=rp)
                    run.add(f"C09/freeze-again-changes-nothing[{tag}]/path{pi}", r.hyps, inner_equal(stored, stored2), "property", inst, replay=rp)
                    # frames: only the binding self.weight is written
                    for nm, ws in (("freeze", w_freeze), ("freeze-again", w_freeze2)):
                        bad = [f"{w[0]} {getattr(w[1], 'name', getattr(getattr(w[1], 'cls', None), 'name', ''))}.{w[2]}" for w in ws
                               if (w[0] == "attr" and w[1] is m and w[2] != "weight") or (w[0] == "attr" and isinstance(w[1], Obj) and w[1] is not m and not w[1].fresh)
                               or (w[0] == "tensor" and not w[1].fresh)]
                        run.add(f"C09/{nm}-writes-only-the-weight[{tag}]/path{pi}", r.hyps, z3.BoolVal(not bad), "property", inst, {"writes": bad[:5]}, replay=rp)
                    same_rest = all(m.fields.get(k) is v for k, v in before.items() if k not in ("weight", "_parameters"))
                    run.add(f"C09/bias-scales-qtypes-untouched[{tag}]/path{pi}", r.hyps, z3.BoolVal(bool(same_rest)), "property", inst, replay=rp)
                    # compact storage with the requested qtype: class invariant of the stored weight
                    qt = E.load_module(OC.QTYPE).env.lookup
                    run.add(f"C09/stored-with-the-requested-qtype[{tag}]/path{pi}", r.hyps, z3.BoolVal(is_wrapper(stored) and stored.fields["_qtype"] is qt(weights)), "property", inst, replay=rp)
                    if is_wrapper(stored):
                        clauses = inv.inv_qbytes(stored) if stored.cls.name == "QBytesTensor" else inv.inv_qbits(stored)
                        for nme, f in clauses:
                            run.add(f"C09/compact:{nme}[{tag}]/path{pi}", r.hyps, f, "property", inst, replay=rp)
                        # the stored weight holds no autograd history (a retained graph keeps the float weight alive and breaks deepcopy)
                        def inner(t_):
                            for v_ in t_.fields.values():
                                if isinstance(v_, STensor):
                                    yield v_
                                elif is_wrapper(v_):
                                    yield from inner(v_)
                        hist = sorted(v_.name for v_ in inner(stored) if v_.attrs.get("grad_fn") or v_.requires_grad)
                        run.add(f"C09/frozen-weight-keeps-no-autograd-history[{tag}]/path{pi}", r.hyps, z3.BoolVal(not hist), "property", inst, {"tensors_with_history": hist[:4]},
                                replay=lambda mo, sd, i=dict(inst): replay_history(mo, sd, i))
                        if stored.cls.name == "QBytesTensor":
                            run.add(f"C09/compact:one-byte-per-element[{tag}]/path{pi}", r.hyps, z3.BoolVal(stored.fields["_data"].dtype in ("int8", "float8_e4m3fn", "float8_e5m2")), "property", inst, replay=rp)
                    for o in r.obligations:
                        if o.kind in ("assert", "callee-pre", "torch-pre"):
                            run.add(f"C09/no-runtime-error[{tag}]/path{pi}/{o.name}@{o.loc}", o.hyps, o.goal, "property", inst, replay=rp)


def moves_and_copies(run):
    """to(device) / clone (deepcopy) / detach of a frozen weight keep class, codes, scales, zero-points; a copied module treats an
    already quantized input exactly like the original (qtypes compare by value)."""
    for weights in ("qint8", "qfloat8_e4m3fn", "qint4", "qint2"):
        inst = {"lemma": "moves", "weights": weights}
        E = engine(run)
        F, O = z3.Ints("F O")

        def prog(E2, weights=weights):
            E2.assume(F >= 1)
            E2.assume(O >= 1)
            qt = E2.load_module(OC.QTYPE).env.lookup
            m = E2.call(E2.get(f"{QLIN}::QLinear"), [F, O], {"weights": qt(weights)})
            E2.call(E2.getattr(m, "freeze"), [], {})
            w = m.fields["weight"]
            outs = {}
            for nm, op, kw in (("clone", "clone", {}), ("detach", "detach", {}), ("to-same-device", "_to_copy", {"device": Device("cpu")})):
                try:
                    outs[nm] = ("value", call_aten(E2, AtenOp(op), [w], dict(kw)))
                except RaiseEx as rx:
                    outs[nm] = ("raises", rx.exc)
            return w, outs

        try:
            res = E.explore(Builtin("c09m", prog), lambda E2: ([], {}), name="C09.moves")
        except Unsupported as u:
            run.undecide(f"C09/moves[{weights}]", u, inst)
            continue
        run.absorb(E)
        if not run.expect_paths(res, f"C09/moves[{weights}]", inst):
            continue
        rp = lambda mo, sd, i=dict(inst): replay_moves(mo, sd, i)
        for pi, r in enumerate(res):
            if r.outcome != "return":
                run.add(f"C09/moves-run[{weights}]/path{pi}", r.hyps, z3.BoolVal(False), "property", inst, {"outcome": repr(r.value)[:200]}, replay=rp)
                continue
            E.focus(r)
            w, outs = r.value
            for nm, (kind, v) in outs.items():
                fam = "C09/lowbit-clone" if (nm == "clone" and weights in ("qint4", "qint2")) else "C09"
                tag = f"{weights}/{nm}/path{pi}"
                rpo = lambda mo, sd, i=dict(inst), o_=nm: replay_moves(mo, sd, i, o_)
                if kind == "raises":
                    run.add(f"{fam}/copy-does-not-raise[{tag}]:{v.tname}", r.hyps, z3.BoolVal(False), "property", inst, replay=rpo)
                    continue
                run.add(f"{fam}/copy-keeps-class-codes-scales[{tag}]", r.hyps, inner_equal(w, v), "property", inst, {"returned": repr(v)[:60]}, replay=rpo)


def copied_module_forward(run):
    for act in ("qint8", "qfloat8_e4m3fn"):
        inst = {"lemma": "copied module", "activations": act}
        E = engine(run)
        seen = []

        def qforward_contract(E2, args, kwargs):
            seen.append(args[1])
            B = z3.Int("RB")
            E2.assume(B >= 1)
            return new_input(E2, "RAW", "float32", [B, z3.Int("O")])

        E.contracts[f"{QLIN}::QLinear.qforward"] = qforward_contract
        F, O = z3.Ints("F O")

        def prog(E2, act=act):
            del seen[:]
            E2.assume(F >= 1)
            E2.assume(O >= 1)
            qt = E2.load_module(OC.QTYPE).env.lookup
            m = E2.call(E2.get(f"{QLIN}::QLinear"), [F, O], {"weights": qt("qint8"), "activations": qt(act)})
            # copy.deepcopy(module): every attribute is copied; the qtype record becomes a NEW object with equal fields (A-TORCH-NN / A-PY)
            c = Obj(m.cls, dict(m.fields))
            aq = m.fields["activation_qtype"]
            c.fields["activation_qtype"] = Obj(aq.cls, dict(aq.fields))
            h = OC.H(E2, act, None)
            B = z3.Int("B")
            E2.assume(B >= 1)
            x = h.q([B, F], name="X")
            E2.call(E2.getattr(m, "forward"), [x], {})
            a = list(seen)
            del seen[:]
            E2.call(E2.getattr(c, "forward"), [x], {})
            return x, a, list(seen)

        try:
            res = E.explore(Builtin("c09c", prog), lambda E2: ([], {}), name="C09.copy")
        except Unsupported as u:
            run.undecide(f"C09/copied-module[{act}]", u, inst)
            continue
        run.absorb(E)
        if not run.expect_paths(res, f"C09/copied-module[{act}]", inst):
            continue
        for pi, r in enumerate(res):
            if r.outcome != "return":
                run.add(f"C09/copied-module-forward-runs[{act}]/path{pi}", r.hyps, z3.BoolVal(False), "property", inst, {"outcome": repr(r.value)[:200]})
                continue
            x, a, b = r.value
            ok = len(a) == 1 and len(b) == 1 and a[0] is x and b[0] is x
            run.add(f"C09/copied-module-feeds-the-same-input-to-qforward[{act}]/path{pi}", r.hyps, z3.BoolVal(bool(ok)), "property", inst,
                    {"original": repr(a)[:80], "copy": repr(b)[:80]}, replay=lambda mo, sd, i=dict(inst): replay_copy(mo, sd, i))


def model_freeze(run):
    """freeze(model) over module trees: afterwards EVERY quantized module holds a quantized weight of its qtype - also when some
    sub-modules were frozen beforehand (any subset, chosen by position)."""
    from props import C08
    from qvc.nnmodel import named_modules

    E0 = C08.engine(run)
    names = [n for n, _ in C08.trees(E0)]
    for tname in names:
        for pre in ("none", "first", "last", "every-other"):
            if run.tier == "quick" and pre == "every-other" and tname not in ("flat", "sequential-0.1.1"):
                continue
            inst = {"lemma": "model freeze", "tree": tname, "prefrozen": pre}
            run.count_instance(**{"mf_tree": tname, "mf_pre": pre})
            E = C08.engine(run)

            def prog(E2, tname=tname, pre=pre):
                model = dict(C08.trees(E2))[tname]()
                qt = E2.load_module(OC.QTYPE).env.lookup
                E2.call(E2.get(f"{QUANT}::quantize"), [model], {"weights": qt("qint8")})
                qmods = [(n, m) for n, m in named_modules(E2, model) if isinstance(m, Obj) and "weight_qtype" in m.fields]
                chosen = {"none": [], "first": qmods[:1], "last": qmods[-1:], "every-other": qmods[::2]}[pre]
                for n, m in chosen:
                    E2.call(E2.getattr(m, "freeze"), [], {})
                E2.call(E2.get(f"{QUANT}::freeze"), [model], {})
                return [(n, m) for n, m in named_modules(E2, model) if isinstance(m, Obj) and "weight_qtype" in m.fields]

            tag = f"{tname}/prefrozen={pre}"
            try:
                res = E.explore(Builtin("mfreeze", prog), lambda E2: ([], {}), name="C09.model-freeze")
            except Unsupported as u:
                run.undecide(f"C09/model-freeze[{tag}]", u, inst)
                continue
            run.absorb(E)
            if not run.expect_paths(res, f"C09/model-freeze[{tag}]", inst):
                continue
            rp = lambda m, s, i=dict(inst): replay_model_freeze(m, s, i)
            for pi, r in enumerate(res):
                if r.outcome != "return":
                    run.add(f"C09/model-freeze-does-not-raise[{tag}]/path{pi}", r.hyps, z3.BoolVal(False), "property", inst, {"outcome": repr(r.value)[:200]}, replay=rp)
                    continue
                qmods = r.value
                run.add(f"C09/model-freeze-nonvacuous[{tag}]/path{pi}", r.hyps, z3.BoolVal(len(qmods) >= 1), "side", inst)
                for n, m in qmods:
                    w = m.fields.get("weight")
                    ok = is_wrapper(w) and w.fields.get("_qtype") is m.fields.get("weight_qtype")
                    run.add(f"C09/every-quantized-module-is-frozen:{n}[{tag}]/path{pi}", r.hyps, z3.BoolVal(bool(ok)), "property", inst, replay=rp)


def replay_model_freeze(model, seed, inst):
    import torch
    from torch import nn
    from optimum.quanto import freeze, qtypes, quantize
    from optimum.quanto.nn import QModuleMixin
    from optimum.quanto.tensor import QTensor

    model_ = nn.Sequential(nn.Linear(8, 8), nn.ReLU(), nn.Sequential(nn.Linear(8, 8), nn.Conv2d(2, 2, 1)), nn.Linear(8, 4))
    quantize(model_, weights=qtypes["qint8"])
    qm = [m for m in model_.modules() if isinstance(m, QModuleMixin)]
    for m in {"none": [], "first": qm[:1], "last": qm[-1:], "every-other": qm[::2]}[inst["prefrozen"]]:
        m.freeze()
    freeze(model_)
    bad = [n for n, m in model_.named_modules() if isinstance(m, QModuleMixin) and not isinstance(m.weight, QTensor)]
    if bad:
        return {"what": "freeze(model) left quantized modules with float weights", "modules": bad, "prefrozen": inst["prefrozen"]}
    return None



def build(run):
    from props import conformance

    conformance.run_conformance(run, ['pack'])
    run.assume("A-ENGINE", "A-PY", "A-PURE quantize_weight and the PyTorch ops are deterministic functions of their arguments (bit-identical repetition)",
               "A-TORCH-NN Parameter(q) reaches detach; deepcopy copies attributes and reaches clone; nn.Module attribute assignment",
               "contracts of quantize_weight (C01-C03, C14), PackedTensor (C04), class invariants of moves (C06)")
    run.assumptions += ["histories (forward / calibrate / freeze / freeze-again / to / deepcopy in any order): every step has the contract above over the module state; "
                        "the statement is an invariant preserved by each step (lemmas/Arith.lean inv_reach)",
                        "outputs across DIFFERENT devices are not claimed (kernels differ); codes / scales / zero-points equality is"]
    run.not_decided += ["outputs equal across devices", "real copy.deepcopy / torch.save machinery"]
    E0 = run.engine()
    for key in (f"{QMOD}::QModuleMixin.freeze", f"{QMOD}::QModuleMixin.qweight", f"{QMOD}::QModuleMixin.frozen", f"{QMOD}::QModuleMixin.forward", f"{QUANT}::freeze",
                f"{OC.QOPS}::clone", f"{OC.QOPS}::detach", f"{OC.QOPS}::_to_copy", f"{OC.QBOPS}::detach", f"{OC.QBOPS}::_to_copy"):
        run.under_contract(E0, key)
    lib.lean_lemmas(run, ["inv_reach"])
    for part in (lifecycle, moves_and_copies, copied_module_forward, model_freeze):
        try:
            part(run)
        except Unsupported as u:
            run.undecide(f"C09/{part.__name__}", f"unsupported: {u}")


# ------------------------------------------------------------------------------------------------ native replay
def replay_freeze(model, seed, inst):
    import torch
    from optimum.quanto import Calibration, qtypes
    from optimum.quanto.nn import QConv2d, QLinear

    torch.manual_seed(seed)
    kw = {"weights": qtypes[inst["weights"]], "activations": qtypes[inst["activations"]] if inst["activations"] else None}
    for feat in (16, 256):
        if inst["module"] == "linear":
            m, x = QLinear(feat, 10, **kw), torch.randn(3, feat)
        else:
            m, x = QConv2d(feat, 6, 1, **kw), torch.randn(2, feat, 3, 3)
        with torch.no_grad():
            if inst["activations"]:
                with Calibration(streamline=False):
                    m(x)
            y0 = m(x)
            bias0 = m.bias.clone()
            m.freeze()
            y1 = m(x)
            sd1 = {k: (v.clone() if isinstance(v, torch.Tensor) else v) for k, v in m.state_dict().items()}
            m.freeze()
            y2 = m(x)
        eq = lambda a, b: torch.equal(a.dequantize() if hasattr(a, "dequantize") else a, b.dequantize() if hasattr(b, "dequantize") else b)
        if not eq(y0, y1) or not eq(y1, y2):
            return {"what": "outputs before / after freeze (or after freezing again) are not bit-identical", "features": feat}
        if not torch.equal(bias0, m.bias):
            return {"what": "freeze changed the bias"}
        w = m.weight
        bits = qtypes[inst["weights"]].bits
        if bits < 8:
            rows = w._data.shape[0]
            want = -(-rows * bits // 8) * (w._data.numel() // rows)
            if w._data._data.numel() != want:
                return {"what": "packed payload is not ceil(rows*bits/8) x (numel/rows) bytes", "payload_bytes": w._data._data.numel(), "expected": want, "rows": rows}
    return None


def replay_history(model, seed, inst):
    """After freeze() (called with autograd recording on, the default) no tensor of the stored weight has autograd history."""
    import copy
    import torch
    from optimum.quanto import qtypes
    from optimum.quanto.nn import QConv2d, QLinear

    torch.manual_seed(seed)
    kw = {"weights": qtypes[inst["weights"]], "activations": qtypes[inst["activations"]] if inst.get("activations") else None}
    m = QLinear(16, 4, **kw) if inst["module"] == "linear" else QConv2d(4, 2, 1, **kw)
    m.freeze()
    w = m.weight
    inner = [getattr(w, n) for n in ("_data", "_scale", "_zeropoint") if hasattr(w, n)]
    bad = [type(t).__name__ for t in inner if getattr(t, "grad_fn", None) is not None or t.requires_grad]
    if bad:
        return {"what": "a tensor of the frozen weight still carries autograd history (grad_fn): the graph of the float weight is retained", "tensors": bad}
    if inst["weights"] in ("qint8", "qfloat8_e4m3fn"):
        try:
            copy.deepcopy(m)
        except Exception as e:
            return {"what": f"copy.deepcopy of the frozen module raises {type(e).__name__}: {str(e)[:120]}"}
    return None


def replay_moves(model, seed, inst, op="clone"):
    import copy
    import torch
    from optimum.quanto import qtypes
    from optimum.quanto.nn import QLinear

    m = QLinear(16, 4, weights=qtypes[inst["weights"]])
    m.freeze()
    x = torch.randn(2, 16)
    y = m(x)
    if op == "clone":
        try:
            c = copy.deepcopy(m)
        except Exception as e:
            return {"what": f"copy.deepcopy of a frozen {inst['weights']} module raises {type(e).__name__}: {str(e)[:150]}"}
        if not torch.equal(c(x), y):
            return {"what": "copy computes different outputs"}
        return None
    w = m.weight
    try:
        v = w.detach() if op == "detach" else w.to("cpu", copy=True) if False else (w.detach() if op == "detach" else w.to(torch.device("cpu")))
    except Exception as e:
        return {"what": f"{op} of a frozen {inst['weights']} weight raises {type(e).__name__}: {str(e)[:150]}"}
    if type(v) is not type(w) or tuple(v.shape) != tuple(w.shape) or not torch.equal(v.dequantize(), w.dequantize()):
        return {"what": f"{op} changes class, shape or values of the frozen weight"}
    return None


def replay_copy(model, seed, inst):
    import copy
    import torch
    from optimum.quanto import Calibration, absmax_scale, qtypes, quantize_activation
    from optimum.quanto.nn import QLinear

    torch.manual_seed(seed)
    aq = qtypes[inst["activations"]]
    m = QLinear(8, 4, weights=qtypes["qint8"], activations=aq)
    x = torch.randn(2, 8)
    with torch.no_grad(), Calibration(streamline=False):
        m(x)
    m.freeze()
    c = copy.deepcopy(m)
    x2 = torch.randn(2, 8) * 4
    qx = quantize_activation(x2, aq, absmax_scale(x2, aq))
    with torch.no_grad():
        a, b = m(qx), c(qx)
    if not torch.equal(a.dequantize(), b.dequantize()):
        return {"what": "a deep copy of the module computes different outputs on an already quantized input", "max_abs_diff": (a.dequantize() - b.dequantize()).abs().max().item()}
    return None


def replay_file(path):
    import json
    rec = json.load(open(path))
    inst = rec["instance"]
    r = {"freeze": replay_freeze, "moves": replay_moves, "copied module": replay_copy, "model freeze": replay_model_freeze}[inst["lemma"]]({}, 0, inst)
    print(json.dumps(r, indent=1, default=str))
    return 1 if r else 0
