"""C02 - int2/int4 affine quantization error is at most half a step per group (DESIGN 6.2).

Algebra R (A-REAL) with exact int8/uint8 wrap-around for the integer steps; group/ungroup and pack/unpack enter
through their contracts (contracts/group.py verified here, contracts/packed.py verified by C04).
"""
import z3

from contracts import group as CG
from contracts import packed as CP
from qvc import lib, sym
from qvc.lib import idx_vars, zi
from qvc.sym import Unsupported
from qvc.tm_tensor import new_input, reduction_facts
from qvc.values import Obj, numel_of

QW = "optimum/quanto/tensor/qweight.py"
AFFQ = "optimum/quanto/tensor/quantizers/affine.py"
MAXO = "optimum/quanto/tensor/optimizers/max_optimizer.py"
AFFO = "optimum/quanto/tensor/optimizers/affine_optimizer.py"
QBITS = "optimum/quanto/tensor/qbits/qbits.py"
QTYPE = "optimum/quanto/tensor/qtype.py"

DRIVER = """
def prog(t, qtype, axis, group_size):
    q = quantize_weight(t, qtype, axis, group_size)
    return q, q.dequantize()
"""


def absr(t):
    return z3.If(t >= 0, t, -t)


def make_engine(run, **kw):
    E = run.engine(**kw)
    E.load_module("optimum/quanto/tensor/__init__.py")
    CP.install(E)
    CG.install(E)
    return E


def no_narrower_intermediate(run):
    """Half-step clause, floating-point side condition decidable structurally: on the way from the source tensor to the codes and back,
    no value is passed through a float type with fewer significant bits or a smaller exponent range than the source dtype (such an
    intermediate overflows / rounds although every quantity is representable in the working dtype).  bfloat16 and float16 sources."""
    from props.C07 import occurrences
    for bits, qname in ((2, "qint2"), (4, "qint4")):
        for dtype in ("bfloat16", "float16"):
            inst = {"bits": bits, "dtype": dtype, "lemma": "no narrower intermediate"}
            run.count_instance(**inst)
            E = make_engine(run)
            E.alg.track_narrowing = True
            qt = E.load_module(QTYPE).env.lookup(qname)
            prog = E.snippet(DRIVER, QW)
            ds, dpos = lib.dims("d", 2)

            def setup(E2, ds=ds, dpos=dpos, qt=qt, dtype=dtype):
                for c in dpos:
                    E2.assume(c)
                return [new_input(E2, "X", dtype, ds), qt, 0, None], {}

            try:
                res = E.explore(prog, setup, name="C02.narrow")
            except Unsupported as u:
                run.undecide(f"C02/no-narrower-intermediate[{qname}/{dtype}]", u, inst)
                continue
            run.absorb(E)
            tag = f"{qname}/{dtype}"
            if not run.expect_paths(res, f"C02/no-narrower-intermediate[{tag}]", inst):
                continue
            for pi, r in enumerate(res):
                if r.outcome != "return":
                    continue
                E.focus(r)
                q, d = r.value
                ids, inb = idx_vars("i", ds)
                E.ps["touched"] = []
                E.drain()
                term = d.elem(ids)
                eb0, sb0 = __import__("qvc.sym", fromlist=["FLOAT_DTYPES"]).FLOAT_DTYPES[dtype]
                narrower = [t_ for t_ in ("float16", "bfloat16") if t_ != dtype and occurrences(term, f"narrow_{t_}")]
                run.add(f"C02/no-intermediate-narrower-than-the-source-dtype[{tag}]/path{pi}", r.hyps, z3.BoolVal(not narrower), "property", inst, {"passed_through": narrower},
                        replay=lambda m, sd, b=bits, dt=dtype: replay_wide_range(m, sd, b, dt))


def replay_wide_range(model, seed, bits, dtype):
    """Rows of magnitude far above 65504 (bfloat16) or needing more than 8 significant bits (float16): half-step bound."""
    import torch
    dt = {"bfloat16": torch.bfloat16, "float16": torch.float16}[dtype]
    qname = "qint2" if bits == 2 else "qint4"
    torch.manual_seed(seed)
    mags = (1e5, 3e6, 1.0) if dt == torch.bfloat16 else (1.0, 100.0)
    for mag in mags:
        t = (torch.randn(4, 8) * mag).to(dt)
        r = native_half_step(t, qname, 0, None)
        if r:
            r.update({"magnitude": mag, "dtype": dtype, "qtype": qname})
            return r
    return None



def main_lemma(run):
    for bits, qname in ((2, "qint2"), (4, "qint4")):
        N = (1 << bits) - 1
        for axis in (0, -1):
            for rank in (1, 2, 3, 4):
                for grouped in (False, True):
                    inst = {"bits": bits, "axis": axis, "rank": rank, "grouped": grouped}
                    run.count_instance(**inst)
                    E = make_engine(run)
                    qt = E.load_module(QTYPE).env.lookup(qname)
                    prog = E.snippet(DRIVER, QW)
                    ds, dpos = lib.dims("d", rank)
                    G, ag = z3.Int("G"), z3.Int("ag")
                    k = axis % rank
                    others = [d for j, d in enumerate(ds) if j != k]
                    n = numel_of(others) if others else 1

                    def setup(E2, grouped=grouped, ds=ds, dpos=dpos, axis=axis, qt=qt, k=k, n=n):
                        for c in dpos:
                            E2.assume(c)
                        if grouped:
                            E2.assume(G >= 1)
                            E2.assume(ag >= 1)
                            E2.assume(zi(n) == G * ag)
                            for h in CG.hints(ds, k, n, G, ag):
                                E2.assume(h)
                        return [new_input(E2, "X", "float32", ds), qt, axis, G if grouped else None], {}

                    res = E.explore(prog, setup, name="C02.main")
                    run.absorb(E)
                    tag = f"{qname}/axis{axis}/r{rank}/{'grouped' if grouped else 'per-axis'}"
                    if not run.expect_paths(res, f"C02/main[{tag}]", inst):
                        continue
                    nret = 0
                    for pi, r in enumerate(res):
                        if r.outcome == "raise":
                            run.add(f"C02/no-exception[{tag}]/path{pi}:{r.value.tname}", r.hyps, z3.BoolVal(False), "property", inst,
                                    {"raises": repr(r.value)}, replay=lambda m, s, i=dict(inst): replay(m, s, i))
                            continue
                        nret += 1
                        E.focus(r)
                        q, d = r.value
                        run.add(f"C02/result-shape[{tag}]/path{pi}", r.hyps,
                                z3.And(lib.shape_eq(d.shape, ds), lib.shape_eq(q.fields["_w_size"], ds),
                                       z3.BoolVal(q.cls.name == "QBitsTensor" and d.dtype == "float32" and q.fields["_qtype"] is qt)),
                                "property", inst)
                        ids, inb = idx_vars("i", ds)
                        # re-run the element evaluation in a clean touched-log
                        E.ps["touched"] = []
                        E.ps["lazy_facts"] = []
                        E.drain()
                        xfn = z3.Function("X", *([z3.IntSort()] * rank), z3.RealSort())
                        x = xfn(*ids)
                        deq = d.elem(ids)
                        scale_t, zp_t = q.fields["_scale"], q.fields["_zeropoint"]
                        reds = {ri.kind: ri for ri in E.ps.get("reductions", [])}
                        groups = E.ps.get("groups", [])
                        rel = []
                        if grouped:
                            # a group size was given: the range must be taken over groups of that size (one step per group)
                            run.add(f"C02/groups-formed-when-a-group-size-is-given[{tag}]/path{pi}", r.hyps, z3.BoolVal(len(groups) > 0), "property", inst,
                                    replay=lambda m_, sd, i=dict(inst): replay(m_, sd, i))
                            if not groups:
                                continue
                            m = None
                            for g in groups:
                                f, m = CG.group_relation(E, g, ids)
                                rel.append(f)
                            gidx = m
                        else:
                            gidx = ids
                        # which scale applies: kept index of the (grouped) tensor
                        if grouped:
                            kidx = [gidx[0], 0] if axis == 0 else [0, gidx[1]]
                        elif rank == 1:
                            kidx = [0]
                        else:
                            kidx = [i if j == k else 0 for j, i in enumerate(ids)]
                        s = scale_t.elem(kidx)
                        zp = zp_t.elem(kidx)
                        facts = E.drain() + list(E.ps.get("lazy_facts", [])) + rel
                        facts += reduction_facts(E, extra_points=[gidx])
                        facts += E.drain()
                        hy = r.hyps + inb + facts
                        rp = lambda m_, sd, i=dict(inst): replay(m_, sd, i)
                        known_rank1 = (rank == 1)
                        nm = "C02/rank1" if known_rank1 else "C02"
                        # reductions cover exactly the group: dims check (per-axis: all dims but the kept one)
                        if "amax" in reds and "amin" in reds:
                            exp_dims = ([1] if axis == 0 else [0]) if grouped else [j for j in range(rank) if j != k]
                            if rank == 1 and not grouped:
                                exp_dims = []  # one value per element requested; the code reduces over everything (finding, see C14)
                            okd = (sorted(reds["amax"].dims) == exp_dims and sorted(reds["amin"].dims) == exp_dims)
                            run.add(f"{nm}/range-taken-over-exactly-the-group[{tag}]/path{pi}", r.hyps, z3.BoolVal(okd), "property", inst, replay=rp)
                            kept = reds["amax"].kept(gidx)
                            hi = z3.If(reds["amax"].res_fn(kept) > 0, reds["amax"].res_fn(kept), 0)
                            lo = z3.If(reds["amin"].res_fn(kept) < 0, reds["amin"].res_fn(kept), 0)
                            run.add(f"{nm}/step-is-range-over-levels[{tag}]/path{pi}", hy, s * N == hi - lo, "property", inst, replay=rp)
                            run.add(f"{nm}/zeropoint-in-grid[{tag}]/path{pi}", hy + [s > 0], z3.And(zp >= 0, zp <= N), "property", inst, replay=rp)
                        else:
                            run.undecide(f"C02/range[{tag}]", "no amax/amin reduction found in this tree (optimizer restructured): range clause not decided", inst)
                        # ---- half-step: direct obligation (nonlinear: x/scale, scale*code) + documented decomposition
                        parts = []
                        if "amax" in reds and "amin" in reds:
                            codes = q.fields["_data"].fields.get("_ghost_codes")
                            code = codes.elem(gidx)
                            RNE = z3.Function("RNE", z3.RealSort(), z3.IntSort())
                            rmin = z3.If(reds["amin"].res_fn(kept) > 0, 0, reds["amin"].res_fn(kept))
                            tq = RNE(x / s) + zp
                            facts2 = E.drain() + reduction_facts(E, extra_points=[gidx])
                            hy2 = hy + facts2 + [s > 0]
                            st = [("code-formula", code == z3.If(tq < 0, 0, z3.If(tq > N, N, tq))),
                                  ("zeropoint-formula", z3.Implies(z3.And(RNE((-rmin) / s) >= -128, RNE((-rmin) / s) <= 127), zp == RNE((-rmin) / s))),
                                  ("dequantize-formula", z3.Implies(z3.And(zp >= 0, zp <= N, code >= 0, code <= N), deq == s * z3.ToReal(code - zp))),
                                  ("value-in-range", z3.And(rmin <= x, x <= hi, rmin == lo))]
                            for nme, gl in st:
                                nmo = f"{nm}/structure:{nme}[{tag}]/path{pi}"
                                run.add(nmo, hy2, gl, "helper", inst, {"function": "AffineQuantizer/MaxOptimizer/QBitsDequantizer (expression shape)"})
                                parts.append(nmo)
                            parts += [f"{nm}/zeropoint-in-grid[{tag}]/path{pi}", f"C02/lemma:quotient-half-step[bits{bits}]", "C02/lemma:bridge-to-quotient-space", "C02/lemma:scale-back"]
                        run.add(f"{nm}/half-step[{tag}]/path{pi}", hy + [s > 0], absr(deq - x) <= s / 2, "property", inst, replay=rp,
                                timeout=8, implied_by=parts or None)
                        run.add_path_obligations([r], f"C02/exec[{tag}]", inst, kinds=("assert", "torch-pre", "callee-pre"))
                    if nret == 0:
                        run.undecide(f"C02/main[{tag}]", "no returning path", inst)


def math_lemmas(run):
    """Spec-level lemmas of the decomposition of the half-step bound (the hypotheses are exactly the conclusions of the
    'structure:' obligations; instantiating them is universal instantiation)."""
    RNE = z3.Function("RNE", z3.RealSort(), z3.IntSort())
    half = z3.RealVal("1/2")

    def rne_ax(t):
        r = z3.ToReal(RNE(t))
        return z3.And(r - t <= half, t - r <= half, z3.Implies(z3.Or(r - t == half, t - r == half), RNE(t) % 2 == 0))

    for bits in (2, 4):
        N = (1 << bits) - 1
        a, y, b = z3.Reals("a y b")
        zp = RNE(-a)
        tq = RNE(y) + zp
        code = z3.If(tq < 0, 0, z3.If(tq > N, N, tq))
        k = z3.ToReal(code - zp)
        run.add(f"C02/lemma:quotient-half-step[bits{bits}]", [a <= 0, 0 <= b, a <= y, y <= b, b - a == N, rne_ax(-a), rne_ax(y)],
                z3.And(absr(k - y) <= half, zp >= 0, zp <= N, code - zp >= -128, code - zp <= 127), "property", {"bits": bits, "lemma": "quotient space"})
    g, s, rmin, rmax, Nn = z3.Reals("g s rmin rmax Nn")
    run.add("C02/lemma:bridge-to-quotient-space", [s > 0, Nn > 0, s * Nn == rmax - rmin, rmin <= 0, 0 <= rmax, rmin <= g, g <= rmax],
            z3.And(rmin / s <= 0, 0 <= rmax / s, rmin / s <= g / s, g / s <= rmax / s, rmax / s - rmin / s == Nn, (-rmin) / s == -(rmin / s),
                   (g / s) * s == g), "property", {"lemma": "division by a positive scale"})
    kk, yy, dq = z3.Reals("kk yy dq")
    run.add("C02/lemma:scale-back", [s > 0, absr(kk - yy) <= half, dq == s * kk, g == s * yy], absr(dq - g) <= s / 2, "property",
            {"lemma": "scaling"})


def idempotence_F(run):
    """Requantizing the dequantized tensor with the same scale and zero-point yields the same codes (fp16 quick, fp32 thorough).
    Element chain of the real AffineQuantizer / QBitsDequantizer bodies, bit-precise; per-axis, no grouping (grouping is pure data movement)."""
    dtypes = ["float16"] + (["float32"] if run.tier == "thorough" else [])
    FT = 240 if run.tier == "quick" else 600
    src = """
def prog(t, qtype, axis, scale, zeropoint):
    q = AffineQuantizer.apply(t, qtype, axis, None, scale, zeropoint)
    d = q.dequantize()
    q2 = AffineQuantizer.apply(d, qtype, axis, None, scale, zeropoint)
    return q, d, q2
"""
    for bits, qname in ((2, "qint2"), (4, "qint4")):
        N = (1 << bits) - 1
        for dtype in dtypes:
            inst = {"bits": bits, "dtype": dtype, "algebra": "F"}
            run.count_instance(**inst)
            E = make_engine(run, intmode="bv", floatmode="F")
            qt = E.load_module(QTYPE).env.lookup(qname)
            prog = E.snippet(src, AFFQ)
            n0, n1 = z3.Ints("n0 n1")
            srt = E.alg.fpsort(dtype)

            def setup(E2, qt=qt, dtype=dtype):
                E2.assume(n0 >= 1)
                E2.assume(n1 >= 1)
                return [new_input(E2, "X", dtype, [n0, n1]), qt, 0, new_input(E2, "S", dtype, [n0, 1]), new_input(E2, "Z", "int8", [n0, 1])], {}

            res = E.explore(prog, setup, name="C02.F")
            run.absorb(E)
            tag = f"{qname}/{dtype}"
            if not run.expect_paths(res, f"C02/F[{tag}]", inst):
                continue
            i, j = z3.Ints("i j")
            for pi, r in enumerate(res):
                if r.outcome != "return":
                    if r.outcome == "raise":
                        run.add(f"C02/F-no-exception[{tag}]/path{pi}:{r.value.tname}", r.hyps, z3.BoolVal(False), "property", inst)
                    continue
                q, d, q2 = r.value
                E.focus(r)
                c1 = q.fields["_data"].fields["_ghost_codes"].elem([i, j])
                c2 = q2.fields["_data"].fields["_ghost_codes"].elem([i, j])
                dq = d.elem([i, j])
                xf = z3.Function("X", z3.IntSort(), z3.IntSort(), srt)
                sf = z3.Function("S", z3.IntSort(), z3.IntSort(), srt)
                zf = z3.Function("Z", z3.IntSort(), z3.IntSort(), z3.BitVecSort(8))
                s, z = sf(i, 0), zf(i, 0)
                fin = lambda v: z3.Not(z3.Or(z3.fpIsNaN(v), z3.fpIsInf(v)))
                hy = r.hyps + [i >= 0, i < n0, j >= 0, j < n1, fin(xf(i, j)), fin(s), z3.fpGT(s, z3.FPVal(0.0, srt)), z >= 0, z <= N]
                tiny = {"float16": 2.0**-14, "float32": 2.0**-126}[dtype]
                normal = z3.Or(z3.fpIsZero(dq), z3.fpGEQ(z3.fpAbs(dq), z3.FPVal(tiny, srt)))
                rp = lambda m_, sd, b=bits, dt=dtype: replay_idem(m_, sd, b, dt)
                run.add(f"C02/F-idempotent[{tag}]/path{pi}", hy + [fin(dq), normal], c1 == c2, "property", inst, replay=rp, timeout=FT)
                run.add(f"C02/F-idempotent-subnormal-range[{tag}]/path{pi}", hy + [fin(dq), z3.Not(normal)], c1 == c2, "property", inst, replay=rp, timeout=FT)
                run.add(f"C02/F-codes-in-range[{tag}]/path{pi}", hy, z3.ULE(c1, N), "property", inst, replay=rp, timeout=FT)


def zeropoint_F(run):
    """Bit-precise (float16): for rows of moderate magnitude the zero-point chosen by the real optimizer lies on the grid [0, 2^bits - 1]
    (so the int8 subtraction of the dequantizer cannot wrap) and the scale is finite and non-negative."""
    from props.C16 import SRC_W, engine as engine16, fin, finite_inputs
    from qvc.tm_tensor import reduction_facts
    QWP = "optimum/quanto/tensor/qweight.py"
    for bits, qname in ((2, "qint2"), (4, "qint4")):
        N = (1 << bits) - 1
        inst = {"bits": bits, "dtype": "float16", "algebra": "F", "lemma": "zero-point on the grid"}
        E = engine16(run)
        qt = E.load_module(QTYPE).env.lookup(qname)
        prog = E.snippet(SRC_W, QWP)
        n0, n1 = z3.Ints("n0 n1")
        srt = E.alg.fpsort("float16")

        def setup(E2, qt=qt):
            E2.assume(n0 >= 2)
            E2.assume(n1 >= 1)
            return [new_input(E2, "X", "float16", [n0, n1]), qt], {}

        res = E.explore(prog, setup, name="C02.zpF")
        run.absorb(E)
        if not run.expect_paths(res, f"C02/F-zeropoint[{qname}]", inst):
            continue
        i = z3.Int("i")
        for pi, r in enumerate(res):
            if r.outcome != "return":
                continue
            q, d = r.value
            E.focus(r)
            zp = q.fields["_zeropoint"].elem([i, 0])
            sc = q.fields["_scale"].elem([i, 0])
            reds = E.ps.get("reductions", [])
            amax = [ri for ri in reds if ri.kind == "amax"][0].res_fn([i])
            amin = [ri for ri in reds if ri.kind == "amin"][0].res_fn([i])
            j = z3.Int("j")
            facts = reduction_facts(E, extra_points=[[i, j]]) + finite_inputs(E, srt, 2)
            mag = z3.If(z3.fpGT(z3.fpAbs(amax), z3.fpAbs(amin)), z3.fpAbs(amax), z3.fpAbs(amin))
            moderate = z3.And(z3.fpGEQ(mag, z3.FPVal(2.0**-14 * 256, srt)), z3.fpLEQ(mag, z3.FPVal(65504.0 / 4, srt)))
            hy = r.hyps + [i >= 0, i < n0, j >= 0, j < n1] + facts + [moderate]
            run.add(f"C02/F-zeropoint-on-the-grid[{qname}/float16]/path{pi}", hy, z3.And(zp >= 0, zp <= N, fin(sc), z3.fpGT(sc, z3.FPVal(0.0, srt))), "property", inst,
                    replay=lambda m, s, b=bits: replay(m, s, {"bits": b, "rank": 2, "axis": 0, "grouped": False}), timeout=240)


def build(run):
    lib.lean_lemmas(run, ["group_hints", "inj_bij"])
    from props import conformance

    conformance.run_conformance(run, ['affine', 'group'])
    run.assume("A-ENGINE qvc VC generator + z3/cvc5", "A-PY python semantics subset",
               "A-REAL (half-step lemma over the reals; integer steps int8/uint8 are exact with wrap-around)",
               "A-TORCH-EW point-wise ops / promotion / round=RNE / clamp / casts", "A-TORCH-RED amin/amax: bound + attained axioms",
               "A-TORCH-IDX reshape row-major, permute (group/ungroup equational laws)",
               "contract PackedTensor.pack/unpack (proved by C04)")
    run.assumptions += ["dimensions >= 1; group size G with G * ag == per-axis element count (every admissible divisor)",
                        "all-zero groups (scale == 0) are outside the R lemma (x/0); they are decided bit-precisely under C16",
                        "finite sets: an injective index map between index spaces of equal size is a bijection (group contract)"]
    run.not_decided += ["float rounding slack of the half-step bound (A-REAL)", "bfloat16 idempotence (not claimed by the property)"]
    E0 = run.engine()
    for key in (f"{QW}::quantize_weight", f"{AFFQ}::AffineQuantizer.forward", f"{MAXO}::MaxOptimizer.optimize", f"{AFFO}::AffineOptimizer.__call__",
                f"{QBITS}::QBitsDequantizer.forward", f"{QBITS}::QBitsTensor.create", f"{QBITS}::QBitsTensor.__init__", f"{QBITS}::QBitsTensor.__new__",
                CG.KEY_GROUP, CG.KEY_UNGROUP):
        run.under_contract(E0, key)
    for part in (lambda r: CG.verify(r, lambda: r.engine(), "C02/group-contract", level_inv="property", replay_for=replay_group), math_lemmas, main_lemma, no_narrower_intermediate, idempotence_F, zeropoint_F):
        try:
            part(run)
        except Unsupported as u:
            run.undecide(f"C02/{getattr(part, '__name__', 'part')}", f"unsupported: {u}")


# ------------------------------------------------------------------------------------------------ native replay
def native_half_step(t, qname, axis, group_size):
    import torch
    from optimum.quanto import qtypes, quantize_weight

    bits = qtypes[qname].bits
    N = 2**bits - 1
    q = quantize_weight(t, qtypes[qname], axis, group_size)
    d = q.dequantize()
    if tuple(d.shape) != tuple(t.shape):
        return {"what": "shape differs", "got": list(d.shape)}
    t64 = t.to(torch.float64)
    k = axis % t.ndim
    # groups: G consecutive positions of the row-major flattening of the non-axis dims, per axis index
    moved = t64.movedim(k, 0).reshape(t.shape[k], -1)
    dm = d.to(torch.float64).movedim(k, 0).reshape(t.shape[k], -1)
    n = moved.shape[1]
    G = group_size or n
    if t.ndim == 1:
        moved, dm, G = t64.reshape(-1, 1), d.to(torch.float64).reshape(-1, 1), 1
    mg = moved.reshape(moved.shape[0], -1, G)
    dg = dm.reshape(dm.shape[0], -1, G)
    hi = mg.amax(-1, keepdim=True).clamp(min=0)
    lo = mg.amin(-1, keepdim=True).clamp(max=0)
    step = (hi - lo) / N
    eps = torch.finfo(t.dtype).eps
    err = (dg - mg).abs()
    # float rounding: relative (8 eps) plus absolute (a few subnormal steps of the dtype, where the step itself underflows)
    den = float(torch.finfo(t.dtype).tiny) * eps
    bad = ~(err <= step / 2 + 8 * eps * (mg.abs() + hi - lo) + 8 * den) | ~torch.isfinite(dg)
    if bad.any():
        ix = bad.nonzero()[0].tolist()
        return {"what": "error exceeds half a step of the group", "group_index": ix, "x": mg[tuple(ix)].item(), "deq": dg[tuple(ix)].item(),
                "step": step[ix[0], ix[1], 0].item()}
    return None


def replay(model, seed, inst):
    import torch
    torch.manual_seed(seed)
    qname = "qint2" if inst["bits"] == 2 else "qint4"
    rank, axis = inst["rank"], inst["axis"]
    shapes = {1: [[8], [5]], 2: [[4, 8], [3, 6], [8, 4]], 3: [[2, 4, 4], [3, 2, 6]], 4: [[2, 2, 2, 4], [4, 3, 2, 2]]}[rank]
    for shape in shapes:
        k = axis % rank
        n = 1
        for j, dd in enumerate(shape):
            if j != k:
                n *= dd
        gss = [None] + ([g for g in range(1, n + 1) if n % g == 0] if inst.get("grouped") else [])
        if inst.get("grouped"):
            gss = gss[1:]
        for gs in gss:
            for kind in ("randn", "positive", "negative", "offset", "constant", "mixed", "tiny", "tiny-row", "huge-neg"):
                base = torch.randn(shape)
                t = {"randn": base, "positive": base.abs() + 0.5, "negative": -base.abs() - 0.5, "offset": 5 + 0.01 * base,
                     "constant": torch.full(shape, 3.0), "mixed": base * torch.tensor(10.0) ** torch.randint(-3, 3, shape),
                     "tiny": base * 1e-7, "tiny-row": torch.where(torch.arange(base.numel()).reshape(shape) % 2 == 0, base * 1e-7, base * 1e-6),
                     "huge-neg": -base.abs() * 6000 - 100}[kind]
                for dt in (torch.float32, torch.float16, torch.bfloat16):
                    try:
                        r = native_half_step(t.to(dt), qname, axis, gs)
                    except ValueError:
                        continue
                    except Exception as e:
                        return {"raised": repr(e), "shape": shape, "axis": axis, "group_size": gs, "kind": kind}
                    if r:
                        r.update({"shape": shape, "axis": axis, "group_size": gs, "kind": kind, "dtype": str(dt), "qtype": qname,
                                  "input": t.to(dt).tolist()})
                        return r
    return None


def replay_group(model, seed, inst):
    """ungroup(group(x)) == x on the real functions, all admissible group sizes of some small shapes of the rank."""
    import torch
    from optimum.quanto.tensor.qbits.group import group, ungroup

    rank, axis = inst["rank"], inst["axis"]
    shapes = {1: [[8], [6]], 2: [[4, 8], [3, 6], [8, 4]], 3: [[2, 4, 4], [3, 2, 6], [8, 4, 16], [4, 6, 10]], 4: [[2, 2, 2, 4], [4, 3, 2, 2], [4, 8, 3, 3]]}[rank]
    for shape in shapes:
        x = torch.arange(int(torch.tensor(shape).prod())).reshape(shape).float()
        k = axis % rank
        n = x.numel() // shape[k]
        for gs in [g for g in range(1, n + 1) if n % g == 0]:
            try:
                g = group(x, axis, gs)
                if g.ndim != 2 or g.numel() != x.numel() or (g.shape[-1] if axis == 0 else g.shape[0]) != gs:
                    return {"what": "group() does not return numel/G groups of G elements", "shape": shape, "axis": axis, "group_size": gs, "grouped_shape": list(g.shape)}
                u = ungroup(g, axis, x.shape)
            except Exception as e:
                return {"what": f"group/ungroup raises {type(e).__name__}: {str(e)[:120]}", "shape": shape, "axis": axis, "group_size": gs}
            if tuple(u.shape) != tuple(x.shape) or not torch.equal(u, x):
                return {"what": "ungroup(group(x)) != x", "shape": shape, "axis": axis, "group_size": gs}
    return None


def replay_idem(model, seed, bits, dtype):
    import torch
    from optimum.quanto import qtypes
    from optimum.quanto.tensor.quantizers import AffineQuantizer
    from qvc.lib import model_values

    dt = {"float16": torch.float16, "float32": torch.float32}[dtype]
    qt = qtypes["qint2" if bits == 2 else "qint4"]
    eb, sb = sym.FLOAT_DTYPES[dtype]
    vals = model_values(model, ["X", "S"], eb, sb)
    torch.manual_seed(seed)
    cands = []
    if vals.get("X") is not None and vals.get("S") is not None:
        for z in range(0, 2**bits):
            cands.append((torch.tensor([[vals["X"]]], dtype=dt), torch.tensor([[vals["S"]]], dtype=dt), torch.tensor([[z]], dtype=torch.int8)))
    for _ in range(50):
        x = torch.randn(4, 64).to(dt) * 10 ** torch.randint(-4, 4, (1,)).item()
        s = ((x.amax(1, keepdim=True).clamp(min=0) - x.amin(1, keepdim=True).clamp(max=0)) / (2**bits - 1)).to(dt)
        z = torch.round(-x.amin(1, keepdim=True).clamp(max=0) / s).to(torch.int8)
        cands.append((x, s, z))
    for x, s, z in cands:
        if not (torch.isfinite(s).all() and (s > 0).all()):
            continue
        q = AffineQuantizer.apply(x, qt, 0, None, s, z)
        d = q.dequantize()
        if not torch.isfinite(d).all():
            continue
        q2 = AffineQuantizer.apply(d, qt, 0, None, s, z)
        a, b = q._data.unpack(), q2._data.unpack()
        tiny = torch.finfo(dt).tiny
        ok_range = (d == 0) | (d.abs() >= tiny)
        diff = (a != b) & ok_range
        if diff.any():
            ix = tuple(diff.nonzero()[0].tolist())
            return {"x": x[ix].item(), "scale": s[ix[0], 0].item(), "zeropoint": int(z[ix[0], 0]), "code": int(a[ix]), "code2": int(b[ix]),
                    "dequantized": d[ix].item(), "what": "requantization changes the code"}
    return None


def replay_file(path):
    import json
    rec = json.load(open(path))
    inst = rec["instance"]
    if inst.get("lemma") == "group/ungroup contract":
        r = replay_group(rec.get("model") or {}, rec.get("seed", 0), inst)
    elif inst.get("algebra") == "F":
        r = replay_idem(rec.get("model") or {}, rec.get("seed", 0), inst["bits"], inst["dtype"])
    else:
        r = replay(rec.get("model") or {}, rec.get("seed", 0), inst)
    print(json.dumps(r, indent=1, default=str))
    return 1 if r else 0
