"""C15 - AWQ layouts are bijective, match the reference, and denote the same weights (DESIGN 6.15).

Layouts: bit-vectors + linear integer index arithmetic; rows N = 4*Nb and column blocks K = 64*Kb (v2) / 8*C (v1) symbolic.
The functions assert a CUDA device: the symbolic tensors simply carry device 'cuda' (no GPU is needed to verify the text).
"""
from qvc.run import REPO as _REPO
import ast
import copy

import z3

from contracts import group as CG
from props import inv
from props import ops_common as OC
from qvc import lib
from qvc.interp import Env, Frame, RaiseEx
from qvc.lib import idx_vars, zi
from qvc.sym import Unsupported
from qvc.tm_tensor import is_wrapper, new_input
from qvc.values import Builtin, Device, DType, Obj, STensor, contiguous_strides

AWQP = "optimum/quanto/tensor/qbits/awq/packed.py"
AWQQ = "optimum/quanto/tensor/qbits/awq/qbits.py"
REF = "external/awq/pack_intweight.py"
AWQ_ORDER = [0, 2, 4, 6, 1, 3, 5, 7]


def nibble_facts(E, name="T", rank=2):
    fn = z3.Function(name, *([z3.IntSort()] * rank), z3.BitVecSort(8))
    return lib.touched_facts(E, lambda nm, idx: z3.ULT(fn(*idx), 16) if nm == name else None)


def v2_layout(run):
    Nb, Kb = z3.Ints("Nb Kb")
    inst = {"layout": "v2"}
    E = run.engine(intmode="bv")
    E.load_module(AWQP)
    try:
        E.load_module(REF)
    except Exception as e:
        run.undecide("C15/v2", f"cannot load the reference packer: {e}", inst)
        return

    def prog(E2):
        E2.assume(Nb >= 1)
        E2.assume(Kb >= 1)
        t = new_input(E2, "T", "uint8", [4 * Nb, 64 * Kb], device="cuda")
        p = E2.call(E2.get(f"{AWQP}::pack_v2"), [t], {})
        # the reference packer is fed int32 data, as its own tests do (on uint8 its `<< 4` would wrap in 8 bits)
        ref = E2.call(E2.get(f"{REF}::pack_intweight"), [E2.call(E2.getattr(t, "to"), [DType("int32")], {}), 4, 64], {})
        u = E2.call(E2.get(f"{AWQP}::unpack_v2"), [p], {})
        return t, p, ref, u

    try:
        res = E.explore(Builtin("v2", prog), lambda E2: ([], {}), name="C15.v2")
    except Unsupported as u:
        run.undecide("C15/v2", u, inst)
        return
    run.absorb(E)
    if not run.expect_paths(res, "C15/v2", inst):
        return
    rp = lambda m, s: replay_layouts(m, s, "v2")
    for pi, r in enumerate(res):
        if r.outcome != "return":
            run.add(f"C15/v2-runs/path{pi}", r.hyps, z3.BoolVal(False), "property", inst, {"outcome": repr(r.value)[:300]}, replay=rp)
            continue
        E.focus(r)
        t, p, ref, u = r.value
        N, K = 4 * Nb, 64 * Kb
        run.add(f"C15/v2-packed-shape-dtype/path{pi}", r.hyps, z3.And(lib.shape_eq(p.shape, [Nb, K]), z3.BoolVal(p.dtype == "int16")), "property", inst, replay=rp)
        run.add(f"C15/v2-reference-shape-dtype/path{pi}", r.hyps, z3.And(lib.shape_eq(ref.shape, p.shape), z3.BoolVal(ref.dtype == p.dtype)), "property", inst, replay=rp)
        ids, inb = idx_vars("p", p.shape)
        a, b = p.elem(ids), ref.elem(ids)
        facts = nibble_facts(E)
        run.add(f"C15/v2-bit-identical-to-reference-packer/path{pi}", r.hyps + inb + facts, a == b, "property", inst, replay=rp, timeout=120)
        run.add(f"C15/v2-unpacked-shape/path{pi}", r.hyps, z3.And(lib.shape_eq(u.shape, [N, K]), z3.BoolVal(u.dtype == "uint8")), "property", inst, replay=rp)
        E.ps["touched"] = []
        jds, jnb = idx_vars("u", [N, K])
        tf = z3.Function("T", z3.IntSort(), z3.IntSort(), z3.BitVecSort(8))
        got = u.elem(jds)
        facts = nibble_facts(E)
        run.add(f"C15/v2-unpack-inverts-pack/path{pi}", r.hyps + jnb + facts, got == tf(*jds), "property", inst, replay=rp, timeout=120)
        for o in r.obligations:
            if o.kind in ("assert", "torch-pre", "callee-pre"):
                run.add(f"C15/v2-no-runtime-error/path{pi}/{o.name}@{o.loc}", o.hyps, o.goal, "property", inst, replay=rp)
            elif o.kind == "side" and "div-nonzero" not in o.name:
                run.add(f"C15/v2-exec/path{pi}/{o.name}@{o.loc}", o.hyps, o.goal, "side", inst)


def _v1_spec_col(tf, order, bits, r, c):
    acc = z3.BitVecVal(0, 32)
    for i in range(8):
        v = tf(r, 8 * c + order[i])
        acc = acc | ((z3.ZeroExt(32 - bits, v) if bits < 32 else v) << (4 * i))
    return acc


def _source_writes(r):
    return [f"{w[0]} into {getattr(w[1], 'name', '?')} at {w[4]}" for w in r.writes if w[0] == "tensor" and isinstance(w[1], STensor) and w[1].root().name == "T"]


def _v1_pack_invariant(run, reorder, order, dtype):
    """-> None when the invariant harness applied (obligations added), else the reason why it does not apply to this pack()."""
    inst = {"layout": "v1", "reorder": reorder, "dtype": dtype}
    bits = 8 if dtype == "uint8" else 32
    E = run.engine(intmode="bv")
    E.load_module(AWQP)
    mod, node = E.find_function_node(AWQP, "pack")
    loops = [n for n in node.body if isinstance(n, ast.For)]
    if len(loops) != 1 or not (isinstance(loops[0].target, ast.Name)):
        return "pack() no longer has the single column loop the invariant is stated for"
    loop = loops[0]
    pre = node.body[: node.body.index(loop)]
    N, C = z3.Ints("N C")
    col = z3.Int("col")
    tf = z3.Function("T", z3.IntSort(), z3.IntSort(), z3.BitVecSort(bits))

    def prog(E2, reorder=reorder):
        E2.assume(N >= 1)
        E2.assume(C >= 1)
        t = new_input(E2, "T", dtype, [N, 8 * C], device="cuda")
        env = Env(parent=mod.env)
        env.vars.update({"unpacked": t, "reorder": reorder})
        clo = E2.closure_for(f"{AWQP}::pack")
        E2.frames.append(Frame(clo, env))
        try:
            E2.exec_block(pre, env)                      # bits, pack_num, packed = zeros(...)
            packed0 = env.vars["packed"]
            if not isinstance(packed0, STensor):
                raise Unsupported("no tensor named packed before the loop")
            init_shape = list(packed0.shape)
            r_, c_ = z3.Ints("r c")
            init_val = packed0.elem([r_, c_])
            trip = E2.eval(loop.iter, env)                # range(unpacked.shape[1] // pack_num)
            # consecution: an arbitrary tensor satisfying Inv(col), 0 <= col < trip
            E2.assume(col >= 0)
            E2.assume(col < C)
            P = new_input(E2, "P", "int32", [N, C], device="cuda")
            P.fresh = True
            env.vars["packed"] = P
            env.vars[loop.target.id] = col
            pre_fn = P.snap()
            E2.exec_block(loop.body, env)
            post = env.vars["packed"]
        finally:
            E2.frames.pop()
        return t, init_shape, init_val, trip, pre_fn, post

    try:
        res = E.explore(Builtin("v1pack", prog), lambda E2: ([], {}), name="C15.v1.pack")
    except Unsupported as u:
        return f"unsupported construct: {u}"
    except KeyError as u:
        return f"no variable {u} before the loop"
    if any(r.outcome == "unsupported" for r in res):
        return "; ".join(sorted({str(r.value)[:160] for r in res if r.outcome == "unsupported"}))
    run.absorb(E)
    tag = f"reorder={reorder}" + ("" if dtype == "uint8" else f"/{dtype}")
    if not run.expect_paths(res, f"C15/v1-pack[{tag}]", inst):
        return None
    rp = (lambda m, s, ro=reorder: replay_layouts(m, s, "v1", ro)) if dtype == "uint8" else (lambda m, s, ro=reorder, dt=dtype: replay_v1_source(m, s, ro, dt))
    for pi, r in enumerate(res):
        if r.outcome != "return":
            run.add(f"C15/v1-pack-body-runs[{tag}]/path{pi}", r.hyps, z3.BoolVal(False), "property", inst, {"outcome": repr(r.value)[:300]}, replay=rp)
            continue
        E.focus(r)
        t, init_shape, init_val, trip, pre_fn, post = r.value
        from qvc.interp import SymRange
        okrange = isinstance(trip, SymRange) and trip.step == 1
        run.add(f"C15/v1-pack-loop-range[{tag}]/path{pi}", r.hyps, z3.And(z3.BoolVal(bool(okrange)), zi(trip.stop) == C if okrange else z3.BoolVal(False),
                                                                          zi(trip.start) == 0 if okrange else z3.BoolVal(False)), "helper", inst, {"function": "awq pack (v1)"}, replay=rp)
        run.add(f"C15/v1-pack-invariant-initiation[{tag}]/path{pi}", r.hyps, z3.And(lib.shape_eq(init_shape, [N, C]), init_val == 0), "helper", inst, {"function": "awq pack (v1)"}, replay=rp)
        rr, cc = z3.Ints("rr cc")
        pf = z3.Function("P", z3.IntSort(), z3.IntSort(), z3.BitVecSort(32))
        # Inv(col) instantiated at the indices read: columns >= col are zero
        E.ps["touched"] = []
        got = post.elem([rr, cc])
        inv_facts = lib.touched_facts(E, lambda nm, idx: z3.Implies(idx[1] >= col, pf(*idx) == 0) if nm == "P" else None)
        inb = [rr >= 0, rr < N, cc >= 0, cc < C]
        want = z3.If(cc == col, _v1_spec_col(tf, order, bits, rr, col), pf(rr, cc))
        run.add(f"C15/v1-pack-invariant-consecution[{tag}]/path{pi}", r.hyps + inb + inv_facts, got == want, "helper", inst, {"function": "awq pack (v1)"}, replay=rp, timeout=60)
        wr = _source_writes(r)
        run.add(f"C15/v1-pack-does-not-write-the-matrix-it-packs[{tag}]/path{pi}", r.hyps, z3.BoolVal(not wr), "property", inst, {"writes": wr[:3]},
                replay=lambda m, s, ro=reorder, dt=dtype: replay_v1_source(m, s, ro, dt))
        for o in r.obligations:
            if o.kind in ("assert", "torch-pre", "callee-pre"):
                run.add(f"C15/v1-pack-no-runtime-error[{tag}]/path{pi}/{o.name}@{o.loc}", o.hyps, o.goal, "property", inst, replay=rp)
    return None


def _v1_pack_direct(run, reorder, order, dtype):
    """pack() executed as a whole on a symbolic N x 8C matrix (possible when it has no loop of symbolic trip count): result against the
    layout specification, source not written.  -> None when it applied, else the reason."""
    inst = {"layout": "v1", "reorder": reorder, "dtype": dtype, "harness": "whole function"}
    bits = 8 if dtype == "uint8" else 32
    E = run.engine(intmode="bv")
    E.load_module(AWQP)
    N, C = z3.Ints("N C")
    tf = z3.Function("T", z3.IntSort(), z3.IntSort(), z3.BitVecSort(bits))

    def prog(E2, reorder=reorder):
        E2.assume(N >= 1)
        E2.assume(C >= 1)
        t = new_input(E2, "T", dtype, [N, 8 * C], device="cuda")
        return E2.call(E2.get(f"{AWQP}::pack"), [t], {"reorder": reorder})

    try:
        res = E.explore(Builtin("v1packd", prog), lambda E2: ([], {}), name="C15.v1.pack.direct")
    except Unsupported as u:
        return f"unsupported construct: {u}"
    if any(r.outcome == "unsupported" for r in res):
        return "; ".join(sorted({str(r.value)[:160] for r in res if r.outcome == "unsupported"}))
    run.absorb(E)
    tag = f"reorder={reorder}/{dtype}/whole-function"
    if not run.expect_paths(res, f"C15/v1-pack[{tag}]", inst):
        return None
    rp = lambda m, s, ro=reorder, dt=dtype: replay_v1_source(m, s, ro, dt)
    for pi, r in enumerate(res):
        if r.outcome != "return" or not isinstance(r.value, STensor):
            run.add(f"C15/v1-pack-body-runs[{tag}]/path{pi}", r.hyps, z3.BoolVal(False), "property", inst, {"outcome": repr(r.value)[:300]}, replay=rp)
            continue
        E.focus(r)
        out = r.value
        run.add(f"C15/v1-packed-shape[{tag}]/path{pi}", r.hyps, z3.And(z3.BoolVal(out.dtype == "int32"), lib.shape_eq(out.shape, [N, C])), "property", inst, replay=rp)
        wr = _source_writes(r)
        run.add(f"C15/v1-pack-does-not-write-the-matrix-it-packs[{tag}]/path{pi}", r.hyps, z3.BoolVal(not wr), "property", inst, {"writes": wr[:3]}, replay=rp)
        if not wr and len(out.shape) == 2:
            rr, cc = z3.Ints("rr cc")
            E.ps["touched"] = []
            got = out.elem([rr, cc])
            nib = lib.touched_facts(E, lambda nm, idx: z3.ULT(tf(*idx), 16) if nm == "T" else None)   # a 4-bit matrix
            run.add(f"C15/v1-packed-word-is-the-layout-of-its-eight-codes[{tag}]/path{pi}", r.hyps + [rr >= 0, rr < N, cc >= 0, cc < C] + nib,
                    got == _v1_spec_col(tf, order, bits, rr, cc), "property", inst, replay=rp, timeout=60)
        for o in r.obligations:
            if o.kind in ("assert", "torch-pre", "callee-pre"):
                run.add(f"C15/v1-pack-no-runtime-error[{tag}]/path{pi}/{o.name}@{o.loc}", o.hyps, o.goal, "property", inst, replay=rp)
    return None


def v1_layout(run):
    """v1: the column loop of pack() has a symbolic trip count: inductive invariant
         Inv(col): columns < col hold OR_i T[:, 8c + order[i]] << 4i, columns >= col are 0
       checked for initiation, consecution (body executed once for a symbolic col) and sufficiency; the inner loop (8) is unrolled.
       unpack() is loop free and is executed on a tensor satisfying the post-condition of pack()."""
    for reorder in (False, True):
        inst = {"layout": "v1", "reorder": reorder}
        order = AWQ_ORDER if reorder else list(range(8))
        N, C = z3.Ints("N C")
        tf = z3.Function("T", z3.IntSort(), z3.IntSort(), z3.BitVecSort(8))
        tag = f"reorder={reorder}"
        rp = lambda m, s, ro=reorder: replay_layouts(m, s, "v1", ro)
        for dtype in ("uint8", "int32"):
            # int32: the dtype of the reference packer's intweight - there .to(torch.int32) returns the source itself
            why = _v1_pack_invariant(run, reorder, order, dtype)
            if why is not None:
                # the column-loop invariant does not apply to this pack(): a pack() without a loop of symbolic trip count is executed as a whole
                why2 = _v1_pack_direct(run, reorder, order, dtype)
                if why2 is not None:
                    run.undecide(f"C15/v1-pack[{tag}/{dtype}]", f"{why}; executed as a whole: {why2}", dict(inst, dtype=dtype))
        # sufficiency + round trip: unpack(PACKED_SPEC) == T
        E2 = run.engine(intmode="bv")
        E2.load_module(AWQP)

        def prog2(E3, reorder=reorder):
            E3.assume(N >= 1)
            E3.assume(C >= 1)
            E3.assume(8 * C < 2**31)   # the column index tensor of reverse_awq_order is an int32 arange: sizes fit in int32
            tt = new_input(E3, "T", "uint8", [N, 8 * C], device="cuda")
            ts = tt.snap()
            packed = STensor("int32", [N, C], lambda idx: _spec(E3, ts, idx, order), device=Device("cuda"))
            before = lib.module_containers(E3, AWQP)
            out = E3.call(E3.get(f"{AWQP}::unpack"), [packed], {"reorder": reorder})
            E3.ps["module_state"] = (before, lib.module_containers(E3, AWQP))
            return out

        try:
            res2 = E2.explore(Builtin("v1unpack", prog2), lambda E3: ([], {}), name="C15.v1.unpack")
        except Unsupported as u:
            run.undecide("C15/v1-unpack", u, inst)
            continue
        run.absorb(E2)
        if not run.expect_paths(res2, f"C15/v1-unpack[{tag}]", inst):
            continue
        for pi, r in enumerate(res2):
            if r.outcome != "return":
                run.add(f"C15/v1-unpack-runs[{tag}]/path{pi}", r.hyps, z3.BoolVal(False), "property", inst, {"outcome": repr(r.value)[:300]}, replay=rp)
                continue
            E2.focus(r)
            u = r.value
            st0, st1 = r.ps.get("module_state", ({}, {}))
            run.add(f"C15/v1-unpack-keeps-no-state-between-calls[{tag}]/path{pi}", r.hyps, z3.BoolVal(st0 == st1), "property", inst,
                    {"changed": sorted(k for k in set(st0) | set(st1) if st0.get(k) != st1.get(k))}, replay=rp)
            run.add(f"C15/v1-unpacked-shape[{tag}]/path{pi}", r.hyps, lib.shape_eq(u.shape, [N, 8 * C]), "property", inst, replay=rp)
            jds, jnb = idx_vars("u", [N, 8 * C])
            got = u.elem(jds)
            facts = nibble_facts(E2)
            gotb = z3.Extract(7, 0, got) if got.size() > 8 else got
            run.add(f"C15/v1-unpack-inverts-pack[{tag}]/path{pi}", r.hyps + jnb + facts, gotb == tf(*jds), "property", inst, replay=rp, timeout=120,
                    implied_by=None)
            for o in r.obligations:
                if o.kind in ("assert", "torch-pre", "callee-pre"):
                    run.add(f"C15/v1-unpack-no-runtime-error[{tag}]/path{pi}/{o.name}@{o.loc}", o.hyps, o.goal, "property", inst, replay=rp)


def _spec(E, ts, idx, order):
    r, c = idx
    acc = z3.BitVecVal(0, 32)
    for i in range(8):
        acc = acc | (z3.ZeroExt(24, ts([r, E.binop("Add", E.binop("Mult", 8, c), order[i])])) << (4 * i))
    return acc


def representation(run):
    """An int4 weight in the AWQ-optimised representation dequantizes to the same values as the standard representation built from the same
    codes / scales / zero-points, and converting it back restores them.  Algebra R; pack_v2 / unpack_v2 and group / ungroup through contracts."""
    inst = {"lemma": "representation"}
    E = OC.engine(run)
    E.load_module(AWQQ)
    AP = E.get(f"{AWQP}::AWQPackedTensor")
    from qvc.torchmodel import make_wrapper_subclass

    def awq_pack(E2, args, kwargs):
        cls, t = args[0], args[1]
        o = make_wrapper_subclass(E2, cls, tuple(t.shape), strides=None, dtype=DType("uint8"), device=t.device)
        payload = new_input(E2, E2.fresh_name("awqpayload").replace("#", "_"), "int16", [E2.floordiv(t.shape[0], 4), t.shape[1]], device=t.device)
        o.fields.update({"_data": payload, "_packing": kwargs.get("packing"), "_reorder": kwargs.get("reorder", False), "_ghost_codes": STensor("uint8", list(t.shape), t.snap(), device=t.device)})
        return o

    def awq_unpack(E2, args, kwargs):
        p = args[0]
        g = p.fields["_ghost_codes"]
        return STensor("uint8", list(g.shape), g.snap(), device=g.device)

    E.contracts[f"{AWQP}::AWQPackedTensor.pack"] = awq_pack       # unpack_v2(pack_v2(T)) == T: proved above (v2 layout)
    E.contracts[f"{AWQP}::AWQPackedTensor.unpack"] = awq_unpack
    O, ag = z3.Ints("O ag")
    G = 128

    def prog(E2):
        E2.assume(O >= 1)
        E2.assume(ag >= 1)
        ds = [O, G * ag]
        for hh in CG.hints(ds, 0, ds[1], z3.IntVal(G), ag):
            E2.assume(hh)
        n = O * ag
        pshape = [n, G]
        qt = E2.load_module(OC.QTYPE).env.lookup("qint4")
        codes = new_input(E2, "C", "uint8", pshape, device="cuda")
        cid, cinb = idx_vars("cq", pshape)
        E2.assume(z3.ForAll(cid, z3.Implies(z3.And(*cinb), z3.And(codes.elem(cid) >= 0, codes.elem(cid) < 16))))
        sc = new_input(E2, "S", "float16", [n, 1], device="cuda")
        zp = new_input(E2, "Z", "int8", [n, 1], device="cuda")
        zid, zinb = idx_vars("zq", [n, 1])
        E2.assume(z3.ForAll(zid, z3.Implies(z3.And(*zinb), z3.And(zp.elem(zid) >= 0, zp.elem(zid) < 16))))
        AB = E2.get(f"{AWQQ}::AWQBitsTensor")
        a = E2.call(AB, [qt, 0, G, tuple(ds), contiguous_strides(ds), codes, sc, zp], {})
        da = E2.call(E2.getattr(a, "dequantize"), [], {})
        # detach / __tensor_unflatten__ / deserialization rebuild the tensor from its own (already packed) parts: same weights
        try:
            a2 = E2.call(AB, [qt, 0, G, tuple(ds), contiguous_strides(ds), a.fields["_data"], a.fields["_scale"], a.fields["_zeropoint"]], {})
            E2.ps["awq_rebuilt"] = ("value", E2.call(E2.getattr(a2, "dequantize"), [], {}))
        except RaiseEx as rx:
            E2.ps["awq_rebuilt"] = ("raises", rx.exc)
        nw = len(E2.writes)
        own = [v.root() for v in a.fields.values() if isinstance(v, STensor)] + \
              [v.root() for v in getattr(a.fields.get("_data"), "fields", {}).values() if isinstance(v, STensor)]
        try:
            back = ("value", E2.call(E2.getattr(a, "qbits_tensor"), [], {}))
            E2.ps["conv_writes"] = [f"{w[0]} into {getattr(w[1], 'name', '?')} at {w[4]}" for w in E2.writes[nw:]
                                    if w[0] in ("tensor", "tensor-attr") and isinstance(w[1], STensor) and any(w[1].root() is o for o in own)]
            try:
                back_deq = ("value", E2.call(E2.getattr(back[1], "dequantize"), [], {}))
            except RaiseEx as rx:
                back_deq = ("raises", rx.exc)
        except RaiseEx as rx:
            back, back_deq = ("raises", rx.exc), None
        # serializing: only the standard layout may reach a state_dict
        dest = {}
        try:
            E2.call(E2.getattr(a, "save_to_state_dict"), [dest, "w.", False], {})
            E2.ps["awq_saved"] = ("value", dest)
        except RaiseEx as rx:
            E2.ps["awq_saved"] = ("raises", rx.exc)
        return ds, codes, sc, zp, a, da, back, back_deq

    try:
        res = E.explore(Builtin("repr", prog), lambda E2: ([], {}), name="C15.repr")
    except Unsupported as u:
        run.undecide("C15/representation", u, inst)
        return
    run.absorb(E)
    if not run.expect_paths(res, "C15/representation", inst):
        return
    rp = lambda m, s: replay_repr(m, s, ("awq",))
    rp_back = lambda m, s: replay_repr(m, s, ("conversion",))
    rp_conv = lambda m, s: replay_conv(m, s)
    for pi, r in enumerate(res):
        if r.outcome != "return":
            run.add(f"C15/awq-tensor-construction-runs/path{pi}", r.hyps, z3.BoolVal(False), "property", inst, {"outcome": repr(r.value)[:300]}, replay=rp)
            continue
        E.focus(r)
        ds, codes, sc, zp, a, da, back, back_deq = r.value
        bad = [f"{w[0]} {getattr(w[1], 'name', '')}" for w in r.writes if w[0] == "tensor" and w[1] in (codes.root(), sc.root(), zp.root())]
        run.add(f"C15/construction-does-not-modify-codes-scales-zeropoints/path{pi}", r.hyps, z3.BoolVal(not bad), "property", inst, {"writes": bad[:4]}, replay=rp)
        run.add(f"C15/awq-dequantized-shape/path{pi}", r.hyps, lib.shape_eq(da.shape, ds), "property", inst, replay=rp)
        ids, inb = idx_vars("i", ds)
        E.drain()
        got = da.elem(ids)
        rel, m = None, None
        facts = E.drain() + list(E.ps.get("lazy_facts", []))
        for g in E.ps.get("groups", []):
            f, m = CG.group_relation(E, g, ids)
            facts.append(f)
        if m is None:
            run.undecide("C15/representation", "no group() call found in the optimised dequantizer", inst)
            continue
        R, Cc = m
        cf = z3.Function("C", z3.IntSort(), z3.IntSort(), z3.IntSort())
        sf = z3.Function("S", z3.IntSort(), z3.IntSort(), z3.RealSort())
        zf = z3.Function("Z", z3.IntSort(), z3.IntSort(), z3.IntSort())
        want = sf(R, 0) * z3.ToReal(cf(R, Cc) - zf(R, 0))
        facts += E.drain()
        run.add(f"C15/awq-dequantizes-like-the-standard-representation/path{pi}", r.hyps + inb + facts, got == want, "property", inst, replay=rp, timeout=60)
        rb = r.ps.get("awq_rebuilt")
        rp_rb = lambda m, s: replay_rebuilt(m, s)
        if rb is not None and rb[0] == "raises":
            run.add(f"C15/rebuilt-from-its-own-parts/does-not-raise/path{pi}:{rb[1].tname}", r.hyps, z3.BoolVal(False), "property", inst, replay=rp_rb)
        elif rb is not None:
            d2 = rb[1]
            run.add(f"C15/rebuilt-from-its-own-parts/shape/path{pi}", r.hyps, lib.shape_eq(d2.shape, ds), "property", inst, replay=rp_rb)
            if len(d2.shape) == len(ds):
                got2 = d2.elem(ids)
                f2 = E.drain() + list(E.ps.get("lazy_facts", []))
                for g in E.ps.get("groups", []):
                    f2.append(CG.group_relation(E, g, ids)[0])
                run.add(f"C15/rebuilt-from-its-own-parts/denotes-the-same-weights/path{pi}", r.hyps + inb + facts + f2 + E.drain(), got2 == got, "property", inst,
                        replay=rp_rb, timeout=60)
        # conversion back
        if back[0] == "raises":
            run.add(f"C15/conversion-back/does-not-raise/path{pi}:{back[1].tname}", r.hyps, z3.BoolVal(False), "property", inst, replay=rp_back)
            continue
        sv = r.ps.get("awq_saved")
        if sv is not None and sv[0] == "value":
            dest = sv[1]
            std = {"w._data._data", "w._data.bits", "w._data.size", "w._data.stride", "w._scale", "w._zeropoint", "w.qtype", "w.axis", "w.group_size", "w.size", "w.stride"}
            extra = sorted(k for k in dest if k not in std)
            pay = dest.get("w._data._data")
            okp = isinstance(pay, STensor) and pay.dtype == "uint8"
            run.add(f"C15/serialized-in-the-standard-layout/path{pi}", r.hyps, z3.BoolVal(not extra and okp), "property", inst,
                    {"unexpected_keys": extra, "payload_dtype": getattr(pay, "dtype", None), "keys": sorted(dest)}, replay=lambda m, s: replay_save(m, s))
        cw = r.ps.get("conv_writes", [])
        run.add(f"C15/converting-back-leaves-the-awq-tensor-untouched/path{pi}", r.hyps, z3.BoolVal(not cw), "property", inst, {"writes": cw[:4]}, replay=rp_conv)
        qb = back[1]
        for nme, f in inv.inv_qbits(qb):
            defective = nme in ("payload-shape==grouped-shape", "scale-has-keepdim-shape-over-payload", "zeropoint-has-keepdim-shape-over-payload", "zeropoint-int8")
            run.add(f"C15/conversion-back/inv:{nme}/path{pi}", r.hyps, f, "property", inst, replay=rp_back if defective else None)
        z2 = qb.fields["_zeropoint"]
        jd, jn = idx_vars("z", z2.shape)
        run.add(f"C15/conversion-back/zero-points-restored/path{pi}", r.hyps + jn,
                z3.And(z3.BoolVal(z2.dtype == "int8"), lib.shape_eq(z2.shape, zp.shape), (z2.elem(jd) == zp.elem(jd)) if z2.dtype == "int8" and len(z2.shape) == 2 else z3.BoolVal(False)),
                "property", inst, replay=rp)
        if back_deq is not None and back_deq[0] == "raises":
            run.add(f"C15/conversion-back/dequantize-does-not-raise/path{pi}:{back_deq[1].tname}", r.hyps, z3.BoolVal(False), "property", inst, replay=rp_back)


def class_round_trip(run):
    """AWQPackedTensor.pack / .unpack (the class entry points used by AWQBitsTensor) on a source matrix with ARBITRARY strides: the
    unpacked tensor holds the values of the source.  The layout functions enter through their proved contract (unpack o pack = id)."""
    from qvc.torchmodel import make_wrapper_subclass  # noqa: F401
    for packing in ("V1", "V2"):
        for reorder in ((False, True) if packing == "V1" else (False,)):
            inst = {"lemma": "class round trip", "packing": packing, "reorder": reorder}
            E = run.engine(intmode="bv")
            E.load_module(AWQP)

            def pack_c(E2, args, kwargs):
                t = args[0]
                rows = t.shape[0] if packing == "V1" else E2.floordiv(t.shape[0], 4)
                cols = E2.floordiv(t.shape[1], 8) if packing == "V1" else t.shape[1]
                payload = new_input(E2, E2.fresh_name("awqpayload").replace("#", "_"), "int32" if packing == "V1" else "int16", [rows, cols], device=t.device)
                payload.attrs["ghost_codes"] = STensor("uint8", list(t.shape), t.snap(), device=t.device)
                return payload

            def unpack_c(E2, args, kwargs):
                g = args[0].attrs.get("ghost_codes")
                if g is None:
                    raise Unsupported("unpack of a payload that was not produced by pack")
                return STensor("uint8", list(g.shape), g.snap(), device=g.device)

            for nm in ("pack", "pack_v2"):
                E.contracts[f"{AWQP}::{nm}"] = pack_c
            for nm in ("unpack", "unpack_v2"):
                E.contracts[f"{AWQP}::{nm}"] = unpack_c
            N, C = z3.Ints("N C")
            s0, s1 = z3.Ints("st0 st1")

            def prog(E2, packing=packing, reorder=reorder):
                E2.assume(N >= 1)
                E2.assume(C >= 1)
                E2.assume(s0 >= 0)
                E2.assume(s1 >= 0)
                t = new_input(E2, "T", "uint8", [4 * N, 8 * C], device="cuda", strides=[s0, s1])
                AP = E2.get(f"{AWQP}::AWQPackedTensor")
                pk = E2.load_module(AWQP).env.lookup("AWQPacking")
                p = E2.call(E2.getattr(AP, "pack"), [t], {"packing": E2.getattr(pk, packing), "reorder": reorder})
                return E2.call(E2.getattr(p, "unpack"), [], {})

            tag = f"{packing}/reorder={reorder}"
            try:
                res = E.explore(Builtin("awqcls", prog), lambda E2: ([], {}), name="C15.class")
            except Unsupported as u:
                run.undecide(f"C15/class-round-trip[{tag}]", u, inst)
                continue
            run.absorb(E)
            if not run.expect_paths(res, f"C15/class-round-trip[{tag}]", inst):
                continue
            rp = lambda m, s, i=dict(inst): replay_class(m, s, i)
            for pi, r in enumerate(res):
                if r.outcome != "return":
                    run.add(f"C15/class-round-trip-runs[{tag}]/path{pi}", r.hyps, z3.BoolVal(False), "property", inst, {"outcome": repr(r.value)[:200]}, replay=rp)
                    continue
                E.focus(r)
                u = r.value
                run.add(f"C15/class-unpacked-shape[{tag}]/path{pi}", r.hyps, lib.shape_eq(u.shape, [4 * N, 8 * C]), "property", inst, replay=rp)
                if len(u.shape) != 2:
                    continue
                ids, inb = idx_vars("u", [4 * N, 8 * C])
                tf = z3.Function("T", z3.IntSort(), z3.IntSort(), z3.BitVecSort(8))
                got = u.elem(ids)
                facts = E.drain()
                run.add(f"C15/class-unpack-returns-the-source-values[{tag}]/path{pi}", r.hyps + inb + facts, got == tf(*ids), "property", inst, replay=rp, timeout=60)
                for o in r.obligations:
                    if o.kind in ("assert", "torch-pre", "callee-pre"):
                        run.add(f"C15/class-round-trip-no-runtime-error[{tag}]/path{pi}/{o.name}@{o.loc}", o.hyps, o.goal, "property", inst, replay=rp)


def replay_class(model, seed, inst):
    import torch

    torch.manual_seed(seed)
    P = _cpu_module(AWQP, "optimum.quanto.tensor.qbits.awq.packed")
    packing = getattr(P.AWQPacking, inst["packing"])
    base = torch.randint(0, 16, (128, 128), dtype=torch.uint8)
    views = {"contiguous": base[:64, :64].contiguous(), "transposed": base.t()[:64, :64], "column-slice": base[:64, 32:96], "row-step": base[::2, :64]}
    for name, t in views.items():
        try:
            p = P.AWQPackedTensor.pack(t, packing=packing, reorder=inst["reorder"])
            u = p.unpack()
        except Exception as e:
            return {"what": f"round trip raises {type(e).__name__}: {str(e)[:120]}", "source": name}
        if tuple(u.shape) != tuple(t.shape) or not torch.equal(u.to(torch.uint8), t):
            return {"what": "AWQPackedTensor.unpack() does not return the values of the packed matrix", "source": name, "packing": inst["packing"], "reorder": inst["reorder"]}
    return None



def build(run):
    from props import conformance

    conformance.run_conformance(run, ['awq', 'group'])
    run.assume("A-ENGINE", "A-PY", "A-TORCH-IDX reshape / permute / advanced indexing / numpy reshape-transpose-astype as index maps", "A-TORCH-EW int32/int16 shifts, truncation, "
               "arithmetic right shift on int32, bitwise and", "A-CUDA the functions are verified as text on tensors that carry device 'cuda'; no GPU kernel is executed", "group / ungroup contracts (C02)")
    run.assumptions += ["v1 with reordering: the number of columns fits in int32 (torch.arange(..., dtype=int32) is used as the gather index)", "v2: rows 4*Nb, columns 64*Kb with Nb, Kb >= 1 symbolic; v1: rows N, columns 8*C symbolic; every nibble value",
                        "v1 pack: the column loop is handled by an inductive invariant (initiation, consecution for a symbolic column, sufficiency via the post-condition tensor)",
                        "representation lemma over the reals for group size 128 (one float16 rounding is not bounded: A-REAL)"]
    run.not_decided += ["CUDA execution of the AWQ gemm kernels", "'up to one float16 rounding' as a bit-precise bound"]
    E0 = run.engine()
    for key in (f"{AWQP}::pack", f"{AWQP}::reverse_awq_order", f"{AWQP}::unpack", f"{AWQP}::pack_v2", f"{AWQP}::unpack_v2", f"{REF}::pack_intweight",
                f"{AWQQ}::AWQBitsTensor.__init__", f"{AWQQ}::AWQBitsDequantizer.forward", f"{AWQQ}::AWQBitsTensor.qbits_tensor"):
        run.under_contract(E0, key)
    for part in (v2_layout, v1_layout, class_round_trip, representation):
        try:
            part(run)
        except Unsupported as u:
            run.undecide(f"C15/{part.__name__}", f"unsupported: {u}")


# ------------------------------------------------------------------------------------------------ native replay (CPU, device asserts dropped mechanically)
def _cpu_module(relpath, modname):
    """exec the module source with ONLY the lines `assert ... device.type == "cuda"` removed."""
    import importlib
    import re
    import sys
    import types

    src = open(_REPO + "/" + relpath).read()
    kept = [ln for ln in src.split("\n") if not re.match(r'\s*assert .*device\.type == "cuda"\s*$', ln)]
    mod = types.ModuleType(modname)
    mod.__package__ = modname.rsplit(".", 1)[0]
    sys.modules.setdefault(modname + "_cpu", mod)
    exec(compile("\n".join(kept), relpath, "exec"), mod.__dict__)
    return mod


def replay_layouts(model, seed, which, reorder=False):
    import sys
    import torch

    torch.manual_seed(seed)
    P = _cpu_module(AWQP, "optimum.quanto.tensor.qbits.awq.packed")
    sys.path.insert(0, _REPO + "/external/awq")
    if which == "v2":
        from pack_intweight import pack_intweight
        for (n, k) in ((4, 64), (8, 128), (12, 192), (4, 320)):
            t = torch.randint(0, 16, (n, k), dtype=torch.uint8)
            try:
                p = P.pack_v2(t)
                if not torch.equal(P.unpack_v2(p), t):
                    return {"layout": "v2", "shape": [n, k], "what": "unpack_v2(pack_v2(T)) != T"}
                if not torch.equal(p, pack_intweight(t.to(torch.int32), 4, 64)):
                    return {"layout": "v2", "shape": [n, k], "what": "pack_v2 differs from the reference pack_intweight"}
            except Exception as e:
                return {"layout": "v2", "shape": [n, k], "what": f"raises {type(e).__name__}: {str(e)[:120]}"}
    else:
        for (n, k) in ((3, 8), (5, 24), (2, 64)):
            t = torch.randint(0, 16, (n, k), dtype=torch.uint8)
            if not torch.equal(P.unpack(P.pack(t, reorder=reorder), reorder=reorder).to(torch.uint8), t):
                return {"layout": "v1", "reorder": reorder, "shape": [n, k], "what": "unpack(pack(T)) != T"}
    return None


def replay_v1_source(model, seed, reorder, dtype):
    """v1 pack on a 4-bit matrix held in the given dtype: the matrix is still the one that was packed, and unpack gives it back."""
    import torch

    torch.manual_seed(seed)
    P = _cpu_module(AWQP, "optimum.quanto.tensor.qbits.awq.packed")
    dt = getattr(torch, dtype)
    for (n, k) in ((3, 8), (5, 24), (2, 64)):
        t = torch.randint(0, 16, (n, k), dtype=dt)
        t0 = t.clone()
        try:
            p = P.pack(t, reorder=reorder)
            u = P.unpack(p, reorder=reorder)
        except Exception as e:
            return {"layout": "v1", "reorder": reorder, "dtype": dtype, "shape": [n, k], "what": f"raises {type(e).__name__}: {str(e)[:120]}"}
        if not torch.equal(t, t0):
            return {"layout": "v1", "reorder": reorder, "dtype": dtype, "shape": [n, k], "what": "pack() changed the matrix it packs",
                    "columns_changed": sorted(set((t != t0).nonzero()[:, 1].tolist()))[:8]}
        if list(p.shape) != [n, k // 8] or p.dtype != torch.int32 or not torch.equal(u.to(dt), t0):
            return {"layout": "v1", "reorder": reorder, "dtype": dtype, "shape": [n, k], "what": "unpack(pack(T)) != T"}
    return None


def _awq_cls():
    import re
    P = _cpu_module(AWQP, "optimum.quanto.tensor.qbits.awq.packed")
    src = open(_REPO + "/" + AWQQ).read().replace("from .packed import AWQPackedTensor, AWQPacking", "")
    src = "\n".join(ln for ln in src.split("\n") if not re.match(r'\s*assert .*device\.type == "cuda"\s*$', ln))
    ns = {"AWQPackedTensor": P.AWQPackedTensor, "AWQPacking": P.AWQPacking, "__name__": "optimum.quanto.tensor.qbits.awq.qbits", "__package__": "optimum.quanto.tensor.qbits.awq"}
    exec(compile(src, AWQQ, "exec"), ns)
    return ns["AWQBitsTensor"]


def replay_rebuilt(model, seed):
    """An AWQ tensor rebuilt from its own parts (what detach / unflatten / deserialization do) dequantizes to the same weights -
    also when the per-group parameter matrix is square (out_features == in_features // group_size)."""
    import torch
    from optimum.quanto import MaxOptimizer, qint4
    from optimum.quanto.tensor.quantizers import AffineQuantizer

    torch.manual_seed(seed)
    A = _awq_cls()
    for (o, i) in ((8, 128), (16, 256), (4, 512), (8, 1024), (4, 128), (12, 1536)):      # admissible: rows a multiple of 4, columns of 128
        w = torch.randn(o, i, dtype=torch.float16)
        sc, zp = MaxOptimizer()(w, bits=4, axis=0, group_size=128)
        q = AffineQuantizer.apply(w, qint4, 0, 128, sc, zp)
        try:
            a = A(qint4, 0, 128, q.size(), q.stride(), q._data.unpack(), q._scale, q._zeropoint)
            want = a.dequantize()
        except Exception:
            continue    # building the tensor itself is another clause (awq-tensor-construction-runs)
        try:
            a2 = A(qint4, 0, 128, a.size(), a.stride(), a._data, a._scale, a._zeropoint)
            got = a2.dequantize()
        except Exception as e:
            return {"what": f"rebuilding an AWQ tensor from its own parts raises {type(e).__name__}: {str(e)[:120]}", "shape": [o, i]}
        if got.shape != want.shape or not torch.equal(got, want):
            return {"what": "an AWQ tensor rebuilt from its own parts (detach / unflatten) dequantizes to different weights", "shape": [o, i],
                    "max_abs_diff": (got.float() - want.float()).abs().max().item() if got.shape == want.shape else None}
    return None


def replay_conv(model, seed):
    """Converting the AWQ representation back must not change the AWQ tensor itself (its dequantized values before == after)."""
    import torch
    from optimum.quanto import MaxOptimizer, qint4
    from optimum.quanto.tensor.quantizers import AffineQuantizer

    torch.manual_seed(seed)
    A = _awq_cls()
    for (o, i) in ((8, 128), (16, 256), (4, 384)):
        w = torch.randn(o, i, dtype=torch.float16)
        sc, zp = MaxOptimizer()(w, bits=4, axis=0, group_size=128)
        q = AffineQuantizer.apply(w, qint4, 0, 128, sc, zp)
        a = A(qint4, 0, 128, q.size(), q.stride(), q._data.unpack(), q._scale, q._zeropoint)
        before = a.dequantize().clone()
        try:
            a.qbits_tensor()
        except Exception:
            pass
        after = a.dequantize()
        if not torch.equal(before, after):
            return {"what": "AWQBitsTensor.qbits_tensor() changed the AWQ tensor it converts", "shape": [o, i], "max_abs_change": (before.float() - after.float()).abs().max().item()}
    return None


def replay_save(model, seed):
    import torch
    from optimum.quanto import MaxOptimizer, qint4
    from optimum.quanto.tensor.quantizers import AffineQuantizer

    torch.manual_seed(seed)
    A = _awq_cls()
    w = torch.randn(8, 256, dtype=torch.float16)
    sc, zp = MaxOptimizer()(w, bits=4, axis=0, group_size=128)
    q = AffineQuantizer.apply(w, qint4, 0, 128, sc, zp)
    a = A(qint4, 0, 128, q.size(), q.stride(), q._data.unpack(), q._scale, q._zeropoint)
    d1, d2 = {}, {}
    a.save_to_state_dict(d1, "w.", False)
    q.save_to_state_dict(d2, "w.", False)
    if sorted(d1) != sorted(d2) or d1["w._data._data"].dtype != torch.uint8:
        return {"what": "an AWQBitsTensor is not serialized in the standard layout", "keys": sorted(d1), "standard_keys": sorted(d2), "payload_dtype": str(d1.get("w._data._data", torch.empty(0)).dtype)}
    return None


def replay_repr(model, seed, clauses=("awq", "conversion")):
    import torch
    from optimum.quanto import MaxOptimizer, qint4
    from optimum.quanto.tensor.qbits import QBitsTensor
    from optimum.quanto.tensor.quantizers import AffineQuantizer

    torch.manual_seed(seed)
    P = _cpu_module(AWQP, "optimum.quanto.tensor.qbits.awq.packed")
    w = torch.randn(8, 256, dtype=torch.float16)
    sc, zp = MaxOptimizer()(w, bits=4, axis=0, group_size=128)
    q = AffineQuantizer.apply(w, qint4, 0, 128, sc, zp)
    src = open(_REPO + "/" + AWQQ).read().replace("from .packed import AWQPackedTensor, AWQPacking", "")
    import re
    src = "\n".join(ln for ln in src.split("\n") if not re.match(r'\s*assert .*device\.type == "cuda"\s*$', ln))
    ns = {"AWQPackedTensor": P.AWQPackedTensor, "AWQPacking": P.AWQPacking, "__name__": "optimum.quanto.tensor.qbits.awq.qbits", "__package__": "optimum.quanto.tensor.qbits.awq"}
    exec(compile(src, AWQQ, "exec"), ns)
    A = ns["AWQBitsTensor"]
    a = A(qint4, 0, 128, q.size(), q.stride(), q._data.unpack(), q._scale, q._zeropoint)
    if "awq" in clauses and (tuple(a.dequantize().shape) != tuple(q.shape) or not torch.allclose(a.dequantize().float(), q.dequantize().float(), atol=2e-2)):
        return {"what": "AWQ representation dequantizes differently"}
    if "awq" in clauses and not (torch.equal(q._scale, sc) and torch.equal(q._zeropoint, zp)):
        return {"what": "constructing the AWQ tensor modified the scales / zero-points it was given"}
    if "conversion" not in clauses:
        return None
    try:
        b = a.qbits_tensor()
        d = b.dequantize()
    except Exception as e:
        return {"what": f"converting the AWQ tensor back to the standard representation fails: {type(e).__name__}: {str(e)[:150]}"}
    if b._zeropoint.dtype != torch.int8 or not torch.equal(b._zeropoint, q._zeropoint):
        return {"what": "conversion back does not restore the zero-points", "dtype": str(b._zeropoint.dtype)}
    return None


def _replay_file_extra(inst):
    if inst.get("lemma") == "class round trip":
        return replay_class({}, 0, inst)
    return "n/a"


def replay_file(path):
    import json
    rec = json.load(open(path))
    inst = rec["instance"]
    if inst.get("layout") == "v2":
        r = replay_layouts({}, 0, "v2")
    elif inst.get("layout") == "v1":
        r = replay_layouts({}, 0, "v1", inst.get("reorder", False))
    elif "rebuilt-from-its-own-parts" in rec.get("obligation", ""):
        r = replay_rebuilt({}, 0)
    elif "converting-back-leaves" in rec.get("obligation", ""):
        r = replay_conv({}, 0)
    elif "serialized-in-the-standard-layout" in rec.get("obligation", ""):
        r = replay_save({}, 0)
    else:
        r = replay_repr({}, 0)
    print(json.dumps(r, indent=1, default=str))
    return 1 if r else 0
