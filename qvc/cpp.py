"""Recogniser for optimum/quanto/library/ext/cpp/unpack.cpp (C04): extracts the mask/shift/cat expressions.

Grammar accepted (fails closed -> Unsupported otherwise):
  static torch::Tensor unpack_<N>bit(torch::Tensor &t) { return torch::cat({ ITEM, ... }, 0); }
  ITEM := (t & HEX) | (t & HEX).__rshift__(INT)
  torch::Tensor unpack(torch::Tensor &t, int bits) { TORCH_CHECK(t.scalar_type() == torch::kUInt8, ...);
      switch(bits) { case K: return unpack_<N>bit(t); ... default: throw ...; } }
Everything else in the file is dropped.
"""
import re

from .sym import Unsupported


def parse_unpack_cpp(path):
    src = open(path).read()
    src_nc = re.sub(r"//[^\n]*", "", src)
    funcs = {}
    for m in re.finditer(r"static\s+torch::Tensor\s+(unpack_(\d)bit)\s*\(\s*torch::Tensor\s*&\s*t\s*\)\s*\{(.*?)\n\}", src_nc, re.S):
        name, body = m.group(1), m.group(3)
        mm = re.fullmatch(r"\s*return\s+torch::cat\(\s*\{(.*)\}\s*,\s*(\d+)\s*\)\s*;\s*", body, re.S)
        if not mm:
            raise Unsupported(f"unpack.cpp: body of {name} does not match 'return torch::cat({{...}}, dim);'")
        items = []
        for it in [x.strip() for x in mm.group(1).split(",\n")]:
            it = it.strip().rstrip(",").strip()
            im = re.fullmatch(r"\(\s*t\s*&\s*(0[xX][0-9a-fA-F]+|\d+)\s*\)(?:\.__rshift__\(\s*(\d+)\s*\))?", it)
            if not im:
                raise Unsupported(f"unpack.cpp: item '{it}' of {name} not in the grammar")
            items.append((int(im.group(1), 0), int(im.group(2)) if im.group(2) else 0))
        funcs[name] = {"items": items, "dim": int(mm.group(2))}
    m = re.search(r"torch::Tensor\s+unpack\s*\(\s*torch::Tensor\s*&\s*t\s*,\s*int\s+bits\s*\)\s*\{(.*?)\n\}", src_nc, re.S)
    if not m:
        raise Unsupported("unpack.cpp: entry point unpack(t, bits) not found")
    body = m.group(1)
    check = re.search(r"TORCH_CHECK\(\s*t\.scalar_type\(\)\s*==\s*torch::kUInt8", body) is not None
    sw = re.search(r"switch\s*\(\s*bits\s*\)\s*\{(.*)\}", body, re.S)
    if not sw:
        raise Unsupported("unpack.cpp: switch(bits) not found")
    cases = {}
    for cm in re.finditer(r"case\s+(\d+)\s*:\s*return\s+(\w+)\(\s*t\s*\)\s*;", sw.group(1)):
        cases[int(cm.group(1))] = cm.group(2)
    default_throws = re.search(r"default\s*:\s*throw", sw.group(1)) is not None
    for k, f in cases.items():
        if f not in funcs:
            raise Unsupported(f"unpack.cpp: case {k} calls unknown function {f}")
    return {"funcs": funcs, "cases": cases, "dtype_check": check, "default_throws": default_throws}
