"""Data-movement layer of the PyTorch model (A-TORCH-IDX): every operator is an index map out[i] = in[f(i)]."""
import z3

from . import sym
from .mono import exact_div
from .sym import Unsupported, concrete_int, is_sym
from .tm_tensor import (ATEN as _PW_ATEN, binary, is_wrapper, numel_concrete, pointwise, prove_quick, raise_, same_dim,
                        scalar_to, to_dtype)
from .values import Device, DType, Obj, STensor, contiguous_strides, numel_of

ATEN = {}


def view_of(src, dtype, shape, imap, strides=None, identity=False):
    """A view: shares storage with src; imap maps an index of the view to an index of src."""
    t = STensor(dtype, shape, None, device=src.device, fresh=src.fresh, requires_grad=src.requires_grad, base=src,
                imap=imap)
    t.strides = strides
    if identity:
        t.attrs["identity_view"] = True
    return t


def zi(x):
    return sym.to_z3_int(x)


def norm_dim(E, d, rank, node=None, extra=0):
    if is_sym(d):
        c = concrete_int(d)
        if c is None:
            raise Unsupported("symbolic dim argument")
        d = c
    if d < -(rank + extra) or d >= rank + extra:
        raise_(E, "IndexError", f"Dimension out of range (expected to be in range of [{-(rank+extra)}, {rank+extra-1}], but got {d})", node)
    return d + rank + extra if d < 0 else d


# ------------------------------------------------------------------------------------------------ slicing


def norm_slice_bound(E, k, n, default):
    """Python/torch slice bound normalisation: negative -> +n, then clamp to [0, n]."""
    if k is None:
        return default
    if not is_sym(k) and not is_sym(n):
        if k < 0:
            k = max(k + n, 0)
        return min(k, n)
    k, n = zi(k), zi(n)
    kk = z3.If(k < 0, z3.If(k + n < 0, 0, k + n), z3.If(k > n, n, k))
    return z3.simplify(kk)


def slice_dim(E, t, dim, start, stop, step=1, node=None):
    if step is None:
        step = 1
    if is_sym(step) or step < 1:
        raise Unsupported("slice step")
    n = t.shape[dim]
    s = norm_slice_bound(E, start, n, 0)
    e = norm_slice_bound(E, stop, n, n)
    if not is_sym(s) and not is_sym(e):
        ln = max(0, (e - s + step - 1) // step)
    else:
        d = zi(e) - zi(s)
        ln = z3.simplify(z3.If(d <= 0, 0, (d + (step - 1)) / step if step != 1 else d))
        c = concrete_int(ln)
        if c is not None:
            ln = c
    shape = list(t.shape)
    shape[dim] = ln

    def elem(idx):
        j = list(idx)
        j[dim] = zi(s) + zi(idx[dim]) * step if (is_sym(s) or is_sym(idx[dim])) else s + idx[dim] * step
        return j

    st = None
    if t.strides is not None or True:
        base = t.strides if t.strides is not None else contiguous_strides(t.shape)
        st = tuple(b * step if k == dim else b for k, b in enumerate(base))
    r = view_of(t, t.dtype, shape, elem, st)
    r.attrs["slice_of"] = (t, dim, s, e, step)
    return r


def select(E, t, dim, index, node=None):
    rank = len(t.shape)
    dim = norm_dim(E, dim, rank, node)
    n = t.shape[dim]
    if not is_sym(index) and not is_sym(n):
        if index < -n or index >= n:
            raise_(E, "IndexError", f"index {index} is out of bounds for dimension {dim} with size {n}", node)
        if index < 0:
            index += n
    else:
        i, nn = zi(index), zi(n)
        E.oblige("index-in-bounds", z3.And(i >= -nn, i < nn), kind="torch-pre", node=node)
        index = z3.If(i < 0, i + nn, i)
    shape = [s for k, s in enumerate(t.shape) if k != dim]
    base = t.strides if t.strides is not None else contiguous_strides(t.shape)
    r = view_of(t, t.dtype, shape, lambda idx: list(idx[:dim]) + [index] + list(idx[dim:]),
                tuple(b for k, b in enumerate(base) if k != dim))
    r.attrs["select_of"] = (t, dim, index)
    return r


def tensor_getitem(E, t, key, node=None):
    if is_wrapper(t):
        raise Unsupported("subscript on tensor subclass")
    if not isinstance(key, tuple):
        key = (key,)
    # expand Ellipsis
    n_real = sum(1 for k in key if k is not None and k is not Ellipsis)
    if any(k is Ellipsis for k in key):
        i = [j for j, k in enumerate(key) if k is Ellipsis][0]
        fill = len(t.shape) - n_real
        key = key[:i] + (slice(None),) * fill + key[i + 1:]
    cur = t
    dim = 0
    for k in key:
        if k is None:
            cur = unsqueeze(E, cur, dim)
            dim += 1
        elif isinstance(k, slice):
            if dim >= len(cur.shape):
                raise_(E, "IndexError", "too many indices for tensor", node)
            if not (k.start is None and k.stop is None and k.step is None):
                cur = slice_dim(E, cur, dim, k.start, k.stop, k.step, node)
            dim += 1
        elif isinstance(k, STensor):
            cur = gather_dim(E, cur, dim, k, node)
            dim += len(k.shape)
        elif isinstance(k, list):
            if not all(isinstance(x, int) for x in k):
                raise Unsupported("list index with symbolic entries")
            cur = gather_list(E, cur, dim, k, node)
            dim += 1
        else:
            if dim >= len(cur.shape):
                raise_(E, "IndexError", "too many indices for tensor", node)
            cur = select(E, cur, dim, k, node)
    return cur


def gather_list(E, t, dim, lst, node=None):
    n = t.shape[dim]
    shape = list(t.shape)
    shape[dim] = len(lst)

    def elem(idx):
        j = list(idx)
        i = idx[dim]
        ci = concrete_int(i) if is_sym(i) else i
        if ci is not None:
            src = lst[ci]
        else:
            src = z3.IntVal(lst[-1])
            for p in range(len(lst) - 2, -1, -1):
                src = z3.If(zi(i) == p, lst[p], src)
        j[dim] = src
        return tf(j)

    tf = t.snap()
    out = STensor(t.dtype, shape, elem, device=t.device)
    ief = int_elem_of(t)
    if ief is not None:
        def ie(idx):
            j = list(idx)
            i = idx[dim]
            ci = concrete_int(i) if is_sym(i) else i
            if ci is not None:
                j[dim] = lst[ci]
            else:
                src = z3.IntVal(lst[-1])
                for p in range(len(lst) - 2, -1, -1):
                    src = z3.If(zi(i) == p, lst[p], src)
                j[dim] = src
            return ief(j)
        out.attrs["int_elem"] = ie
    return out


def int_elem_of(t):
    """Integer-valued element function of an index tensor built from arange by views / list gathers (None if unknown)."""
    if "int_elem" in t.attrs:
        return t.attrs["int_elem"]
    if t.imap is not None and t.base is not None:
        f = int_elem_of(t.base)
        if f is None:
            return None
        m = t.imap
        return lambda idx: f(m(list(idx)))
    return None


def gather_dim(E, t, dim, index_t, node=None):
    """t[..., index_tensor, ...] (advanced indexing along one dim with an integer index tensor)."""
    if index_t.dtype not in sym.INT_DTYPES:
        raise Unsupported("non-integer index tensor")
    ir = len(index_t.shape)
    shape = list(t.shape[:dim]) + list(index_t.shape) + list(t.shape[dim + 1:])

    tf, itf = t.snap(), index_t.snap()
    ief = int_elem_of(index_t)

    def elem(idx):
        if ief is not None:
            iv = ief(list(idx[dim:dim + ir]))      # integer meaning of the index tensor kept symbolically (no int<->bv round trip)
            return tf(list(idx[:dim]) + [iv] + list(idx[dim + ir:]))
        iv = itf(list(idx[dim:dim + ir]))
        if E.alg.intmode == "bv":
            iv = z3.BV2Int(iv, is_signed=sym.INT_DTYPES[index_t.dtype][1])
        return tf(list(idx[:dim]) + [iv] + list(idx[dim + ir:]))

    return STensor(t.dtype, shape, elem, device=t.device)


def region_cond(E, t, key):
    """For a basic-index key on t: (cond(idx) that idx of t lies in the region, map idx -> index in the region view)."""
    if not isinstance(key, tuple):
        key = (key,)
    if any(k is Ellipsis or k is None or isinstance(k, (STensor, list)) for k in key):
        raise Unsupported("in-place update through a non-basic index")
    conds, maps = [], []
    for dim, k in enumerate(key):
        n = t.shape[dim]
        if isinstance(k, slice):
            step = k.step or 1
            if step != 1:
                raise Unsupported("in-place update through a strided slice")
            s = norm_slice_bound(E, k.start, n, 0)
            e = norm_slice_bound(E, k.stop, n, n)
            conds.append((dim, s, e))
            maps.append(("slice", dim, s))
        else:
            i = k
            if not is_sym(i) and i < 0:
                i = i + n
            conds.append((dim, i, E.binop("Add", i, 1)))
            maps.append(("select", dim, i))
    for dim in range(len(key), len(t.shape)):
        maps.append(("slice", dim, 0))

    def cond(idx):
        cs = [z3.And(zi(idx[d]) >= zi(s), zi(idx[d]) < zi(e)) for d, s, e in conds]
        return z3.And(*cs) if cs else z3.BoolVal(True)

    def vidx(idx):
        out = []
        for kind, dim, s in maps:
            if kind == "slice":
                out.append(idx[dim] - s if (is_sym(s) or is_sym(idx[dim]) or s != 0) else idx[dim])
        return out

    return cond, vidx


def _record_write(E, t, node):
    root = t.root()
    E.writes.append(("tensor", root, None, None, E.loc(node)))
    # version counter: bumped by every in-place write except those made through a `.data` alias
    cur, through_data = t, False
    while cur is not None:
        if cur.attrs.get("data_alias"):
            through_data = True
        cur = cur.base
    if not through_data:
        root.attrs["_version"] = root.attrs.get("_version", 0) + 1


def _memo(f):
    """Memoise an element function on the identity of its index terms: storage versions are nested (each in-place write reads the
    previous version, possibly several times), which is exponential without sharing."""
    cache = {}

    def g(idx):
        key = tuple(i.get_id() if is_sym(i) else ("c", i) for i in idx)
        if key not in cache:
            cache[key] = (list(idx), f(idx))   # keep idx alive so that ast ids are not reused
        return cache[key][1]

    return g


def write_region(E, t, cond, val, node=None):
    """Storage write: for every index i of t with cond(i): t[i] := val(i).  Views write through to their base."""
    if t.imap is None:
        old = t._elem
        t._elem = _memo(lambda idx: z3.If(cond(idx), val(idx), old(idx)))
        return
    if "slice_of" in t.attrs:
        b, dim, s, e, step = t.attrs["slice_of"]
        if is_sym(step) or step < 1:
            raise Unsupported("write through a view with a symbolic step")

        def inv(j):
            i = list(j)
            i[dim] = zi(j[dim]) - zi(s) if (is_sym(s) or is_sym(j[dim]) or s != 0) else j[dim]
            if step != 1:
                i[dim] = zi(i[dim]) / step    # only read where bcond holds: (j - s) is a non-negative multiple of step
            return i

        def bcond(j):
            on_grid = [(zi(j[dim]) - zi(s)) % step == 0] if step != 1 else []
            return z3.And(zi(j[dim]) >= zi(s), zi(j[dim]) < zi(e), *on_grid, cond(inv(j)))

        write_region(E, b, bcond, lambda j: val(inv(j)), node)
        return
    if t.attrs.get("identity_view"):
        write_region(E, t.base, cond, val, node)
        return
    if "select_of" in t.attrs:
        b, dim, index = t.attrs["select_of"]

        def inv(j):
            return list(j[:dim]) + list(j[dim + 1:])

        write_region(E, b, lambda j: z3.And(zi(j[dim]) == zi(index), cond(inv(j))), lambda j: val(inv(j)), node)
        return
    if "inv_imap" in t.attrs:
        # bijective index maps (permute / reshape): base[j] is written iff the view index inv(j) is written
        inv = t.attrs["inv_imap"]
        write_region(E, t.base, lambda j: cond(inv(j)), lambda j: val(inv(j)), node)
        return
    raise Unsupported("in-place write through a non-slice view")


def tensor_setitem(E, t, key, v, node=None):
    cond, vidx = region_cond(E, t, key)
    view = tensor_getitem(E, t, key, node)
    if isinstance(v, STensor):
        src = expand_to(E, to_dtype(E, v, t.dtype), view.shape, node)
        sf = src.snap()
        val = lambda j: sf(j)
    else:
        c = scalar_to(E, v, t.dtype)
        val = lambda j: c
    write_region(E, t, cond, lambda idx: val(vidx(idx)), node)
    _record_write(E, t, node)


_INPLACE = {"BitOr": "or", "BitAnd": "and", "Add": "add", "Sub": "sub", "Mult": "mul", "LShift": "lshift",
            "RShift": "rshift", "Div": "truediv", "FloorDiv": "floordiv"}


def inplace_binop(E, opname, t, key, v, node=None):
    """t[key] op= v   (key None: whole tensor).  In-place: dtype of t is kept."""
    if opname not in _INPLACE:
        raise Unsupported(f"in-place {opname}")
    target = t if key is None else tensor_getitem(E, t, key, node)
    res = binary(E, _INPLACE[opname], target, v, node)  # reads a snapshot of the operands
    if res.dtype != t.dtype:
        if sym._CAT[res.dtype] > sym._CAT[t.dtype]:
            raise_(E, "RuntimeError", f"result type {res.dtype} can't be cast to the desired output type {t.dtype}", node)
        res = to_dtype(E, res, t.dtype)
    # the result must not be larger than the target (no broadcasting of the destination)
    if len(res.shape) != len(target.shape):
        raise_(E, "RuntimeError", "output with shape doesn't match the broadcast shape", node)
    for a, b in zip(res.shape, target.shape):
        if same_dim(E, a, b) is not True:
            E.oblige("inplace-shape", zi(a) == zi(b), kind="torch-pre", node=node)
    rf = res.snap()
    write_region(E, target, lambda idx: z3.BoolVal(True), lambda idx: rf(idx), node)
    _record_write(E, t, node)
    return t


# ------------------------------------------------------------------------------------------------ shape ops


def unsqueeze(E, t, dim, node=None):
    rank = len(t.shape)
    dim = norm_dim(E, dim, rank, node, extra=1)
    shape = list(t.shape[:dim]) + [1] + list(t.shape[dim:])
    base = t.strides if t.strides is not None else contiguous_strides(t.shape)
    st = list(base[:dim]) + [1] + list(base[dim:])
    return view_of(t, t.dtype, shape, lambda idx: list(idx[:dim]) + list(idx[dim + 1:]), tuple(st))


def squeeze(E, t, dim=None, node=None):
    rank = len(t.shape)
    if dim is None:
        dims = [k for k, s in enumerate(t.shape) if concrete_int(s) == 1]
        if any(concrete_int(s) is None for s in t.shape):
            # a symbolic dim might be 1: decide it
            dims = []
            for k, s in enumerate(t.shape):
                c = concrete_int(s)
                if c == 1 or (c is None and E.branch(zi(s) == 1)):
                    dims.append(k)
    else:
        d = norm_dim(E, dim, rank, node)
        c = concrete_int(t.shape[d])
        dims = [d] if (c == 1 or (c is None and E.branch(zi(t.shape[d]) == 1))) else []
    shape = [s for k, s in enumerate(t.shape) if k not in dims]

    def elem(idx):
        j, p = [], 0
        for k in range(rank):
            if k in dims:
                j.append(0)
            else:
                j.append(idx[p])
                p += 1
        return j

    return view_of(t, t.dtype, shape, elem)


def permute(E, t, *dims, node=None):
    if len(dims) == 1 and isinstance(dims[0], (list, tuple)):
        dims = tuple(dims[0])
    rank = len(t.shape)
    dims = [norm_dim(E, d, rank, node) for d in dims]
    if sorted(dims) != list(range(rank)):
        raise_(E, "RuntimeError", "permute(sparse_coo): number of dimensions in the tensor input does not match the length of the desired ordering", node)
    shape = [t.shape[d] for d in dims]
    base = t.strides if t.strides is not None else contiguous_strides(t.shape)

    def elem(idx):
        j = [None] * rank
        for k, d in enumerate(dims):
            j[d] = idx[k]
        return j

    r = view_of(t, t.dtype, shape, elem, tuple(base[d] for d in dims))
    r.layout = ("permute", t, tuple(dims))
    r.attrs["inv_imap"] = lambda j: [j[d] for d in dims]
    return r


def transpose(E, t, d0, d1=None, *more, node=None):
    if more or d1 is None or isinstance(d0, (list, tuple)):
        # numpy-style ndarray.transpose(*axes)
        axes = list(d0) if isinstance(d0, (list, tuple)) else [d0] + ([d1] if d1 is not None else []) + list(more)
        return permute(E, t, *axes, node=node)
    rank = len(t.shape)
    if rank == 0:
        return t
    d0, d1 = norm_dim(E, d0, rank, node), norm_dim(E, d1, rank, node)
    p = list(range(rank))
    p[d0], p[d1] = p[d1], p[d0]
    return permute(E, t, *p, node=node)


def t_(E, t, node=None):
    rank = len(t.shape)
    if rank > 2:
        raise_(E, "RuntimeError", "t() expects a tensor with <= 2 dimensions", node)
    if rank < 2:
        return view_of(t, t.dtype, list(t.shape), lambda idx: list(idx), t.strides, identity=True)
    return permute(E, t, 1, 0, node=node)


def expand_to(E, t, shape, node=None):
    shape = list(shape)
    if len(shape) < len(t.shape):
        raise_(E, "RuntimeError", "expand: the number of sizes provided must be greater or equal to the number of dimensions in the tensor", node)
    off = len(shape) - len(t.shape)
    modes = []
    out = []
    for k, s in enumerate(shape):
        if k < off:
            modes.append(None)
            out.append(s)
            continue
        d = t.shape[k - off]
        if not is_sym(s) and s == -1:
            modes.append("same")
            out.append(d)
            continue
        sd = same_dim(E, d, s)
        if sd is True:
            modes.append("same")
        elif concrete_int(d) == 1:
            modes.append("one")
        elif sd is False:
            raise_(E, "RuntimeError", f"The expanded size of the tensor ({s}) must match the existing size ({d})", node)
        else:
            if prove_quick(E, zi(d) == zi(s)):
                modes.append("same")
            else:
                E.oblige("expand-compatible", z3.Or(zi(d) == zi(s), zi(d) == 1), kind="torch-pre", node=node)
                modes.append(("cond", d))
        out.append(s)

    def elem(idx):
        j = []
        for k in range(off, len(shape)):
            m = modes[k]
            if m == "same":
                j.append(idx[k])
            elif m == "one":
                j.append(0)
            else:
                j.append(z3.If(zi(m[1]) == 1, 0, zi(idx[k])))
        return j

    r = view_of(t, t.dtype, out, elem)
    if off > 0 or any(m != "same" for m in modes if m is not None):
        r.attrs["expanded"] = True      # broadcast dimensions have stride 0: not a dense tensor
        base_st = list(t.strides) if t.strides is not None else list(contiguous_strides(list(t.shape)))
        st = []
        for k in range(len(shape)):
            m = modes[k]
            if m is None or m == "one":
                st.append(0)
            elif m == "same":
                st.append(base_st[k - off])
            else:
                st.append(z3.If(zi(m[1]) == 1, 0, zi(base_st[k - off])))
        r.strides = tuple(st)
    return r


def expand(E, t, *sizes, node=None, **kw):
    if len(sizes) == 1 and isinstance(sizes[0], (list, tuple)):
        sizes = tuple(sizes[0])
    return expand_to(E, t, sizes, node)


def infer_shape(E, numel, shape, node=None):
    shape = list(shape)
    neg = [k for k, s in enumerate(shape) if not is_sym(s) and s == -1]
    if len(neg) > 1:
        raise_(E, "RuntimeError", "only one dimension can be inferred", node)
    if neg:
        rest = numel_of([s for k, s in enumerate(shape) if k != neg[0]])
        q = exact_div(zi(numel), zi(rest)) if (is_sym(numel) or is_sym(rest)) else (numel // rest if rest and numel % rest == 0 else None)
        if q is None:
            if not is_sym(numel) and not is_sym(rest):
                raise_(E, "RuntimeError", f"shape '{shape}' is invalid for input of size {numel}", node)
            E.oblige("reshape-divisible", z3.And(zi(rest) > 0, zi(numel) % zi(rest) == 0), kind="torch-pre", node=node)
            q = z3.simplify(zi(numel) / zi(rest))
        shape[neg[0]] = q
        return shape
    n2 = numel_of(shape)
    if not is_sym(numel) and not is_sym(n2):
        if numel != n2:
            raise_(E, "RuntimeError", f"shape '{shape}' is invalid for input of size {numel}", node)
    else:
        eqf = zi(numel) == zi(n2)
        if not z3.eq(z3.simplify(zi(numel)), z3.simplify(zi(n2))):
            E.oblige("reshape-numel", eqf, kind="torch-pre", node=node)
    return shape


def flat_index(shape, idx):
    acc = 0
    for d, i in zip(shape, idx):
        acc = acc * d + i if not (is_sym(acc) or is_sym(d) or is_sym(i)) else zi(acc) * zi(d) + zi(i)
    return acc


def unflat_index(shape, flat):
    """Row-major multi-index of `flat` in `shape` (div/mod chain; dims assumed positive)."""
    out = []
    rem = flat
    for k in range(len(shape) - 1, 0, -1):
        d = shape[k]
        if not is_sym(rem) and not is_sym(d):
            out.append(rem % d)
            rem = rem // d
        else:
            out.append(zi(rem) % zi(d))
            rem = zi(rem) / zi(d)
    out.append(rem)
    out.reverse()
    return out


def reshape(E, t, *shape, node=None, is_view=False):
    if len(shape) == 1 and isinstance(shape[0], (list, tuple)):
        shape = tuple(shape[0])
    shape = [concrete_int(s) if (is_sym(s) and concrete_int(s) is not None) else s for s in shape]
    numel = numel_of(t.shape)
    shape = infer_shape(E, numel, shape, node)
    src_shape = list(t.shape)
    if is_view and t.attrs.get("layout_unknown"):
        raise Unsupported("view() of a tensor whose memory layout the model does not determine (result of an element-wise op on non-contiguous operands)", node)
    if len(shape) == len(src_shape) and all(same_dim(E, a, b) is True for a, b in zip(shape, src_shape)):
        return view_of(t, t.dtype, shape, lambda idx: list(idx), t.strides, identity=True)
    # split both shapes into independent groups of dimensions with equal products (a reshape never mixes such groups):
    # within a group the index map is flat / unflat arithmetic, which stays linear when at most the leading dim is symbolic
    groups = []
    i = j = 0
    ok = True
    while i < len(src_shape) or j < len(shape):
        a0, b0 = i, j
        pa = pb = 1
        first = True
        while first or not _prod_equal(E, pa, pb):
            first = False
            if i >= len(src_shape) and j >= len(shape):
                ok = False
                break
            # extend the side with the smaller "progress": prefer consuming one dim from each side initially
            if i == a0 and i < len(src_shape) and j == b0 and j < len(shape):
                pa, pb = E.binop("Mult", pa, src_shape[i]), E.binop("Mult", pb, shape[j])
                i += 1
                j += 1
            elif _divides(E, pa, pb) and i < len(src_shape):
                pa = E.binop("Mult", pa, src_shape[i])
                i += 1
            elif j < len(shape):
                pb = E.binop("Mult", pb, shape[j])
                j += 1
            elif i < len(src_shape):
                pa = E.binop("Mult", pa, src_shape[i])
                i += 1
            else:
                ok = False
                break
        if not ok:
            break
        groups.append((a0, i, b0, j))
    if not ok:
        groups = [(0, len(src_shape), 0, len(shape))]
    # absorb size-1-only leftovers: groups are already complete by construction

    def elem(idx):
        out = [None] * len(src_shape)
        for (a0, a1, b0, b1) in groups:
            newd, oldd = shape[b0:b1], src_shape[a0:a1]
            sub = list(idx[b0:b1])
            if len(newd) == len(oldd) and all(same_dim(E, x, y) is True for x, y in zip(newd, oldd)):
                vals = sub
            else:
                f = flat_index(newd, sub) if newd else 0
                vals = unflat_index(oldd, f) if oldd else []
            for k, v in enumerate(vals):
                out[a0 + k] = v
        return out

    def inv(j):
        out = [None] * len(shape)
        for (a0, a1, b0, b1) in groups:
            newd, oldd = shape[b0:b1], src_shape[a0:a1]
            sub = list(j[a0:a1])
            if len(newd) == len(oldd) and all(same_dim(E, x, y) is True for x, y in zip(newd, oldd)):
                vals = sub
            else:
                f = flat_index(oldd, sub) if oldd else 0
                vals = unflat_index(newd, f) if newd else []
            for k, v in enumerate(vals):
                out[b0 + k] = v
        return out

    r = view_of(t, t.dtype, shape, elem)
    r.layout = ("reshape", t, tuple(shape))
    r.attrs["inv_imap"] = inv
    return r


def _prod_equal(E, a, b):
    return same_dim(E, a, b) is True


def _divides(E, a, b):
    """True if the old-side product a is 'behind' the new-side product b (a divides b and a != b), so the old side must be extended."""
    if not is_sym(a) and not is_sym(b):
        return a < b
    q = exact_div(zi(b), zi(a))
    return q is not None and not _prod_equal(E, a, b)


def flatten(E, t, start_dim=0, end_dim=-1, node=None):
    rank = len(t.shape)
    if rank == 0:
        return reshape(E, t, [1], node=node)
    s, e = norm_dim(E, start_dim, rank, node), norm_dim(E, end_dim, rank, node)
    shape = list(t.shape[:s]) + [numel_of(t.shape[s:e + 1])] + list(t.shape[e + 1:])
    return reshape(E, t, shape, node=node)


def cat(E, tensors, dim=0, node=None, axis=None):
    if axis is not None:
        dim = axis
    tensors = list(tensors)
    if not tensors:
        raise_(E, "RuntimeError", "torch.cat(): expected a non-empty list of Tensors", node)
    if any(not isinstance(x, STensor) for x in tensors):
        raise Unsupported("cat of non-tensors")
    rank = len(tensors[0].shape)
    dim = norm_dim(E, dim, rank, node)
    dt = tensors[0].dtype
    for x in tensors[1:]:
        if len(x.shape) != rank:
            raise_(E, "RuntimeError", "Tensors must have same number of dimensions", node)
        dt = sym.promote_types(dt, x.dtype)
        for k in range(rank):
            if k != dim and same_dim(E, x.shape[k], tensors[0].shape[k]) is not True:
                sd = same_dim(E, x.shape[k], tensors[0].shape[k])
                if sd is False:
                    raise_(E, "RuntimeError", "Sizes of tensors must match except in dimension", node)
                E.oblige("cat-shape", zi(x.shape[k]) == zi(tensors[0].shape[k]), kind="torch-pre", node=node)
    tensors = [to_dtype(E, x, dt) for x in tensors]
    offs = [0]
    for x in tensors:
        offs.append(E.binop("Add", offs[-1], x.shape[dim]))
    shape = list(tensors[0].shape)
    shape[dim] = offs[-1]
    fns = [x.snap() for x in tensors]

    def elem(idx):
        i = idx[dim]

        def at(k):
            j = list(idx)
            j[dim] = E.binop("Sub", i, offs[k])
            return fns[k](j)

        ci = concrete_int(i) if is_sym(i) else i
        if ci is not None and all(not is_sym(o) for o in offs):
            for k in range(len(tensors)):
                if offs[k] <= ci < offs[k + 1]:
                    return at(k)
            raise Unsupported("cat index out of range")
        r = at(len(tensors) - 1)
        for k in range(len(tensors) - 2, -1, -1):
            r = z3.If(zi(i) < zi(offs[k + 1]), at(k), r)
        return r

    return STensor(dt, shape, elem, device=tensors[0].device)


def stack(E, tensors, dim=0, node=None):
    tensors = list(tensors)
    rank = len(tensors[0].shape)
    d = norm_dim(E, dim, rank, node, extra=1)
    return cat(E, [unsqueeze(E, x, d) for x in tensors], d, node)


def split(E, t, split_size, dim=0, node=None):
    rank = len(t.shape)
    dim = norm_dim(E, dim, rank, node)
    n = t.shape[dim]
    if isinstance(split_size, (list, tuple)):
        sizes = list(split_size)
        tot = 0
        for s in sizes:
            tot = E.binop("Add", tot, s)
        if same_dim(E, tot, n) is not True:
            if same_dim(E, tot, n) is False:
                raise_(E, "RuntimeError", "split_with_sizes expects split_sizes to sum exactly to the dimension size", node)
            E.oblige("split-sizes", zi(tot) == zi(n), kind="torch-pre", node=node)
    else:
        cs, cn = concrete_int(split_size) if is_sym(split_size) else split_size, concrete_int(n) if is_sym(n) else n
        if cs is None or cn is None:
            raise Unsupported("split with symbolic chunking")
        sizes = [cs] * (cn // cs) + ([cn % cs] if cn % cs else [])
    out, off = [], 0
    for s in sizes:
        out.append(slice_dim(E, t, dim, off, E.binop("Add", off, s), 1, node))
        off = E.binop("Add", off, s)
    return tuple(out)


def chunk(E, t, chunks, dim=0, node=None):
    rank = len(t.shape)
    d = norm_dim(E, dim, rank, node)
    n = concrete_int(t.shape[d]) if is_sym(t.shape[d]) else t.shape[d]
    if n is None:
        raise Unsupported("chunk of symbolic dim")
    size = -(-n // chunks)
    return split(E, t, size, d, node)


def clone(E, t, memory_format=None, node=None):
    r = STensor(t.dtype, list(t.shape), t.snap(), device=t.device, fresh=True)
    if "ghost_codes" in t.attrs:
        r.attrs["ghost_codes"] = t.attrs["ghost_codes"]
    return r


def detach(E, t, node=None):
    r = view_of(t, t.dtype, list(t.shape), lambda idx: list(idx), t.strides, identity=True)
    r.requires_grad = False
    r.attrs.update({k: v for k, v in t.attrs.items() if k in ("input_fn", "ghost_codes")})
    return r


def contiguous(E, t, memory_format=None, node=None):
    if t.attrs.get("expanded") or t.attrs.get("layout_unknown"):
        # not dense / layout not determined: contiguous() materialises a dense copy
        return STensor(t.dtype, list(t.shape), t.snap(), device=t.device, fresh=True)
    return view_of(t, t.dtype, list(t.shape), lambda idx: list(idx), None, identity=True)


def _to_copy(E, t, dtype=None, device=None, **kw):
    r = to_dtype(E, t, dtype) if dtype is not None else t
    dev = device if device is not None else t.device
    if isinstance(dev, str):
        dev = Device(dev)
    out = STensor(r.dtype, list(r.shape), r.snap(), device=dev, fresh=True)
    if "ghost_codes" in t.attrs and r.dtype == t.dtype:
        out.attrs["ghost_codes"] = t.attrs["ghost_codes"]
    return out


def copy_(E, dest, src, non_blocking=False, node=None):
    if not isinstance(dest, STensor):
        raise Unsupported("copy_ into non tensor")
    if isinstance(src, STensor):
        sf = expand_to(E, to_dtype(E, src, dest.dtype), dest.shape, node).snap()
        val = lambda idx: sf(idx)
    else:
        c = scalar_to(E, src, dest.dtype)
        val = lambda idx: c
    write_region(E, dest, lambda idx: z3.BoolVal(True), val, node)
    _record_write(E, dest, node)
    return dest


# ------------------------------------------------------------------------------------------------ contractions


class SumTerm:
    """Definition of an uninterpreted finite sum: value == sum_{k < bound} summand(k)."""

    def __init__(self, name, term, bound, summand, dtype):
        self.name, self.term, self.bound, self.summand, self.dtype = name, term, bound, summand, dtype


def _sum_term(E, tag, free_idx, bound, summand, dtype):
    """An uninterpreted function application standing for sum_{k<bound} summand(k); definition recorded."""
    n = E.fresh_name(f"sum_{tag}")
    srt = E.alg.sort(dtype)
    args = [zi(i) for i in free_idx]
    if args:
        f = z3.Function(n, *([z3.IntSort()] * len(args)), srt)
        term = f(*args)
    else:
        term = z3.Const(n, srt)
    E.ps.setdefault("sums", []).append(SumTerm(n, term, bound, summand, dtype))
    return term


def matmul(E, a, b, node=None):
    if a.dtype != b.dtype:
        raise_(E, "RuntimeError", f"expected m1 and m2 to have the same dtype, but got: {a.dtype} != {b.dtype}", node)
    ra, rb = len(a.shape), len(b.shape)
    if ra == 0 or rb == 0:
        raise_(E, "RuntimeError", "both arguments to matmul need to be at least 1D", node)
    a2 = a if ra > 1 else unsqueeze(E, a, 0)
    b2 = b if rb > 1 else unsqueeze(E, b, 1)
    K = a2.shape[-1]
    if same_dim(E, K, b2.shape[-2]) is not True:
        if same_dim(E, K, b2.shape[-2]) is False:
            raise_(E, "RuntimeError", f"mat1 and mat2 shapes cannot be multiplied", node)
        E.oblige("matmul-inner-dim", zi(K) == zi(b2.shape[-2]), kind="torch-pre", node=node)
    ba, bb = list(a2.shape[:-2]), list(b2.shape[:-2])
    from .tm_tensor import broadcast_shapes, operand_index

    if ba or bb:
        bshape, maps = broadcast_shapes(E, [ba or [], bb or []], node) if (ba and bb) else ((ba or bb), None)
    else:
        bshape, maps = [], None
    oshape = list(bshape) + [a2.shape[-2], b2.shape[-1]]
    tag = f"{a.name}_{b.name}"
    cache = {}
    af, bf = a2.snap(), b2.snap()

    def elem(idx):
        bi = list(idx[:-2])
        i, j = idx[-2], idx[-1]
        if maps is not None:
            ia = operand_index(ba, maps[0], bi)
            ib = operand_index(bb, maps[1], bi)
        else:
            ia = bi if ba else []
            ib = bi if bb else []
        key = tuple(str(x) for x in idx)
        if key not in cache:
            summand = lambda k: E.alg.binop("mul", af(ia + [i, k]), bf(ib + [k, j]), a.dtype)
            cache[key] = _sum_term(E, tag, list(idx), K, summand, a.dtype)
        return cache[key]

    r = STensor(a.dtype, oshape, elem, device=a.device)
    if ra == 1:
        r = select(E, r, -2, 0)
    if rb == 1:
        r = select(E, r, -1, 0)
    return r


def mm(E, a, b, node=None):
    if len(a.shape) != 2 or len(b.shape) != 2:
        raise_(E, "RuntimeError", "self must be a matrix", node)
    return matmul(E, a, b, node)


def bmm(E, a, b, node=None):
    if len(a.shape) != 3 or len(b.shape) != 3:
        raise_(E, "RuntimeError", "batch1 must be a 3D tensor", node)
    return matmul(E, a, b, node)


def bitcast(E, t, dtype, node=None):
    """Tensor.view(dtype) between dtypes of the same item size: the same bytes read as another type.  The bits are not computed:
    the result is an uninterpreted tensor that remembers what it was cast from; casting back to the ORIGINAL dtype gives the original."""
    size = lambda d: (sym.INT_DTYPES[d][0] if d in sym.INT_DTYPES else {"float16": 16, "bfloat16": 16, "float32": 32, "float64": 64, "bool": 8}.get(d, 8))
    if size(t.dtype) != size(dtype.name):
        raise Unsupported("view(dtype) between item sizes")
    if dtype.name == t.dtype:
        return t
    src = t.attrs.get("bitcast_of")
    if src is not None and src.dtype == dtype.name:
        return src
    from .tm_tensor import new_input
    r = new_input(E, E.fresh_name(f"bits_{t.name}_as_{dtype.name}").replace("#", "_"), dtype.name, list(t.shape), device=t.device)
    r.attrs["bitcast_of"] = t
    r.fresh = True
    return r


def int_mm(E, a, b, node=None):
    """torch._int_mm (assumed specification): int8 x int8 -> int32 exact product sums."""
    if a.dtype != "int8" or b.dtype != "int8":
        raise_(E, "RuntimeError", "_int_mm expects int8 operands", node)
    if len(a.shape) != 2 or len(b.shape) != 2:
        raise_(E, "RuntimeError", "_int_mm expects 2D operands", node)
    # A-TORCH-CAP (probed on the real library): classes of calls for which this build's kernel is NOT exact become preconditions
    from . import cap
    if a.device.type == "cpu":
        cls = cap.int_mm_exact_classes()
        # layout classes an operand may be in: permuted strides -> a transposed view; a reshape / identity view of a contiguous tensor is
        # contiguous (for the second operand a stride-less view is conservatively taken to be in either class, as before)
        a_cls = {True} if a.strides is not None else {False}
        b_cls = {True} if b.strides is not None else ({True, False} if b.imap is not None else {False})
        n_, k_, p_ = zi(a.shape[0]), zi(a.shape[1]), zi(b.shape[1])
        for (a_t, b_t, n1, k1, p1), exact in sorted(cls.items()):
            if exact or a_t not in a_cls or b_t not in b_cls:
                continue
            what = ", ".join(f"{nm} {'==' if one else '>'} 1" for nm, one in (("rows", n1), ("inner size", k1), ("columns", p1)))
            lay = ("a transposed first operand" if a_t else "a contiguous first operand") + (" and a transposed second operand" if b_t else " and a contiguous second operand")
            E.oblige(f"int_mm-exact-on-this-build: {what} with {lay} is miscomputed",
                     z3.Not(z3.And(n_ == 1 if n1 else n_ > 1, k_ == 1 if k1 else k_ > 1, p_ == 1 if p1 else p_ > 1)), kind="torch-pre", node=node)
    return matmul(E, to_dtype(E, a, "int32"), to_dtype(E, b, "int32"), node)


def weight_int8pack_mm(E, a, w, scales, node=None):
    """torch._weight_int8pack_mm(A[M,K] bf16, W[N,K] int8, scales[N]) = (A @ W.T) * scales  (assumed specification)."""
    if len(a.shape) != 2 or len(w.shape) != 2 or len(scales.shape) != 1:
        raise_(E, "RuntimeError", "_weight_int8pack_mm: expects 2D A, 2D W and 1D scales", node)
    # checked by the kernel (TORCH_CHECK): one scale per output feature
    E.oblige("int8pack-scales-one-per-output-feature", zi(scales.shape[0]) == zi(w.shape[0]), kind="torch-pre", node=node)
    # the kernel reads the scales as a dense vector through the raw pointer (strides are ignored): a broadcast (stride-0) view is misread
    E.oblige("int8pack-scales-dense", z3.BoolVal(not scales.attrs.get("expanded")), kind="torch-pre", node=node)
    # assumed specification: products are accumulated in float32, the result is returned in the activation dtype
    wt = t_(E, to_dtype(E, w, "float32"))
    prod = matmul(E, to_dtype(E, a, "float32"), wt, node)
    return to_dtype(E, binary(E, "mul", prod, to_dtype(E, scales, "float32"), node), a.dtype)


def tensor_sum(E, t, dim=None, keepdim=False, dtype=None, node=None):
    rank = len(t.shape)
    if dim is None:
        dims = list(range(rank))
    elif isinstance(dim, (list, tuple)):
        dims = [norm_dim(E, d, rank, node) for d in dim]
    else:
        dims = [norm_dim(E, dim, rank, node)]
    if len(dims) != 1:
        # sum over several dims == sum over the flattened dims (row-major): express as nested single sums
        cur = t
        for d in sorted(dims, reverse=True):
            cur = tensor_sum(E, cur, d, keepdim, node=node)
        return cur
    d = dims[0]
    K = t.shape[d]
    oshape = [1 if k == d else s for k, s in enumerate(t.shape)] if keepdim else [s for k, s in enumerate(t.shape) if k != d]
    cache = {}
    tf = t.snap()

    def elem(idx):
        key = tuple(str(x) for x in idx)
        if key not in cache:
            if keepdim:
                mk = lambda k: list(idx[:d]) + [k] + list(idx[d + 1:])
                free = list(idx[:d]) + list(idx[d + 1:])
            else:
                mk = lambda k: list(idx[:d]) + [k] + list(idx[d:])
                free = list(idx)
            cache[key] = _sum_term(E, t.name, free, K, lambda k: tf(mk(k)), t.dtype)
        return cache[key]

    return STensor(t.dtype, oshape, elem, device=t.device)


def storage_map(E, t):
    """For a tensor laid out contiguously in its own storage (possibly a leading-dim slice of such a tensor):
    function flat storage offset -> element, and the number of storage elements. None if the layout is unknown."""
    if t.imap is None:
        if t.strides is not None:
            return None  # input with arbitrary (symbolic) strides
        f = t.snap()
        shape = list(t.shape)
        return (lambda off: f(unflat_index(shape, off)) if shape else f([])), numel_of(shape)
    if "slice_of" in t.attrs:
        b, dim, s, e, step = t.attrs["slice_of"]
        if dim == 0 and step == 1:
            inner = storage_map(E, b)
            if inner is None:
                return None
            fb, nb = inner
            row = numel_of(b.shape[1:])
            start = E.binop("Mult", s, row)
            return (lambda off: fb(E.binop("Add", start, off))), E.binop("Sub", nb, start)
    if t.attrs.get("identity_view"):
        return storage_map(E, t.base)
    return None


def as_strided(E, t, size, stride, storage_offset=None, node=None):
    """Tensor.as_strided: reinterpretation of the storage (A-TORCH-IDX: out[i] = storage[offset + sum i_k*stride_k])."""
    sm = storage_map(E, t)
    if sm is None or storage_offset not in (None, 0):
        raise Unsupported("as_strided on a tensor whose storage layout is not modelled")
    f, n = sm
    size, stride = list(E.iterate(size)), list(E.iterate(stride))
    if len(size) != len(stride):
        raise_(E, "RuntimeError", "mismatch in length of strides and shape", node)
    # the largest reachable offset must lie inside the storage
    mx = 0
    for d, st in zip(size, stride):
        mx = E.binop("Add", mx, E.binop("Mult", E.binop("Sub", d, 1), st))
    E.oblige("as_strided-in-storage", z3.And(zi(mx) < zi(n), *[zi(st) >= 0 for st in stride]), kind="torch-pre", node=node)

    def elem(idx):
        off = 0
        for i, st in zip(idx, stride):
            off = E.binop("Add", off, E.binop("Mult", i, st))
        return f(off)

    r = STensor(t.dtype, size, elem, device=t.device, fresh=t.fresh, base=None)
    r.strides = tuple(stride)
    return r


ATEN.update({
    "as_strided": as_strided,
    "select": select, "slice": lambda E, t, dim=0, start=None, end=None, step=1: slice_dim(E, t, norm_dim(E, dim, len(t.shape)), start, end, step),
    "unsqueeze": unsqueeze, "squeeze": squeeze, "permute": permute, "transpose": transpose, "t": t_,
    "expand": expand, "reshape": reshape, "view": lambda E, t, *s: (bitcast(E, t, s[0]) if len(s) == 1 and isinstance(s[0], DType) else reshape(E, t, *s, is_view=True)),
    "_unsafe_view": lambda E, t, *s: reshape(E, t, *s), "flatten": flatten, "cat": cat, "stack": stack,
    "split": split, "chunk": chunk, "clone": clone, "detach": detach, "contiguous": contiguous, "_to_copy": _to_copy,
    "mul_": lambda E, t, v: inplace_binop(E, "Mult", t, None, v), "div_": lambda E, t, v: inplace_binop(E, "Div", t, None, v),
    "add_": lambda E, t, v: inplace_binop(E, "Add", t, None, v), "sub_": lambda E, t, v: inplace_binop(E, "Sub", t, None, v),
    "to": _to_copy, "copy_": copy_, "matmul": matmul, "mm": mm, "bmm": bmm, "_int_mm": int_mm,
    "_weight_int8pack_mm": weight_int8pack_mm, "sum": tensor_sum,
    "view_as": lambda E, t, o: reshape(E, t, list(o.shape)),
})
