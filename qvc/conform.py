"""Conformance of the executor and of the PyTorch model against the real library (DESIGN 2.6 item 2).

The REAL repository function is executed twice on the same concrete inputs: natively by PyTorch, and by the symbolic executor on
tensors whose elements are concrete constants (bit-vectors / bit-precise FloatingPoint).  Every element of the symbolic result is
evaluated by the simplifier and compared with the native result - exactly for integer, float8 and bit-precise float results.
A disagreement means the MODEL is wrong (never quanto): the property run reports it as an undecided trusted-base failure.
This is a test of the trusted base, labelled so in the evidence; it is never counted as proof.
"""
import itertools
import math

import z3

from . import sym
from .sym import Unsupported
from .values import DType, Obj, STensor

TORCH_DT = None


def _dt():
    global TORCH_DT
    if TORCH_DT is None:
        import torch

        TORCH_DT = {"float32": torch.float32, "float16": torch.float16, "bfloat16": torch.bfloat16, "int8": torch.int8, "uint8": torch.uint8,
                    "int16": torch.int16, "int32": torch.int32, "int64": torch.int64, "bool": torch.bool, "float8_e4m3fn": torch.float8_e4m3fn,
                    "float8_e5m2": torch.float8_e5m2}
    return TORCH_DT


def dtype_name(t):
    return str(t.dtype).replace("torch.", "")


def concrete_tensor(E, t, name="c", device=None):
    """STensor whose elements are the concrete values of torch tensor t."""
    import torch

    d = dtype_name(t)
    vals = t.detach().cpu()
    shape = list(vals.shape)
    flat = vals.reshape(-1)
    if d in sym.FLOAT_DTYPES:
        consts = [E.alg.const(float(x), d) if not math.isnan(float(x)) else z3.fpNaN(E.alg.fpsort(d)) for x in flat.to(torch.float64).tolist()] \
            if E.alg.floatmode == "F" else [E.alg.const(float(x), d) for x in flat.to(torch.float64).tolist()]
    elif d == "bool":
        consts = [z3.BoolVal(bool(x)) for x in flat.tolist()]
    else:
        consts = [E.alg.const(int(x), d) for x in flat.tolist()]
    strides = []
    acc = 1
    for s in reversed(shape):
        strides.append(acc)
        acc *= s
    strides.reverse()

    def elem(idx):
        cs = [sym.concrete_int(i) if sym.is_sym(i) else i for i in idx]
        if all(c is not None for c in cs):
            off = sum(c * s for c, s in zip(cs, strides))
            if not (0 <= off < len(consts)) or any(not (0 <= c < n) for c, n in zip(cs, shape)):
                # lazily evaluated element functions also build the not-taken side of guarded selections: any value will do
                return consts[0] if consts else E.alg.const(0, d)
            return consts[off]
        # symbolic index into a concrete tensor: selection chain (small tensors only)
        off = 0
        for i, s in zip(idx, strides):
            off = off + sym.to_z3_int(i) * s
        r = consts[-1]
        for k in range(len(consts) - 2, -1, -1):
            r = z3.If(off == k, consts[k], r)
        return r

    return STensor(d, shape, elem, device=device or "cpu", name=name, fresh=False)


def _value(term, dtype):
    t = z3.simplify(term)
    if dtype == "bool":
        if z3.is_true(t):
            return True
        if z3.is_false(t):
            return False
        raise Unsupported(f"conformance: boolean element does not evaluate: {str(t)[:120]}")
    if z3.is_bv_value(t):
        bits, signed = sym.INT_DTYPES[dtype]
        return t.as_signed_long() if signed else t.as_long()
    if z3.is_int_value(t):
        return t.as_long()
    if z3.is_fp_value(t):
        if t.isNaN():
            return math.nan
        if t.isInf():
            return -math.inf if t.isNegative() else math.inf
        r = z3.simplify(z3.fpToReal(t))
        return float(r.numerator_as_long()) / float(r.denominator_as_long())
    if z3.is_rational_value(t):
        return float(t.numerator_as_long()) / float(t.denominator_as_long())
    if z3.is_algebraic_value(t):
        return float(t.approx(20).as_fraction())
    raise Unsupported(f"conformance: element does not evaluate to a value: {str(t)[:160]}")


MAX_ELEMS = 48


def evaluate(E, st, seed=0):
    """-> (shape, {flat position: value}) of a symbolic tensor with concrete shape; large tensors are sampled (seeded)."""
    import random

    shape = [sym.concrete_int(d) if sym.is_sym(d) else d for d in st.shape]
    if any(d is None for d in shape):
        raise Unsupported("conformance: symbolic shape")
    allidx = list(itertools.product(*[range(d) for d in shape]))
    pos = list(range(len(allidx)))
    if len(pos) > MAX_ELEMS:
        rnd = random.Random(seed)
        pos = sorted(rnd.sample(pos, MAX_ELEMS - 2) + [0, len(allidx) - 1])
    out = {}
    for k in pos:
        out[k] = _value(st.elem(list(allidx[k])), st.dtype)
    return shape, out


def compare(E, st, native, exact=True, tol=0.0):
    """Returns None if equal, else a description of the first difference."""
    import torch

    shape, vals = evaluate(E, st)
    if list(native.shape) != shape:
        return f"shape {shape} vs native {list(native.shape)}"
    nd = dtype_name(native)
    if nd != st.dtype:
        return f"dtype {st.dtype} vs native {nd}"
    nat = native.detach().cpu()
    nat = nat.to(torch.float64).reshape(-1).tolist() if native.dtype != torch.bool else nat.reshape(-1).tolist()
    for k, a in vals.items():
        b = nat[k]
        if isinstance(a, bool) or isinstance(b, bool):
            if bool(a) != bool(b):
                return f"element {k}: {a} vs native {b}"
            continue
        if math.isnan(a) and math.isnan(b):
            continue
        if exact:
            if a != b:
                return f"element {k}: {a!r} vs native {b!r}"
        elif not (abs(a - b) <= tol * (1 + abs(b))):
            return f"element {k}: {a!r} vs native {b!r} (tol {tol})"
    return None


def wrap_native(E, x, name="x", device=None):
    """torch tensor / quanto tensor / python value -> value of the symbolic executor."""
    import torch

    if isinstance(x, torch.Tensor) and type(x) is torch.Tensor:
        return concrete_tensor(E, x, name, device)
    if isinstance(x, (list, tuple)):
        return type(x)(wrap_native(E, y, f"{name}{i}", device) for i, y in enumerate(x))
    return x


def run_case(E, fn_value, native_fn, native_args, symbolic_args=None, exact=True, tol=0.0, post=None):
    """Executes fn_value on the concrete inputs symbolically (single path expected) and natively; compares every result tensor."""
    from .interp import RaiseEx

    want = native_fn(*native_args)
    args = symbolic_args(E) if symbolic_args else [wrap_native(E, a, f"a{i}") for i, a in enumerate(native_args)]
    res = E.explore(fn_value, lambda E2: (args, {}), name="conformance")
    rets = [r for r in res if r.outcome == "return"]
    if len(rets) != 1 or len(res) != 1:
        return f"expected one returning path on concrete inputs, got {[(r.outcome, str(r.value)[:80]) for r in res]}"
    E.focus(rets[0])
    got = rets[0].value
    if post is not None:
        got, want = post(E, got, want)
    gl = list(got) if isinstance(got, (list, tuple)) else [got]
    wl = list(want) if isinstance(want, (list, tuple)) else [want]
    if len(gl) != len(wl):
        return f"{len(gl)} results vs native {len(wl)}"
    for k, (g, w) in enumerate(zip(gl, wl)):
        if isinstance(g, STensor):
            d = compare(E, g, w, exact, tol)
            if d:
                return f"result {k}: {d}"
        elif g != w:
            return f"result {k}: {g!r} vs native {w!r}"
    return None
