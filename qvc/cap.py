"""A-TORCH-CAP: which aten ops PyTorch implements for the payload dtypes on this build - probed on the real library."""
_CACHE = {}


def probe():
    if _CACHE:
        return _CACHE
    import torch

    ops = {
        "lt": lambda a: torch.ops.aten.lt(a, a), "neg": lambda a: torch.ops.aten.neg(a), "relu": lambda a: torch.ops.aten.relu(a),
        "cat": lambda a: torch.ops.aten.cat([a, a], 0), "stack": lambda a: torch.ops.aten.stack([a, a], 0), "clone": lambda a: torch.ops.aten.clone(a),
        "abs": lambda a: torch.ops.aten.abs(a), "mul": lambda a: torch.ops.aten.mul(a, a), "add": lambda a: torch.ops.aten.add(a, a),
        "sub": lambda a: torch.ops.aten.sub(a, a), "div": lambda a: torch.ops.aten.div(a, a), "eq": lambda a: torch.ops.aten.eq(a, a),
        "where": lambda a: torch.ops.aten.where(torch.ones(a.shape, dtype=torch.bool), a, a), "copy_": lambda a: a.clone().copy_(a),
        "split": lambda a: torch.ops.aten.split(a, 1), "permute": lambda a: torch.ops.aten.permute(a, [1, 0]),
        "mm": lambda a: torch.ops.aten.mm(a, a), "bmm": lambda a: torch.ops.aten.bmm(a[None], a[None]), "matmul": lambda a: torch.matmul(a, a),
        "amax": lambda a: torch.amax(a), "round": lambda a: torch.round(a), "clamp": lambda a: torch.clamp(a, -1, 1), "sum": lambda a: a.sum(),
        "gt": lambda a: a > a, "le": lambda a: a <= a, "ge": lambda a: a >= a, "ne": lambda a: a != a,
    }
    for dt in (torch.float8_e4m3fn, torch.float8_e5m2):
        a = torch.zeros(2, 2).to(dt)
        for name, f in ops.items():
            try:
                f(a)
                ok = True
            except Exception:
                ok = False
            _CACHE[(name, str(dt).replace("torch.", ""))] = ok
    return _CACHE


def supported(op, dtype):
    c = probe()
    return c.get((op, dtype), True)


_ATTR = {}


def tensor_has_attr(name):
    """Does torch.Tensor (the real class) have this attribute?  Unknown-to-the-model but existing -> Unsupported (undecided);
    not existing -> AttributeError, as at run time."""
    if name not in _ATTR:
        import torch

        _ATTR[name] = hasattr(torch.Tensor, name)
    return _ATTR[name]


_INT_MM = {}


def int_mm_exact_classes():
    """A-TORCH-CAP for torch._int_mm on this build (CPU): for which (inner size == 1?, second operand a transposed view?) classes does the
    kernel return the exact integer product?  Probed on small shapes against the int32 reference.  -> {(k_is_one, transposed): bool}"""
    if _INT_MM:
        return _INT_MM
    import torch

    g = torch.Generator().manual_seed(0)
    for k_one in (True, False):
        for transposed in (True, False):
            ok = True
            for n in (1, 4, 17, 24):
                for p in (1, 3, 8):
                    for k in ((1,) if k_one else (2, 3, 8, 16)):
                        a = torch.randint(-128, 127, (n, k), dtype=torch.int8, generator=g)
                        b = torch.randint(-128, 127, (p, k), dtype=torch.int8, generator=g).t() if transposed else torch.randint(-128, 127, (k, p), dtype=torch.int8, generator=g)
                        try:
                            if not torch.equal(torch._int_mm(a, b), a.int() @ b.int()):
                                ok = False
                        except Exception:
                            pass    # (argument checks of the kernel are another matter)
            _INT_MM[(k_one, transposed)] = ok
    return _INT_MM
