"""A-TORCH-CAP: which aten ops PyTorch implements for the payload dtypes on this build - probed on the real library."""
_CACHE = {}


def probe():
    if _CACHE:
        return _CACHE
    import torch

    ops = {
        "lt": lambda a: torch.ops.aten.lt(a, a), "neg": lambda a: torch.ops.aten.neg(a), "relu": lambda a: torch.ops.aten.relu(a),
        "cat": lambda a: torch.ops.aten.cat([a, a], 0), "stack": lambda a: torch.ops.aten.stack([a, a], 0), "clone": lambda a: torch.ops.aten.clone(a),
        "abs": lambda a: torch.ops.aten.abs(a), "mul": lambda a: torch.ops.aten.mul(a, a), "add": lambda a: torch.ops.aten.add(a, a),
        "sub": lambda a: torch.ops.aten.sub(a, a), "div": lambda a: torch.ops.aten.div(a, a), "eq": lambda a: torch.ops.aten.eq(a, a),
        "where": lambda a: torch.ops.aten.where(torch.ones(a.shape, dtype=torch.bool), a, a), "copy_": lambda a: a.clone().copy_(a),
        "split": lambda a: torch.ops.aten.split(a, 1), "permute": lambda a: torch.ops.aten.permute(a, [1, 0]),
        "mm": lambda a: torch.ops.aten.mm(a, a), "bmm": lambda a: torch.ops.aten.bmm(a[None], a[None]), "matmul": lambda a: torch.matmul(a, a),
        "amax": lambda a: torch.amax(a), "round": lambda a: torch.round(a), "clamp": lambda a: torch.clamp(a, -1, 1), "sum": lambda a: a.sum(),
        "gt": lambda a: a > a, "le": lambda a: a <= a, "ge": lambda a: a >= a, "ne": lambda a: a != a,
    }
    for dt in (torch.float8_e4m3fn, torch.float8_e5m2):
        a = torch.zeros(2, 2).to(dt)
        for name, f in ops.items():
            try:
                f(a)
                ok = True
            except Exception:
                ok = False
            _CACHE[(name, str(dt).replace("torch.", ""))] = ok
    return _CACHE


def supported(op, dtype):
    c = probe()
    return c.get((op, dtype), True)


_ATTR = {}


def tensor_has_attr(name):
    """Does torch.Tensor (the real class) have this attribute?  Unknown-to-the-model but existing -> Unsupported (undecided);
    not existing -> AttributeError, as at run time."""
    if name not in _ATTR:
        import torch

        _ATTR[name] = hasattr(torch.Tensor, name)
    return _ATTR[name]
