"""A-TORCH-CAP: which aten ops PyTorch implements for the payload dtypes on this build - probed on the real library."""
_CACHE = {}


def probe():
    if _CACHE:
        return _CACHE
    import torch

    ops = {
        "lt": lambda a: torch.ops.aten.lt(a, a), "neg": lambda a: torch.ops.aten.neg(a), "relu": lambda a: torch.ops.aten.relu(a),
        "cat": lambda a: torch.ops.aten.cat([a, a], 0), "stack": lambda a: torch.ops.aten.stack([a, a], 0), "clone": lambda a: torch.ops.aten.clone(a),
        "abs": lambda a: torch.ops.aten.abs(a), "mul": lambda a: torch.ops.aten.mul(a, a), "add": lambda a: torch.ops.aten.add(a, a),
        "sub": lambda a: torch.ops.aten.sub(a, a), "div": lambda a: torch.ops.aten.div(a, a), "eq": lambda a: torch.ops.aten.eq(a, a),
        "where": lambda a: torch.ops.aten.where(torch.ones(a.shape, dtype=torch.bool), a, a), "copy_": lambda a: a.clone().copy_(a),
        "split": lambda a: torch.ops.aten.split(a, 1), "permute": lambda a: torch.ops.aten.permute(a, [1, 0]),
        "mm": lambda a: torch.ops.aten.mm(a, a), "bmm": lambda a: torch.ops.aten.bmm(a[None], a[None]), "matmul": lambda a: torch.matmul(a, a),
        "amax": lambda a: torch.amax(a), "round": lambda a: torch.round(a), "clamp": lambda a: torch.clamp(a, -1, 1), "sum": lambda a: a.sum(),
        "gt": lambda a: a > a, "le": lambda a: a <= a, "ge": lambda a: a >= a, "ne": lambda a: a != a,
    }
    for dt in (torch.float8_e4m3fn, torch.float8_e5m2):
        a = torch.zeros(2, 2).to(dt)
        for name, f in ops.items():
            try:
                f(a)
                ok = True
            except Exception:
                ok = False
            _CACHE[(name, str(dt).replace("torch.", ""))] = ok
    return _CACHE


def supported(op, dtype):
    c = probe()
    return c.get((op, dtype), True)


_ATTR = {}


def tensor_has_attr(name):
    """Does torch.Tensor (the real class) have this attribute?  Unknown-to-the-model but existing -> Unsupported (undecided);
    not existing -> AttributeError, as at run time."""
    if name not in _ATTR:
        import torch

        _ATTR[name] = hasattr(torch.Tensor, name)
    return _ATTR[name]


_INT_MM = {}


def int_mm_exact_classes():
    """A-TORCH-CAP for torch._int_mm(a[n,k], b[k,p]) on this build (CPU): for which classes (first operand a transposed view?, second
    operand a transposed view?, n == 1?, k == 1?, p == 1?) does the kernel return the exact integer product?  Probed on small shapes
    against the int32 reference.  -> {(a_t, b_t, n_one, k_one, p_one): bool}"""
    if _INT_MM:
        return _INT_MM
    import itertools

    import torch

    g = torch.Generator().manual_seed(0)

    def mk(r, c, tr):
        return (torch.randint(-128, 127, (c, r), dtype=torch.int8, generator=g).t() if tr
                else torch.randint(-128, 127, (r, c), dtype=torch.int8, generator=g))

    for a_t, b_t, n1, k1, p1 in itertools.product((False, True), repeat=5):
        ok = True
        for n in ((1,) if n1 else (2, 4, 17, 24)):
            for k in ((1,) if k1 else (2, 3, 8, 16, 33)):
                for p in ((1,) if p1 else (2, 3, 8, 24)):
                    for _ in range(2):
                        a, b = mk(n, k, a_t), mk(k, p, b_t)
                        try:
                            if not torch.equal(torch._int_mm(a, b), a.int() @ b.int()):
                                ok = False
                        except Exception:
                            pass    # (argument checks of the kernel are another matter)
        _INT_MM[(a_t, b_t, n1, k1, p1)] = ok
    return _INT_MM
