"""Assumed contracts on torch.nn (A-TORCH-NN): Module, Linear, Conv2d, LayerNorm, Parameter, hook registries.

Modules are Obj instances; parameters and buffers are plain fields (STensor); child modules are fields too and are
also listed in `_modules` (ordered dict name -> child) so that named_modules() can be modelled.
"""
import z3

from . import sym
from .sym import Unsupported, is_sym
from .tm_tensor import new_input, raise_
from .torchmodel import LAYERNORM_CLS, CONV2D_CLS, LINEAR_CLS, MODULE_CLS, PARAMETER_CLS, is_wrapper
from .values import Builtin, ClassVal, Device, DType, ExtClass, Obj, STensor, Token, numel_of


def _dt(dtype):
    return dtype.name if isinstance(dtype, DType) else (dtype or "float32")


def _dev(device):
    if device is None:
        return Device("cpu")
    return device if isinstance(device, Device) else Device(device)


def module_init(E, self, *a, **k):
    self.fields.setdefault("_modules", {})
    self.fields.setdefault("_buffers", {})
    self.fields.setdefault("_parameters", {})
    self.fields.setdefault("training", True)


def _param(E, self, name, dtype, shape, device):
    uid = E.fresh_name(f"{name}_{self.oid}").replace("#", "_")
    t = new_input(E, uid, dtype, shape, device=device, requires_grad=True)
    t.attrs["is_parameter"] = True
    t.fresh = True
    self.fields[name] = t
    self.fields["_parameters"][name] = t
    return t


def linear_init(E, self, in_features, out_features, bias=True, device=None, dtype=None):
    module_init(E, self)
    self.fields["in_features"] = in_features
    self.fields["out_features"] = out_features
    _param(E, self, "weight", _dt(dtype), [out_features, in_features], _dev(device))
    if E.truth(bias):
        _param(E, self, "bias", _dt(dtype), [out_features], _dev(device))
    else:
        self.fields["bias"] = None
        self.fields["_parameters"]["bias"] = None


def _pair(E, v):
    if isinstance(v, (tuple, list)):
        return tuple(v)
    return (v, v)


def conv2d_init(E, self, in_channels, out_channels, kernel_size, stride=1, padding=0, dilation=1, groups=1, bias=True,
                padding_mode="zeros", device=None, dtype=None):
    module_init(E, self)
    ks = _pair(E, kernel_size)
    if E.truth(E.compare("LtE", groups, 0)):
        raise_(E, "ValueError", "groups must be a positive integer")
    if E.truth(E.compare("NotEq", E.mod(in_channels, groups), 0)):
        raise_(E, "ValueError", "in_channels must be divisible by groups")
    if E.truth(E.compare("NotEq", E.mod(out_channels, groups), 0)):
        raise_(E, "ValueError", "out_channels must be divisible by groups")
    if padding_mode not in ("zeros", "reflect", "replicate", "circular"):
        raise_(E, "ValueError", "padding_mode must be one of zeros/reflect/replicate/circular")
    f = self.fields
    f.update({"in_channels": in_channels, "out_channels": out_channels, "kernel_size": ks, "stride": _pair(E, stride),
              "padding": padding if isinstance(padding, str) else _pair(E, padding), "dilation": _pair(E, dilation), "groups": groups,
              "padding_mode": padding_mode})
    _param(E, self, "weight", _dt(dtype), [out_channels, E.floordiv(in_channels, groups), ks[0], ks[1]], _dev(device))
    if E.truth(bias):
        _param(E, self, "bias", _dt(dtype), [out_channels], _dev(device))
    else:
        f["bias"] = None
        f["_parameters"]["bias"] = None


def layernorm_init(E, self, normalized_shape, eps=1e-5, elementwise_affine=True, bias=True, device=None, dtype=None):
    module_init(E, self)
    ns = tuple(normalized_shape) if isinstance(normalized_shape, (tuple, list)) else (normalized_shape,)
    f = self.fields
    f.update({"normalized_shape": ns, "eps": eps, "elementwise_affine": elementwise_affine})
    if E.truth(elementwise_affine):
        _param(E, self, "weight", _dt(dtype), list(ns), _dev(device))
        if E.truth(bias):
            _param(E, self, "bias", _dt(dtype), list(ns), _dev(device))
        else:
            f["bias"] = None
            f["_parameters"]["bias"] = None
    else:
        f["weight"] = None
        f["bias"] = None
        f["_parameters"]["weight"] = None
        f["_parameters"]["bias"] = None


def register_buffer(E, self, name, tensor, persistent=True):
    self.fields[name] = tensor
    self.fields.setdefault("_buffers", {})[name] = tensor


def module_setattr_hook(E, obj, name, v, node=None):
    """nn.Module.__setattr__: Parameters / Modules / buffers are tracked in their registries."""
    if not (isinstance(obj, Obj) and "_modules" in obj.fields):
        return False
    f = obj.fields
    if isinstance(v, Obj) and "_modules" in v.fields:
        f["_modules"][name] = v
    elif name in f.get("_modules", {}) and v is None:
        f["_modules"][name] = None
    if name in f.get("_parameters", {}) or (isinstance(v, STensor) and v.attrs.get("is_parameter")) or (is_wrapper(v) and v.fields.get("_is_parameter")):
        f["_parameters"][name] = v
    if name in f.get("_buffers", {}):
        f["_buffers"][name] = v
    E.writes.append(("attr", obj, name, v, E.loc(node)))
    f[name] = v
    return True


def parameter_new(E, cls, data=None, requires_grad=True):
    """torch.nn.Parameter(t, requires_grad): plain tensors become Parameters sharing the data; tensor subclasses go
    through detach (A-TORCH-DISPATCH) and keep their class."""
    from .tm_tensor import call_aten
    from .values import AtenOp

    if isinstance(data, STensor):
        r = STensor(data.dtype, list(data.shape), None, device=data.device, fresh=data.fresh, base=data, imap=lambda idx: list(idx))
        r.attrs["identity_view"] = True
        r.attrs["is_parameter"] = True
        r.requires_grad = requires_grad
        return r
    if is_wrapper(data):
        r = call_aten(E, AtenOp("detach"), [data], {})
        if is_wrapper(r):
            r.fields["_is_parameter"] = True
            r.fields["_w_requires_grad"] = requires_grad
        return r
    raise Unsupported("Parameter of non-tensor")


def conv_forward(E, self, input, weight, bias):
    """nn.Conv2d._conv_forward (A-TORCH-NN): F.conv2d(F.pad(input) if padding_mode != 'zeros' else input, weight, bias, stride, padding, dilation, groups)."""
    f = self.fields
    F = E.ext_modules["torch"].entries["nn"].entries["functional"].entries
    if f["padding_mode"] != "zeros":
        padded = E.call(F["pad"], [input, "reversed_padding_repeated_twice"], {"mode": f["padding_mode"]})
        return E.call(F["conv2d"], [padded, weight, bias, f["stride"], (0, 0), f["dilation"], f["groups"]], {})
    return E.call(F["conv2d"], [input, weight, bias, f["stride"], f["padding"], f["dilation"], f["groups"]], {})


def module_to(E, self, *a, **k):
    """nn.Module.to(device): parameters/buffers are moved; on the same device this is the identity (returns self)."""
    return self


# ------------------------------------------------------------------------------------------------ module tree protocol
def _children(self):
    return [(n, c) for n, c in self.fields.get("_modules", {}).items() if c is not None]


def named_modules(E, self, memo=None, prefix="", remove_duplicate=True):
    out, seen = [], set()

    def rec(m, pre):
        if id(m) in seen:
            return
        seen.add(id(m))
        out.append((pre, m))
        for n, c in _children(m):
            rec(c, pre + ("." if pre else "") + n)

    rec(self, prefix)
    return out


def named_children(E, self):
    return list(_children(self))


def named_parameters(E, self, prefix="", recurse=True):
    out = []
    for pre, m in (named_modules(E, self) if recurse else [("", self)]):
        for n, p in m.fields.get("_parameters", {}).items():
            if p is not None:
                out.append((pre + ("." if pre else "") + n, p))
    return out


def parameters(E, self, recurse=True):
    return [p for _, p in named_parameters(E, self, recurse=recurse)]


def module_requires_grad_(E, self, requires_grad=True):
    """nn.Module.requires_grad_ (A-TORCH-NN): sets the flag of every parameter of the module and of its submodules; returns the module."""
    if not isinstance(requires_grad, bool):
        raise Unsupported("Module.requires_grad_ with a symbolic flag")
    for _, p in named_parameters(E, self):
        if isinstance(p, STensor):
            p.requires_grad = requires_grad
        elif is_wrapper(p):
            p.fields["_w_requires_grad"] = requires_grad
        else:
            raise Unsupported("Module.requires_grad_ on an unmodelled parameter")
    return self


def get_submodule(E, self, target):
    if target == "":
        return self
    cur = self
    for part in target.split("."):
        mods = cur.fields.get("_modules", {})
        if part not in mods or mods[part] is None:
            raise_(E, "AttributeError", f"{cur.cls.name} has no attribute `{part}`")
        cur = mods[part]
    return cur


def default_save_to_state_dict(E, self, destination, prefix, keep_vars):
    from .tm_tensor import call_aten
    from .values import AtenOp

    for n, p in self.fields.get("_parameters", {}).items():
        if p is not None:
            destination[prefix + n] = p if keep_vars else call_aten(E, AtenOp("detach"), [p], {})
    for n, b in self.fields.get("_buffers", {}).items():
        if b is not None:
            destination[prefix + n] = b if keep_vars else call_aten(E, AtenOp("detach"), [b], {})


def default_load_from_state_dict(E, self, state_dict, prefix, local_metadata, strict, missing_keys, unexpected_keys, error_msgs):
    """nn.Module._load_from_state_dict (A-TORCH-NN): copy_ every own parameter / persistent buffer found under prefix+name; with
    strict: report missing ones and unexpected keys directly under this prefix."""
    from .tm_index import copy_

    own = {}
    own.update({n: p for n, p in self.fields.get("_parameters", {}).items()})
    own.update({n: b for n, b in self.fields.get("_buffers", {}).items()})
    for n, p in own.items():
        if p is None:
            continue
        key = prefix + n
        if key in state_dict:
            src = state_dict[key]
            if isinstance(p, STensor) and isinstance(src, STensor):
                if len(p.shape) != len(src.shape) or E.eq(tuple(p.shape), tuple(src.shape)) is False:
                    error_msgs.append(f"size mismatch for {key}")
                    continue
                copy_(E, p, src)
            else:
                error_msgs.append(f"cannot copy {key}: unsupported tensor kinds")
        elif strict:
            missing_keys.append(key)
    if strict:
        for key in list(state_dict.keys()):
            if isinstance(key, str) and key.startswith(prefix):
                rest = key[len(prefix):].split(".", 1)
                if len(rest) == 1 and rest[0] not in own:
                    unexpected_keys.append(key)
                elif len(rest) > 1 and rest[0] not in self.fields.get("_modules", {}):
                    unexpected_keys.append(key)


def _method(E, m, name):
    cv, owner = m.cls.lookup(name)
    return cv


def state_dict(E, self, destination=None, prefix="", keep_vars=False):
    dest = {} if destination is None else destination
    fn = _method(E, self, "_save_to_state_dict")
    E.call(fn, [self, dest, prefix, keep_vars], {})
    for n, c in _children(self):
        state_dict(E, c, dest, prefix + n + ".", keep_vars)
    return dest


def load_state_dict(E, self, sd, strict=True, assign=False):
    sd = dict(sd)
    missing, unexpected, errors = [], [], []

    def rec(m, prefix):
        fn = _method(E, m, "_load_from_state_dict")
        E.call(fn, [m, sd, prefix, {"assign_to_params_buffers": assign} if assign else {}, True, missing, unexpected, errors], {})
        for n, c in _children(m):
            rec(c, prefix + n + ".")

    rec(self, "")
    if strict and (missing or unexpected):
        errors.insert(0, f"Missing key(s): {missing}; Unexpected key(s): {unexpected}")
    if errors:
        raise_(E, "RuntimeError", "Error(s) in loading state_dict: " + "; ".join(str(e) for e in errors))
    return None


def _ctor(init):
    def f(E, cls, *a, **k):
        o = Obj(cls)
        init(E, o, *a, **k)
        return o
    return f


def module_forward(E, self, x):
    """forward of the float modules (A-TORCH-NN): Linear -> F.linear, Conv2d -> _conv_forward, LayerNorm -> F.layer_norm."""
    F = E.ext_modules["torch"].entries["nn"].entries["functional"].entries
    f = self.fields
    if self.cls.is_subclass_of(LINEAR_CLS):
        return E.call(F["linear"], [x, f["weight"], f["bias"]], {})
    if self.cls.is_subclass_of(CONV2D_CLS):
        return conv_forward(E, self, x, f["weight"], f["bias"])
    if self.cls.is_subclass_of(LAYERNORM_CLS):
        return E.call(F["layer_norm"], [x, f["normalized_shape"], f["weight"], f["bias"], f["eps"]], {})
    raise Unsupported(f"forward of {self.cls.name}")


def install(E):
    LINEAR_CLS.ns["__construct__"] = Builtin("Linear()", _ctor(linear_init))
    CONV2D_CLS.ns["__construct__"] = Builtin("Conv2d()", _ctor(conv2d_init))
    LAYERNORM_CLS.ns["__construct__"] = Builtin("LayerNorm()", _ctor(layernorm_init))
    MODULE_CLS.ns["__construct__"] = Builtin("Module()", _ctor(module_init))
    MODULE_CLS.ns["__call__"] = Builtin("Module.__call__", lambda E2, self, *a, **k: E2.call(E2.getattr(self, "forward"), list(a), k))
    MODULE_CLS.ns["forward"] = Builtin("Module.forward", module_forward)
    for nm, fn in (("named_modules", named_modules), ("named_children", named_children), ("named_parameters", named_parameters),
                   ("parameters", parameters), ("get_submodule", get_submodule), ("_save_to_state_dict", default_save_to_state_dict),
                   ("_load_from_state_dict", default_load_from_state_dict), ("state_dict", state_dict), ("load_state_dict", load_state_dict)):
        MODULE_CLS.ns[nm] = Builtin("Module." + nm, fn)
    CONV2D_CLS.ns["_conv_forward"] = Builtin("Conv2d._conv_forward", conv_forward)
    MODULE_CLS.ns["to"] = Builtin("Module.to", module_to)
    MODULE_CLS.ns["requires_grad_"] = Builtin("Module.requires_grad_", module_requires_grad_)
    MODULE_CLS.ns["to_empty"] = Builtin("Module.to_empty", lambda E2, self, *a, **k: self)
    MODULE_CLS.ns["__init__"] = Builtin("Module.__init__", module_init)
    MODULE_CLS.ns["register_buffer"] = Builtin("Module.register_buffer", register_buffer)
    LINEAR_CLS.ns["__init__"] = Builtin("Linear.__init__", linear_init)
    CONV2D_CLS.ns["__init__"] = Builtin("Conv2d.__init__", conv2d_init)
    LAYERNORM_CLS.ns["__init__"] = Builtin("LayerNorm.__init__", layernorm_init)
    PARAMETER_CLS.ns["__construct__"] = Builtin("Parameter", lambda E2, cls, *a, **k: parameter_new(E2, cls, *a, **k))
    E.ext_setattr_hook = module_setattr_hook
