"""Value domain of the qvc symbolic executor."""
import z3

from .sym import Unsupported, concrete_int, is_sym


class DType:
    _cache = {}

    def __new__(cls, name):
        if name in cls._cache:
            return cls._cache[name]
        o = object.__new__(cls)
        o.name = name
        cls._cache[name] = o
        return o

    @property
    def is_floating_point(self):
        return self.name.startswith("float") or self.name == "bfloat16"

    def __repr__(self):
        return f"torch.{self.name}"


class Device:
    def __init__(self, type, index=None):
        self.type = type
        self.index = index

    def __eq__(self, o):
        return isinstance(o, Device) and o.type == self.type and o.index == self.index

    def __hash__(self):
        return hash((self.type, self.index))

    def __repr__(self):
        return f"device({self.type})"


class PyNative:
    """Base of plain python records of the model whose attributes interpreted code may read directly."""


class Token:
    """Opaque external value with identity (e.g. torch.preserve_format)."""

    def __init__(self, path):
        self.path = path

    def __repr__(self):
        return f"<{self.path}>"


class Namespace:
    """External module / namespace modelled by a dict; unknown attributes become Opaque."""

    def __init__(self, path, entries=None):
        self.path = path
        self.entries = dict(entries or {})

    def get(self, name):
        if name in self.entries:
            return self.entries[name]
        o = Opaque(f"{self.path}.{name}")
        self.entries[name] = o
        return o

    def __repr__(self):
        return f"<ns {self.path}>"


class Opaque:
    """An external object the model does not cover. Using it (call / attribute) is Unsupported."""

    def __init__(self, path):
        self.path = path

    def __repr__(self):
        return f"<opaque {self.path}>"


class AtenOp:
    _cache = {}

    def __new__(cls, name):
        if name in cls._cache:
            return cls._cache[name]
        o = object.__new__(cls)
        o.name = name
        cls._cache[name] = o
        return o

    def __repr__(self):
        return f"aten.{self.name}"


class Builtin:
    def __init__(self, name, fn, wants_engine=True):
        self.name = name
        self.fn = fn
        self.wants_engine = wants_engine

    def __repr__(self):
        return f"<builtin {self.name}>"


class Closure:
    def __init__(self, node, env, qualname, file, cls=None, kind="function"):
        self.node = node
        self.env = env
        self.qualname = qualname
        self.file = file
        self.cls = cls  # defining ClassVal for methods
        self.kind = kind  # function | staticmethod | classmethod | property
        self.attrs = {}

    @property
    def key(self):
        return f"{self.file}::{self.qualname}"

    def __repr__(self):
        return f"<closure {self.key}>"


class BoundMethod:
    def __init__(self, selfval, func):
        self.selfval = selfval
        self.func = func

    def __repr__(self):
        return f"<bound {self.func} of {self.selfval}>"


class Partial:
    def __init__(self, func, args, kwargs):
        self.func = func
        self.args = list(args)
        self.kwargs = dict(kwargs)


class ClassVal:
    def __init__(self, name, bases, ns, file=None, qualname=None):
        self.name = name
        self.bases = bases  # list of ClassVal / ExtClass
        self.ns = ns
        self.file = file
        self.qualname = qualname or name

    def mro(self):
        out = [self]
        for b in self.bases:
            if isinstance(b, ClassVal):
                for c in b.mro():
                    if c not in out:
                        out.append(c)
            else:
                if b not in out:
                    out.append(b)
                for c in getattr(b, "bases", []):
                    if c not in out:
                        out.append(c)
        return out

    def lookup(self, name):
        for c in self.mro():
            ns = c.ns if isinstance(c, ClassVal) else c.ns
            if name in ns:
                return ns[name], c
        return None, None

    def is_subclass_of(self, other):
        return other in self.mro()

    def __repr__(self):
        return f"<class {self.name}>"


class ExtClass:
    """External class modelled natively (torch.Tensor, torch.nn.Module, autograd.Function, exceptions...)."""

    def __init__(self, name, ns=None, bases=()):
        self.name = name
        self.ns = dict(ns or {})
        self.bases = list(bases)

    def mro(self):
        out = [self]
        for b in self.bases:
            for c in b.mro():
                if c not in out:
                    out.append(c)
        return out

    def is_subclass_of(self, other):
        return other in self.mro()

    def lookup(self, name):
        for c in self.mro():
            if name in c.ns:
                return c.ns[name], c
        return None, None

    def __repr__(self):
        return f"<extclass {self.name}>"


class Obj:
    _n = 0

    def __init__(self, cls, fields=None):
        Obj._n += 1
        self.oid = Obj._n
        self.cls = cls
        self.fields = dict(fields or {})
        self.fresh = True

    def __repr__(self):
        return f"<{self.cls.name}#{self.oid}>"


class ExcVal:
    def __init__(self, cls, args):
        self.cls = cls  # ExtClass
        self.args = args

    @property
    def tname(self):
        return self.cls.name

    def __repr__(self):
        return f"{self.cls.name}({self.args})"


class STensor:
    """Symbolic tensor: concrete dtype/rank, symbolic dims, element function idx -> scalar term."""

    _n = 0

    def __init__(self, dtype, shape, elem, device="cpu", name=None, fresh=True, requires_grad=False, base=None,
                 strides=None, layout=None, imap=None):
        STensor._n += 1
        self.imap = imap  # for views: index map into base (elem(idx) = base.elem(imap(idx)))
        self.tid = STensor._n
        self.dtype = dtype  # str
        self.shape = list(shape)
        self._elem = elem
        self.device = device if isinstance(device, Device) else Device(device)
        self.name = name or f"t{self.tid}"
        self.fresh = fresh  # allocated during the current function run
        self.requires_grad = requires_grad
        self.base = base  # tensor this one is a view of (for frame conditions)
        self.strides = strides
        self.layout = layout  # structural view term (see torchmodel.reshape)
        self.attrs = {}

    @property
    def rank(self):
        return len(self.shape)

    def elem(self, idx):
        idx = list(idx)
        if len(idx) != len(self.shape):
            raise Unsupported(f"index rank {len(idx)} vs tensor rank {len(self.shape)}")
        if self.imap is not None:
            return self.base.elem(self.imap(idx))
        return self._elem(idx)

    def snap(self):
        """Element function frozen at the current storage version (ops read operands eagerly)."""
        if self.imap is not None:
            f = self.base.snap()
            m = self.imap
            return lambda idx: f(m(list(idx)))
        return self._elem

    def root(self):
        t = self
        while t.base is not None:
            t = t.base
        return t

    def __repr__(self):
        return f"<STensor {self.name} {self.dtype} {self.shape} {self.device.type}>"


def contiguous_strides(shape):
    st = []
    acc = 1
    for d in reversed(shape):
        st.append(acc)
        acc = acc * d if not (is_sym(acc) or is_sym(d)) else z3.simplify(z3.IntVal(acc) * d if not is_sym(acc) else acc * d)
    return tuple(reversed(st))


def numel_of(shape):
    acc = 1
    for d in shape:
        if is_sym(acc) or is_sym(d):
            a = acc if is_sym(acc) else z3.IntVal(acc)
            acc = a * d
        else:
            acc = acc * d
    return z3.simplify(acc) if is_sym(acc) else acc
