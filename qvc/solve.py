"""Discharging obligations: z3 first (cvc5 first for FloatingPoint), the other solver on unknown; 16-process pool."""
import os
import subprocess
import tempfile
import time
from concurrent.futures import ProcessPoolExecutor

import z3


def to_smt2(hyps, goal, logic=None):
    s = z3.Solver()
    for h in hyps:
        s.add(h)
    s.add(z3.Not(goal))
    txt = s.to_smt2()
    return txt


def _has_fp(txt):
    return "FloatingPoint" in txt or "fp." in txt or "RoundingMode" in txt


def _run_z3(txt, timeout_s, want_model):
    """z3 through the Python API in a forked child with a HARD time limit (z3's own timeout is soft: nlsat and some
    tactics ignore it)."""
    import pickle
    import select
    import signal

    t0 = time.time()
    rfd, wfd = os.pipe()
    pid = os.fork()
    if pid == 0:
        os.close(rfd)
        try:
            out = _run_z3_inproc(txt, timeout_s, want_model)
        except BaseException as e:  # pragma: no cover
            out = ("unknown", None, 0.0, f"z3 child error: {e!r}")
        try:
            with os.fdopen(wfd, "wb") as f:
                pickle.dump(out, f)
        finally:
            os._exit(0)
    os.close(wfd)
    data = b""
    deadline = t0 + timeout_s + 3
    with os.fdopen(rfd, "rb") as f:
        while True:
            left = deadline - time.time()
            if left <= 0:
                break
            r, _, _ = select.select([f], [], [], min(left, 1.0))
            if r:
                chunk = os.read(f.fileno(), 1 << 16)
                if not chunk:
                    break
                data += chunk
    try:
        os.kill(pid, signal.SIGKILL)
    except ProcessLookupError:
        pass
    try:
        os.waitpid(pid, 0)
    except ChildProcessError:
        pass
    if data:
        try:
            r, model, _, why = pickle.loads(data)
            return r, model, time.time() - t0, why
        except Exception:
            pass
    return "unknown", None, time.time() - t0, "hard timeout"


def _run_z3_inproc(txt, timeout_s, want_model):
    t0 = time.time()
    s = z3.Solver()
    s.set("timeout", int(timeout_s * 1000))
    try:
        s.from_string(txt)
        r = s.check()
    except z3.Z3Exception as e:
        return "unknown", None, time.time() - t0, f"z3 error: {e}"
    model = None
    if r == z3.sat and want_model:
        m = s.model()
        model = {}
        for d in m.decls():
            try:
                model[d.name()] = str(m[d])
            except Exception:
                pass
    return str(r), model, time.time() - t0, s.reason_unknown() if r == z3.unknown else ""


def _run_cvc5(txt, timeout_s, want_model):
    t0 = time.time()
    with tempfile.NamedTemporaryFile("w", suffix=".smt2", delete=False, dir=os.environ.get("QVC_TMP", "/dev/shm")) as f:
        body = txt
        if "(set-logic" not in body:
            body = "(set-logic ALL)\n" + body
        if want_model:
            body = "(set-option :produce-models true)\n" + body.replace("(check-sat)", "(check-sat)\n(get-model)")
        f.write(body)
        path = f.name
    try:
        p = subprocess.run(["/usr/bin/cvc5", f"--tlimit={int(timeout_s*1000)}", "--strings-exp", "--fp-exp", path],
                           capture_output=True, text=True, timeout=timeout_s + 5)
        out = p.stdout.strip()
    except subprocess.TimeoutExpired:
        out = "unknown"
    finally:
        os.unlink(path)
    first = out.split("\n", 1)[0].strip() if out else "unknown"
    if first not in ("sat", "unsat"):
        first = "unknown"
    model = {"__cvc5_model__": out[len(first):][:4000]} if (first == "sat" and want_model) else None
    return first, model, time.time() - t0, "" if first != "unknown" else out[:200]


def solve_one(job):
    name, txt, timeout_s, want_model = job
    order = ["cvc5", "z3"] if (_has_fp(txt) or "str." in txt) else ["z3", "cvc5"]
    log = []
    for be in order:
        fn = _run_z3 if be == "z3" else _run_cvc5
        r, model, dt, why = fn(txt, timeout_s, want_model)
        log.append((be, r, round(dt, 3), why))
        if r in ("sat", "unsat"):
            if r == "sat" and be == "cvc5" and want_model:
                # get a structured model from z3 if it can produce one quickly
                r2, m2, dt2, _ = _run_z3(txt, min(timeout_s, 20), True)
                if r2 == "sat":
                    model = m2
            return {"name": name, "verdict": {"unsat": "discharged", "sat": "refuted"}[r], "backend": be,
                    "time": sum(l[2] for l in log), "model": model, "log": log}
    return {"name": name, "verdict": "undecided", "backend": None, "time": sum(l[2] for l in log), "model": None, "log": log}


_POOL = None


def pool():
    global _POOL
    if _POOL is None:
        _POOL = ProcessPoolExecutor(max_workers=int(os.environ.get("QVC_JOBS", "16")))
    return _POOL


def discharge(obls, timeout_s=10, want_model=True, parallel=True):
    """obls: list of (name, hyps, goal).  Returns list of result dicts in order."""
    jobs = []
    results = [None] * len(obls)
    for i, ob in enumerate(obls):
        name, hyps, goal = ob[0], ob[1], ob[2]
        tmo = ob[3] if len(ob) > 3 and ob[3] else timeout_s
        if len(ob) > 4 and ob[4]:
            jobs.append((i, (name, ob[4], tmo, False)))
            continue
        if z3.is_true(z3.simplify(goal)):
            results[i] = {"name": name, "verdict": "discharged", "backend": "simplify", "time": 0.0, "model": None, "log": []}
            continue
        jobs.append((i, (name, to_smt2(hyps, goal), tmo, want_model)))
    if not parallel or len(jobs) <= 1:
        for i, j in jobs:
            results[i] = solve_one(j)
    else:
        jobs.sort(key=lambda ij: (0 if _has_fp(ij[1][1]) else 1, -len(ij[1][1])))
        for (i, _), r in zip(jobs, pool().map(solve_one, [j for _, j in jobs])):
            results[i] = r
    return results
