"""Assumed contracts on PyTorch / Python builtins (A-TORCH-EW, A-TORCH-IDX, A-TORCH-RED, A-PY).

Every function here is part of the trusted base; each is cross-checked natively by qvc/conform.py.
"""
import z3

from . import sym
from .sym import Unsupported, concrete_bool, concrete_int, is_sym
from .values import PyNative  # noqa: E402
from .values import (AtenOp, BoundMethod, Builtin, ClassVal, Closure, Device, DType, ExcVal, ExtClass, Namespace, Obj,
                     Opaque, Partial, STensor, Token, contiguous_strides, numel_of)

MISSING = object()

DT = {n: DType(n) for n in list(sym.INT_DTYPES) + list(sym.FLOAT_DTYPES) + ["bool"]}

TENSOR_CLS = ExtClass("Tensor")
MODULE_CLS = ExtClass("Module")
FUNCTION_CLS = ExtClass("Function")
PARAMETER_CLS = ExtClass("Parameter", bases=[TENSOR_CLS])
OBJECT_CLS = ExtClass("object")
ABC_CLS = ExtClass("ABC")
ENUM_CLS = ExtClass("Enum")
TFMODE_CLS = ExtClass("TorchFunctionMode")
LINEAR_CLS = ExtClass("Linear", bases=[MODULE_CLS])
CONV2D_CLS = ExtClass("Conv2d", bases=[MODULE_CLS])
LAYERNORM_CLS = ExtClass("LayerNorm", bases=[MODULE_CLS])


def raise_(E, name, msg="", node=None):
    from .interp import RaiseEx

    raise RaiseEx(ExcVal(E.exc_class(name), [msg]), node)


# ------------------------------------------------------------------------------------------------
# installation of namespaces


def install(E):
    b = Namespace("builtins")
    E.ext_modules["builtins"] = b
    exc_base = ExtClass("BaseException")
    exc = ExtClass("Exception", bases=[exc_base])
    b.entries["BaseException"] = exc_base
    b.entries["Exception"] = exc
    for n, base in [("ValueError", exc), ("TypeError", exc), ("RuntimeError", exc), ("KeyError", exc),
                    ("IndexError", exc), ("AttributeError", exc), ("AssertionError", exc), ("NameError", exc),
                    ("ZeroDivisionError", exc), ("ImportError", exc), ("OverflowError", exc)]:
        b.entries[n] = ExtClass(n, bases=[base])
    b.entries["NotImplementedError"] = ExtClass("NotImplementedError", bases=[b.entries["RuntimeError"]])
    b.entries["RecursionError"] = ExtClass("RecursionError", bases=[b.entries["RuntimeError"]])
    for c in list(b.entries.values()):
        c.ns["__construct__"] = Builtin("exc", lambda E, cls, *a, **k: ExcVal(cls, list(a)))
    b.entries["object"] = OBJECT_CLS
    for name, fn in PY_BUILTINS.items():
        b.entries[name] = Builtin(name, fn)

    torch = Namespace("torch")
    E.ext_modules["torch"] = torch
    for n, d in DT.items():
        torch.entries[n] = d
    torch.entries["Tensor"] = TENSOR_CLS
    torch.entries["Size"] = Builtin("Size", lambda E, x=(): tuple(E.iterate(x)))
    torch.entries["device"] = Builtin("device", lambda E, t, index=None: t if isinstance(t, Device) else Device(t, index))
    torch.entries["preserve_format"] = Token("torch.preserve_format")
    torch.entries["contiguous_format"] = Token("torch.contiguous_format")
    torch.entries["__version__"] = "2.14.0"
    torch.entries["no_grad"] = Builtin("no_grad", lambda E: Token("cm:no_grad"))
    torch.entries["enable_grad"] = Builtin("enable_grad", lambda E: Token("cm:enable_grad"))
    torch.entries["inference_mode"] = Builtin("inference_mode", lambda E, mode=True: Token("cm:no_grad") if mode else Token("cm:noop"))
    torch.entries["is_grad_enabled"] = Builtin("is_grad_enabled", lambda E: E.ps.get("grad_enabled", True))
    for name, fn in TORCH_FUNCS.items():
        torch.entries[name] = Builtin("torch." + name, fn)
    TENSOR_CLS.ns["_make_wrapper_subclass"] = Builtin("_make_wrapper_subclass", make_wrapper_subclass)
    TENSOR_CLS.ns["_make_wrapper_subclass"].kind = "static"
    # aten
    ops = Namespace("torch.ops")
    torch.entries["ops"] = ops
    aten = AtenNamespace("torch.ops.aten")
    ops.entries["aten"] = aten
    for lib in ("quanto", "quanto_py", "quanto_ext"):
        ops.entries[lib] = OpLibNamespace(E, lib)
    # torch._C
    C = Namespace("torch._C")
    torch.entries["_C"] = C
    C.entries["DisableTorchFunctionSubclass"] = Builtin("DisableTorchFunctionSubclass", lambda E: Token("cm:DisableTorchFunctionSubclass"))
    C.entries["_disabled_torch_function_impl"] = Token("torch._C._disabled_torch_function_impl")
    # torch.autograd
    ag = Namespace("torch.autograd")
    torch.entries["autograd"] = ag
    ag.entries["Function"] = FUNCTION_CLS
    FUNCTION_CLS.ns["apply"] = Builtin("Function.apply", function_apply)
    FUNCTION_CLS.ns["apply"].kind = "classmethod"
    # torch.nn
    nn = Namespace("torch.nn")
    torch.entries["nn"] = nn
    nn.entries["Module"] = MODULE_CLS
    nn.entries["Parameter"] = PARAMETER_CLS
    nn.entries["Linear"] = LINEAR_CLS
    nn.entries["Conv2d"] = CONV2D_CLS
    nn.entries["LayerNorm"] = LAYERNORM_CLS
    nn.entries["functional"] = Namespace("torch.nn.functional")
    for fname, impl in FUNCTIONALS.items():
        nn.entries["functional"].entries[fname] = make_torch_function(fname, impl)
    for fname in ("topk",):
        torch.entries[fname] = make_torch_function(fname, lambda E2, *a, **k: (_ for _ in ()).throw(Unsupported(f"torch.{fname} semantics")))
    nn.entries["modules"] = Namespace("torch.nn.modules")
    # torch.library
    lib = Namespace("torch.library")
    torch.entries["library"] = lib
    lib.entries["define"] = Builtin("library.define", library_define)
    lib.entries["impl"] = Builtin("library.impl", library_impl)
    # torch.utils._pytree
    utils = Namespace("torch.utils")
    torch.entries["utils"] = utils
    pt = Namespace("torch.utils._pytree")
    utils.entries["_pytree"] = pt
    pt.entries["tree_map_only"] = Builtin("tree_map_only", tree_map_only)
    torch.entries["overrides"] = Namespace("torch.overrides")
    torch.entries["overrides"].entries["TorchFunctionMode"] = TFMODE_CLS
    torch.entries["iinfo"] = Builtin("iinfo", lambda E, d: Info(d))
    torch.entries["finfo"] = Builtin("finfo", lambda E, d: Info(d))
    torch.entries["cuda"] = Namespace("torch.cuda")

    from . import nnmodel

    nnmodel.install(E)
    npm = Namespace("numpy")
    E.ext_modules["numpy"] = npm
    for n_ in ("uint8", "uint16", "int16", "int32", "int8"):
        npm.entries[n_] = DT[n_]
    # other python modules
    numbers = Namespace("numbers")
    E.ext_modules["numbers"] = numbers
    numbers.entries["Number"] = ExtClass("Number")
    ft = Namespace("functools")
    E.ext_modules["functools"] = ft
    ft.entries["partial"] = Builtin("partial", lambda E, f, *a, **k: Partial(f, a, k))
    astm = Namespace("ast")
    E.ext_modules["ast"] = astm
    astm.entries["literal_eval"] = Builtin("literal_eval", literal_eval)
    abc = Namespace("abc")
    E.ext_modules["abc"] = abc
    abc.entries["ABC"] = ABC_CLS
    dc = Namespace("dataclasses")
    E.ext_modules["dataclasses"] = dc
    dc.entries["dataclass"] = Builtin("dataclass", dataclass_decorator)
    typing = Namespace("typing")
    E.ext_modules["typing"] = typing
    for n in ("Optional", "Tuple", "Union", "List", "Callable", "Dict", "Any"):
        typing.entries[n] = TypingThing(n)
    cl = Namespace("contextlib")
    E.ext_modules["contextlib"] = cl
    cl.entries["contextmanager"] = Builtin("contextmanager", _contextmanager)
    w = Namespace("warnings")
    E.ext_modules["warnings"] = w
    w.entries["warn"] = Builtin("warn", lambda E, *a, **k: E.log.append(("warning", a)))
    pk = Namespace("packaging")
    E.ext_modules["packaging"] = pk
    ver = Namespace("packaging.version")
    pk.entries["version"] = ver
    ver.entries["parse"] = Builtin("version.parse", lambda E, s: Version(s))
    en = Namespace("enum")
    E.ext_modules["enum"] = en
    en.entries["Enum"] = ENUM_CLS
    cp = Namespace("copy")
    E.ext_modules["copy"] = cp
    cp.entries["copy"] = Builtin("copy", lambda E, x: dict(x) if isinstance(x, dict) else list(x) if isinstance(x, list) else x)
    insp = Namespace("inspect")
    E.ext_modules["inspect"] = insp
    insp.entries["signature"] = Builtin("signature", inspect_signature)


def make_torch_function(name, impl):
    """A python-level torch function: with a tensor-subclass argument it is routed to that class's __torch_function__
    (A-TORCH-DISPATCH) unless torch function dispatch is disabled; otherwise its composite implementation runs."""
    holder = {}

    def f(E, *args, **kwargs):
        from .tm_tensor import collect_wrappers

        # recorded for the callers' contracts (with which arguments the functional API was reached)
        E.ps.setdefault("functional_log", []).append((name, tuple(args), dict(kwargs)))
        ws = collect_wrappers([list(args), kwargs], [])
        if ws and not E.ps.get("tf_disabled"):
            for w in ws:
                tf, _ = w.cls.lookup("__torch_function__")
                if isinstance(tf, Token):
                    continue  # _disabled_torch_function_impl
                if tf is not None:
                    types = tuple({id(x.cls): x.cls for x in ws}.values())
                    return E.call(BoundMethod(w.cls, tf), [holder["fn"], types, tuple(args), dict(kwargs)], {})
        return impl(E, *args, **kwargs)

    b = Builtin("torch.nn.functional." + name, f)
    holder["fn"] = b
    return b


def _F_linear(E, input, weight, bias=None):
    from .tm_tensor import call_aten

    wt = call_aten(E, AtenOp("t"), [weight], {})
    out = call_aten(E, AtenOp("matmul"), [input, wt], {})
    if bias is not None:
        out = call_aten(E, AtenOp("add"), [out, bias], {})
    return out


def _F_unmodelled(name):
    def f(E, *a, **k):
        from .tm_tensor import call_aten, collect_wrappers, uninterpreted_function_result

        if collect_wrappers([list(a), k], []):
            # torch-function dispatch was declined: the composite reaches the aten op with the tensor subclass (-> __torch_dispatch__)
            return call_aten(E, AtenOp(name), list(a), dict(k))
        return uninterpreted_function_result(E, name, a, k)
    return f


FUNCTIONALS = {"linear": _F_linear, "layer_norm": _F_unmodelled("layer_norm"), "cross_entropy": _F_unmodelled("cross_entropy"),
               "cosine_similarity": _F_unmodelled("cosine_similarity"), "log_softmax": _F_unmodelled("log_softmax"),
               "conv2d": _F_unmodelled("conv2d"), "pad": _F_unmodelled("pad")}


class TypingThing:
    def __init__(self, n):
        self.n = n


class Version(PyNative):
    def __init__(self, s):
        self.s = s

    @property
    def release(self):
        return tuple(int(x) for x in self.s.split("+")[0].split(".")[:3] if x.isdigit())


class Info(PyNative):
    """torch.iinfo / torch.finfo"""

    def __init__(self, d):
        self.d = d
        n = d.name
        if n in sym.INT_DTYPES:
            self.min, self.max = sym.int_range(n)
        else:
            self.max = sym.FLOAT_MAX[n]
            self.min = -self.max
            eb, sb = sym.FLOAT_DTYPES[n]
            self.eps = 2.0 ** -(sb - 1)
            self.bits = {"float16": 16, "bfloat16": 16, "float32": 32, "float64": 64}.get(n, 8)
            # smallest positive normal number
            self.tiny = self.smallest_normal = {"float16": 2.0 ** -14, "bfloat16": 2.0 ** -126, "float32": 2.0 ** -126, "float64": 2.0 ** -1022,
                                                "float8_e4m3fn": 2.0 ** -6, "float8_e5m2": 2.0 ** -14, "float8_e4m3fnuz": 2.0 ** -7, "float8_e5m2fnuz": 2.0 ** -15}[n]

    def __getattr__(self, name):
        # an attribute of torch.finfo / iinfo the model does not carry: undecided, not an AttributeError of the program
        raise Unsupported(f"torch.{'iinfo' if self.d.name in sym.INT_DTYPES else 'finfo'}.{name}")


class AtenNamespace(Namespace):
    def get(self, name):
        return AtenOp(name)


class OpLibNamespace(Namespace):
    def __init__(self, E, lib):
        super().__init__(f"torch.ops.{lib}")
        self.E = E
        self.lib = lib

    def get(self, name):
        full = f"{self.path}.{name}"
        if full in self.E.models:
            return self.E.models[full]
        return Builtin(full, lambda E, *a, **k: call_custom_op(E, self.lib, name, a, k))


def call_custom_op(E, lib, name, args, kwargs):
    """torch.ops.<lib>.<name>: dispatch on the device of the first tensor argument (A-TORCH-DISPATCH)."""
    dev = None
    for a in args:
        if isinstance(a, STensor):
            dev = a.device.type
            break
    # a custom op called with a tensor-subclass argument is first offered to that class's __torch_dispatch__ (A-TORCH-DISPATCH), exactly
    # like an aten op: quanto's classes do not list the quanto ops, so they fall back (dequantize / unpack) and call the op again
    from .tm_tensor import collect_wrappers
    ws = collect_wrappers([list(args), dict(kwargs)], [])
    if ws:
        w = ws[0]
        td, _ = w.cls.lookup("__torch_dispatch__")
        if td is not None and not isinstance(td, Token):
            opobj = Obj(ExtClass("CustomOpOverload", {"__call__": Builtin(f"{lib}.{name}", lambda E2, self, *a, **k: call_custom_op(E2, lib, name, a, k))}))
            opobj.fields["overloadpacket"] = AtenOp(f"{lib}.{name}")
            opobj.fields["name"] = f"{lib}.{name}"
            types = tuple({id(x.cls): x.cls for x in ws}.values())
            return E.call(BoundMethod(w.cls, td), [opobj, types, tuple(args), dict(kwargs)], {})
    # recorded for callers' contracts (which arguments reached the kernel, in which dtypes)
    E.ps.setdefault("custom_op_log", []).append((f"{lib}::{name}", tuple(getattr(a, "dtype", None) for a in args)))
    keymap = {"cpu": "CPU", "cuda": "CUDA", "mps": "MPS"}
    for key in (keymap.get(dev), "default"):
        if (lib, name, key) in E.oplib:
            return E.call(E.oplib[(lib, name, key)], list(args), dict(kwargs))
    raise_(E, "NotImplementedError", f"no kernel for {lib}::{name} on {dev}")


def library_define(E, qualname, schema, **kw):
    E.opdefs[qualname] = schema
    return None


def library_impl(E, qualname, keys, **kw):
    lib, name = qualname.split("::")
    if isinstance(keys, str):
        keys = [keys]

    def deco(E2, fn):
        for k in keys:
            E.oplib[(lib, name, k)] = fn
        return fn

    return Builtin("library.impl.deco", deco)


def _contextmanager(E, fn):
    fn.attrs["contextmanager"] = True
    return fn


def dataclass_decorator(E, cls):
    fields = list(cls.ns.get("__annotations__", []))
    # fields declared with annotation only (no default) are collected by st_ClassDef
    cls.ns["__dataclass__"] = True
    cls.ns["__fields__"] = fields

    def init(E2, obj, *args, **kwargs):
        vals = dict(zip(fields, args))
        vals.update(kwargs)
        for f in fields:
            if f not in vals:
                raise_(E2, "TypeError", f"missing field {f}")
            obj.fields[f] = vals[f]

    cls.ns["__init__"] = Builtin("dataclass.__init__", init)
    return cls


def inspect_signature(E, fn):
    if isinstance(fn, BoundMethod):
        clo = fn.func
        skip = 1
    else:
        clo, skip = fn, 0
    if not isinstance(clo, Closure):
        raise Unsupported("inspect.signature of non-closure")

    class P(PyNative):
        POSITIONAL_ONLY = 0

        def __init__(self, name, kind):
            self.name, self.kind = name, kind

    a = clo.node.args
    ps = [P(x.arg, 0) for x in a.posonlyargs] + [P(x.arg, 1) for x in a.args] + [P(x.arg, 3) for x in a.kwonlyargs]
    ps = ps[skip:]
    return PyObj({"parameters": {p.name: p for p in ps}})


class PyObj(PyNative):
    """Plain python record exposed to interpreted code through NativeMethod / attributes."""

    def __init__(self, d):
        self.__dict__.update(d)


def literal_eval(E, s):
    import ast as _ast

    if isinstance(s, SymStr):
        # A-SER: ast.literal_eval(str(v)) == v for ints / None / lists / tuples of ints
        return s.value
    if is_sym(s) or not isinstance(s, str):
        raise Unsupported("literal_eval of non-concrete string")
    try:
        return _ast.literal_eval(s)
    except Exception as e:
        raise_(E, "ValueError", f"malformed node or string: {e}")


def tree_map_only(E, cls, fn, tree):
    def rec(x):
        if isinstance(x, tuple):
            return tuple(rec(y) for y in x)
        if isinstance(x, list):
            return [rec(y) for y in x]
        if isinstance(x, dict):
            return {k: rec(v) for k, v in x.items()}
        if py_isinstance(E, x, cls) is True:
            return E.call(fn, [x], {})
        return x

    return rec(tree)


def function_apply(E, cls, *args, **kwargs):
    """autograd.Function.apply(*args): forward(ctx, *args) (A-TORCH-NN: autograd plumbing dropped)."""
    fwd, _ = cls.lookup("forward")
    ctx = Obj(ExtClass("FunctionCtx"))
    ctx.fields["needs_input_grad"] = tuple(False for _ in args)
    ctx.fields["save_for_backward"] = Builtin("save_for_backward", lambda E2, *ts: ctx.fields.__setitem__("saved_tensors", tuple(ts)))
    E.log.append(("autograd.apply", cls.name))
    # recorded for the callers' contracts: was the Function recorded in the graph (grad mode on at the call)?
    E.ps.setdefault("apply_log", []).append((cls.name, E.ps.get("grad_enabled", True), tuple(args)))
    return E.call(fwd, [ctx] + list(args), kwargs)


def make_wrapper_subclass(E, cls, size, strides=None, dtype=None, device=None, requires_grad=False, **kw):
    o = Obj(cls)
    o.fields["_w_size"] = tuple(E.iterate(size))
    o.fields["_w_stride"] = tuple(E.iterate(strides)) if strides is not None else contiguous_strides(o.fields["_w_size"])
    o.fields["_w_dtype"] = dtype
    o.fields["_w_device"] = device
    o.fields["_w_requires_grad"] = requires_grad
    return o


def is_wrapper(obj):
    return isinstance(obj, Obj) and "_w_size" in obj.fields


# ------------------------------------------------------------------------------------------------
# python builtins


def py_isinstance(E, x, cls):
    if isinstance(cls, tuple):
        r = False
        for c in cls:
            v = py_isinstance(E, x, c)
            if v is True:
                return True
        return r
    if isinstance(cls, ClassVal):
        return isinstance(x, Obj) and isinstance(x.cls, ClassVal) and x.cls.is_subclass_of(cls)
    if isinstance(cls, ExtClass):
        if cls.name == "Tensor":
            return isinstance(x, STensor) or (isinstance(x, Obj) and isinstance(x.cls, (ClassVal, ExtClass)) and x.cls.is_subclass_of(TENSOR_CLS))
        if cls.name == "Number":
            return isinstance(x, (int, float)) or (is_sym(x) and (z3.is_int(x) or z3.is_real(x) or z3.is_bool(x)))
        if cls.name == "object":
            return True
        if isinstance(x, Obj):
            return x.cls.is_subclass_of(cls)
        if isinstance(x, ExcVal):
            return x.cls.is_subclass_of(cls)
        return False
    if isinstance(cls, Builtin):
        n = cls.name
        if n == "int":
            return (isinstance(x, int) and not isinstance(x, bool)) or isinstance(x, bool) or (is_sym(x) and z3.is_int(x))
        if n == "float":
            return isinstance(x, float) or (is_sym(x) and z3.is_real(x))
        if n == "bool":
            return isinstance(x, bool) or (is_sym(x) and z3.is_bool(x))
        if n == "str":
            return isinstance(x, str)
        if n == "list":
            return isinstance(x, list)
        if n == "tuple":
            return isinstance(x, tuple)
        if n == "dict":
            return isinstance(x, dict)
        if n == "Size":
            return isinstance(x, tuple)
        if n == "device":
            return isinstance(x, Device)
    raise Unsupported(f"isinstance against {cls!r}")


def py_type(E, x):
    if isinstance(x, Obj):
        return x.cls
    if isinstance(x, STensor):
        return PARAMETER_CLS if x.attrs.get("is_parameter") else TENSOR_CLS
    b = E.ext_modules["builtins"].entries
    if isinstance(x, bool):
        return b["bool"]
    if isinstance(x, int) or (is_sym(x) and z3.is_int(x)):
        return b["int"]
    if isinstance(x, float) or (is_sym(x) and z3.is_real(x)):
        return b["float"]
    if isinstance(x, str):
        return b["str"]
    if isinstance(x, list):
        return b["list"]
    if isinstance(x, tuple):
        return b["tuple"]
    if isinstance(x, dict):
        return b["dict"]
    if x is None:
        return Token("NoneType")
    raise Unsupported(f"type() of {x!r}")


def py_len(E, x):
    if isinstance(x, (list, tuple, dict, str, set)):
        return len(x)
    if isinstance(x, STensor):
        if not x.shape:
            raise_(E, "TypeError", "len() of a 0-d tensor")
        return x.shape[0]
    if is_wrapper(x):
        return x.fields["_w_size"][0]
    if isinstance(x, Obj):
        m, _ = x.cls.lookup("__len__")
        if m is not None:
            return E.call(m, [x], {})
    raise_(E, "TypeError", f"object of type '{type(x).__name__}' has no len()")


def py_range(E, *a):
    from .interp import SymRange

    if all(not is_sym(x) for x in a):
        return range(*a)
    if len(a) == 1:
        return SymRange(0, a[0], 1)
    if len(a) == 2:
        return SymRange(a[0], a[1], 1)
    if is_sym(a[2]):
        raise Unsupported("symbolic range step")
    return SymRange(a[0], a[1], a[2])


def py_min(E, *a, **k):
    if len(a) == 1:
        a = E.iterate(a[0])
    r = a[0]
    for x in a[1:]:
        r = sym.zmin(r, x) if (is_sym(r) or is_sym(x)) else min(r, x)
    return r


def py_max(E, *a, **k):
    if len(a) == 1:
        a = E.iterate(a[0])
    r = a[0]
    for x in a[1:]:
        r = sym.zmax(r, x) if (is_sym(r) or is_sym(x)) else max(r, x)
    return r


def py_getattr(E, obj, name, *default):
    from .interp import RaiseEx

    try:
        return E.getattr(obj, name)
    except RaiseEx as r:
        if default and r.exc.tname == "AttributeError":
            return default[0]
        raise


def py_hasattr(E, obj, name):
    from .interp import RaiseEx

    try:
        E.getattr(obj, name)
        return True
    except RaiseEx as r:
        if r.exc.tname == "AttributeError":
            return False
        raise


def py_str(E, x=""):
    if isinstance(x, Obj):
        m, _ = x.cls.lookup("__str__")
        if m is not None:
            return E.call(m, [x], {})
    if isinstance(x, (list, tuple)) and any(is_sym(e) for e in x):
        return SymStr("seq", x)
    if is_sym(x):
        c = concrete_int(x)
        if c is not None:
            return str(c)
        return SymStr("int", x)
    if isinstance(x, DType):
        return f"torch.{x.name}"
    if isinstance(x, (Obj, STensor)):
        raise Unsupported("str() of object")
    return str(x)


class SymStr:
    """str() of a symbolic value: only literal_eval(str(v)) == v (A-SER) is known about it."""

    def __init__(self, kind, value):
        self.kind = kind
        self.value = value


def py_int(E, x=0):
    if is_sym(x):
        if z3.is_int(x):
            return x
        raise Unsupported("int() of symbolic non-int")
    if isinstance(x, SymStr):
        if x.kind == "int":
            return x.value
        raise Unsupported("int() of the string of a symbolic non-integer")
    try:
        return int(x)
    except (ValueError, TypeError) as e:
        # the interpreted program raises exactly this
        raise_(E, type(e).__name__, str(e))


def py_sum(E, xs, start=0):
    r = start
    for x in E.iterate(xs):
        r = E.binop("Add", r, x)
    return r


def py_all(E, xs):
    for x in E.iterate(xs):
        if not E.truth(x):
            return False
    return True


def py_any(E, xs):
    for x in E.iterate(xs):
        if E.truth(x):
            return True
    return False


def py_abs(E, x):
    if is_sym(x):
        return z3.If(x >= 0, x, -x)
    return abs(x)


def py_locals(E):
    return dict(E.frames[-1].env.vars)


def py_setattr(E, obj, name, v):
    E.setattr(obj, name, v)


def py_next(E, it, *default):
    xs = E.iterate(it)
    if xs:
        return xs[0]
    if default:
        return default[0]
    raise_(E, "StopIteration")


def py_hash(E, x):
    if isinstance(x, Obj):
        m, _ = x.cls.lookup("__hash__")
        if m is not None:
            return E.call(m, [x], {})
    return hash(x)


def py_callable(E, x):
    return isinstance(x, (Closure, BoundMethod, Builtin, Partial, AtenOp, ClassVal, ExtClass))


PY_BUILTINS = {
    "isinstance": py_isinstance, "type": py_type, "len": py_len, "range": py_range, "min": py_min, "max": py_max,
    "getattr": py_getattr, "hasattr": py_hasattr, "setattr": py_setattr, "str": py_str, "int": py_int, "sum": py_sum,
    "all": py_all, "any": py_any, "abs": py_abs, "locals": py_locals, "next": py_next, "hash": py_hash,
    "callable": py_callable,
    "list": lambda E, x=(): list(E.iterate(x)),
    "tuple": lambda E, x=(): tuple(E.iterate(x)),
    "dict": lambda E, *a, **k: dict(*a, **k),
    "set": lambda E, x=(): set(E.iterate(x)),
    "enumerate": lambda E, x, start=0: list(enumerate(E.iterate(x), start)),
    "zip": lambda E, *xs: list(zip(*[E.iterate(x) for x in xs])),
    "reversed": lambda E, x: list(reversed(E.iterate(x))),
    "sorted": lambda E, x: sorted(E.iterate(x)),
    "bool": lambda E, x=False: E.truth(x),
    "float": lambda E, x=0.0: float(x) if not is_sym(x) else (z3.ToReal(x) if z3.is_int(x) else x),
    "print": lambda E, *a, **k: None,
    "id": lambda E, x: id(x),
    "iter": lambda E, x: E.iterate(x),
    "repr": lambda E, x: repr(x),
    "issubclass": lambda E, a, b: a.is_subclass_of(b),
}

from .tm_tensor import *  # noqa: E402,F401,F403  (tensor layer, split for size)
from .tm_tensor import TORCH_FUNCS  # noqa: E402
from .tm_index import inplace_binop, tensor_getitem, tensor_setitem  # noqa: E402,F401


def py_getitem(E, obj, k, node=None):
    raise Unsupported(f"subscript of {obj!r}")
