"""Scalar layer of qvc: dtypes, scalar algebras (R / BV / F), symbolic int helpers.

Scalar values are either Python numbers (concrete) or z3 terms.
  * integer dtypes: z3 Int with explicit wrap-around (intmode 'int') or z3 BitVec (intmode 'bv')
  * float dtypes:   z3 Real (floatmode 'R', assumption A-REAL) or z3 FP (floatmode 'F', bit-precise)
  * bool dtype:     z3 Bool
"""
import z3

INT_DTYPES = {
    "uint8": (8, False), "int8": (8, True), "int16": (16, True), "uint16": (16, False),
    "int32": (32, True), "int64": (64, True),
}
FLOAT_DTYPES = {
    # name: (ebits, sbits incl. hidden)
    "float16": (5, 11), "bfloat16": (8, 8), "float32": (8, 24), "float64": (11, 53),
    "float8_e5m2": (5, 3), "float8_e4m3fn": (4, 4),
    # the fnuz flavours are known by name and range only (torch.finfo); casts from / to them are outside the model
    "float8_e4m3fnuz": (4, 4), "float8_e5m2fnuz": (5, 3),
}
FNUZ = ("float8_e4m3fnuz", "float8_e5m2fnuz")
FLOAT_MAX = {
    "float16": 65504.0, "bfloat16": 3.3895313892515355e38, "float32": 3.4028234663852886e38,
    "float8_e5m2": 57344.0, "float8_e4m3fn": 448.0, "float64": 1.7976931348623157e308,
    "float8_e4m3fnuz": 240.0, "float8_e5m2fnuz": 57344.0,
}


class Unsupported(Exception):
    """Construct outside the verified subset: the obligation becomes *undecided*, never a violation."""

    def __init__(self, why, node=None):
        super().__init__(why)
        self.why = why
        self.node = node


def is_sym(x):
    return isinstance(x, z3.ExprRef)


def is_int_dtype(d):
    return d in INT_DTYPES


def is_float_dtype(d):
    return d in FLOAT_DTYPES


def int_range(d):
    bits, signed = INT_DTYPES[d]
    if signed:
        return -(2 ** (bits - 1)), 2 ** (bits - 1) - 1
    return 0, 2**bits - 1


def simp(x):
    return z3.simplify(x) if is_sym(x) else x


def to_z3_int(x):
    if is_sym(x):
        return x
    if isinstance(x, bool):
        return z3.IntVal(int(x))
    return z3.IntVal(int(x))


def to_z3_bool(x):
    if is_sym(x):
        return x
    return z3.BoolVal(bool(x))


def concrete_bool(x):
    """Return True/False if x is a concrete (or trivially simplifiable) boolean, else None."""
    if isinstance(x, bool):
        return x
    if is_sym(x):
        s = z3.simplify(x)
        if z3.is_true(s):
            return True
        if z3.is_false(s):
            return False
        return None
    return bool(x)


def concrete_int(x):
    if isinstance(x, bool):
        return int(x)
    if isinstance(x, int):
        return x
    if is_sym(x):
        s = z3.simplify(x)
        if z3.is_int_value(s):
            return s.as_long()
    return None


def zmin(a, b):
    ca, cb = concrete_int(a), concrete_int(b)
    if ca is not None and cb is not None:
        return min(ca, cb)
    a, b = to_z3_int(a), to_z3_int(b)
    return z3.If(a <= b, a, b)


def zmax(a, b):
    ca, cb = concrete_int(a), concrete_int(b)
    if ca is not None and cb is not None:
        return max(ca, cb)
    a, b = to_z3_int(a), to_z3_int(b)
    return z3.If(a >= b, a, b)


def And(*xs):
    xs = [to_z3_bool(x) for x in xs]
    return z3.And(*xs) if xs else z3.BoolVal(True)


def Or(*xs):
    xs = [to_z3_bool(x) for x in xs]
    return z3.Or(*xs) if xs else z3.BoolVal(False)


def Not(x):
    return z3.Not(to_z3_bool(x))


# ----------------------------------------------------------------------------------------------
# Scalar algebra


class Algebra:
    """Meaning of point-wise scalar operations for one configuration instance."""

    def __init__(self, intmode="int", floatmode="R"):
        assert intmode in ("int", "bv") and floatmode in ("R", "F")
        self.intmode = intmode
        self.floatmode = floatmode
        self.side = []  # side conditions met on the way: (kind, formula)  e.g. ("div-nonzero", d != 0)
        self._fresh = 0
        self.undef_cast = {}

    # -- sorts
    def sort(self, dtype):
        if dtype == "bool":
            return z3.BoolSort()
        if dtype in INT_DTYPES:
            if self.intmode == "bv":
                return z3.BitVecSort(INT_DTYPES[dtype][0])
            return z3.IntSort()
        if dtype in FLOAT_DTYPES:
            if self.floatmode == "F":
                return self.fpsort(dtype)
            return z3.RealSort()
        raise Unsupported(f"dtype {dtype}")

    def fpsort(self, dtype):
        if dtype == "float8_e4m3fn":
            # values are carried in F(5,4) (superset grid above 2^-6; see cast_to_f8e4m3)
            return z3.FPSort(5, 4)
        e, s = FLOAT_DTYPES[dtype]
        return z3.FPSort(e, s)

    def fresh(self, prefix, sort):
        self._fresh += 1
        return z3.Const(f"{prefix}!{self._fresh}", sort)

    # -- constants
    def const(self, v, dtype):
        if is_sym(v):
            return v
        if dtype == "bool":
            return z3.BoolVal(bool(v))
        if dtype in INT_DTYPES:
            bits, signed = INT_DTYPES[dtype]
            if self.intmode == "bv":
                return z3.BitVecVal(int(v), bits)
            return z3.IntVal(self._wrap_py(int(v), dtype))
        if dtype in FLOAT_DTYPES:
            if self.floatmode == "F":
                return z3.FPVal(float(v), self.fpsort(dtype)) if not isinstance(v, str) else z3.FPVal(v, self.fpsort(dtype))
            if isinstance(v, float):
                from fractions import Fraction

                fr = Fraction(v)
                return z3.RealVal(f"{fr.numerator}/{fr.denominator}")
            return z3.RealVal(v)
        raise Unsupported(f"const of dtype {dtype}")

    @staticmethod
    def _wrap_py(v, dtype):
        lo, hi = int_range(dtype)
        n = hi - lo + 1
        return (v - lo) % n + lo

    def wrap(self, x, dtype):
        """Wrap a z3 Int term into the range of an integer dtype (two's complement)."""
        lo, hi = int_range(dtype)
        n = hi - lo + 1
        c = concrete_int(x)
        if c is not None:
            return z3.IntVal((c - lo) % n + lo)
        return (x - lo) % n + lo

    def in_range(self, x, dtype):
        lo, hi = int_range(dtype)
        return z3.And(x >= lo, x <= hi)

    # -- casts
    def cast(self, x, src, dst):
        """Scalar meaning of tensor.to(dst) for an element of dtype src."""
        if src == dst:
            return x
        if src in FNUZ or dst in FNUZ:
            raise Unsupported(f"cast {src} -> {dst}: the fnuz float8 flavours are modelled by name and range only")
        if dst == "bool":
            raise Unsupported("cast to bool")
        if src == "bool":
            one, zero = self.const(1, dst), self.const(0, dst)
            return z3.If(x, one, zero)
        if src in INT_DTYPES and dst in INT_DTYPES:
            sb, ss = INT_DTYPES[src]
            db, ds = INT_DTYPES[dst]
            if self.intmode == "bv":
                if db == sb:
                    return x
                if db < sb:
                    return z3.Extract(db - 1, 0, x)
                return z3.SignExt(db - sb, x) if ss else z3.ZeroExt(db - sb, x)
            return self.wrap(x, dst)
        if src in INT_DTYPES and dst in FLOAT_DTYPES:
            if self.floatmode == "R":
                if self.intmode == "bv":
                    raise Unsupported("bv->real cast")
                return z3.ToReal(x)
            sb, ss = INT_DTYPES[src]
            if self.intmode == "bv":
                bv = x
            else:
                bv = z3.Int2BV(x, sb)
            if dst == "float8_e4m3fn":
                raise Unsupported("int -> float8_e4m3fn")
            return z3.fpToFP(z3.RNE(), bv, self.fpsort(dst)) if ss else z3.fpToFPUnsigned(z3.RNE(), bv, self.fpsort(dst))
        if src in FLOAT_DTYPES and dst in FLOAT_DTYPES:
            if self.floatmode == "R":
                # A-REAL: float->float casts are exact in R, except that a narrowing cast to a float8
                # type lands on its grid; the R algebra keeps the value and lets the lemma state the grid.
                if dst in ("float8_e4m3fn", "float8_e5m2") and src not in ("float8_e4m3fn", "float8_e5m2"):
                    return self.round_to_f8_R(x, dst)
                if getattr(self, "track_narrowing", False) and dst in ("float16", "bfloat16") and \
                        (FLOAT_DTYPES[dst][1] < FLOAT_DTYPES[src][1] or FLOAT_DTYPES[dst][0] < FLOAT_DTYPES[src][0]):
                    # a marker (identity function) around values narrowed to a 16-bit float (fewer significant bits OR a smaller exponent
                    # range): lets a check state WHICH value is rounded to the narrow type (the fully scaled result, or an intermediate
                    # that may overflow / lose precision)
                    f = z3.Function(f"narrow_{dst}", z3.RealSort(), z3.RealSort())
                    self.side.append(("fact", f(x) == x))
                    return f(x)
                return x
            if dst == "float8_e4m3fn":
                return self.cast_to_f8e4m3(x, src)
            return z3.fpToFP(z3.RNE(), x, self.fpsort(dst))
        if src in FLOAT_DTYPES and dst in INT_DTYPES:
            lo, hi = int_range(dst)
            if self.floatmode == "R":
                t = real_to_int_exact(x)
                if t is None:
                    t = z3.If(x >= 0, z3.ToInt(x), -z3.ToInt(-x))  # round toward zero
                if self.intmode == "bv":
                    raise Unsupported("real->bv cast")
                key = (dst,)
                if key not in self.undef_cast:
                    self.undef_cast[key] = z3.Function(f"undef_cast_{dst}", z3.RealSort(), z3.IntSort())
                u = self.undef_cast[key](x)
                self.side.append(("undef-cast-range", z3.And(u >= lo, u <= hi)))
                return z3.If(z3.And(t >= lo, t <= hi), t, u)
            db, ds = INT_DTYPES[dst]
            # A-NANCAST: NaN -> 0 on this CPU; out-of-range left to fp.to_sbv (unspecified in SMT-LIB)
            bv = z3.fpToSBV(z3.RTZ(), x, z3.BitVecSort(db)) if ds else z3.fpToUBV(z3.RTZ(), x, z3.BitVecSort(db))
            bv = z3.If(z3.fpIsNaN(x), z3.BitVecVal(0, db), bv)
            if self.intmode == "bv":
                return bv
            return z3.BV2Int(bv, is_signed=ds)
        raise Unsupported(f"cast {src}->{dst}")

    def round_to_f8_R(self, x, dst):
        """R algebra: cast to float8 = an uninterpreted 'nearest grid point' function, axiomatised in lemmas."""
        f = z3.Function(f"rne_{dst}", z3.RealSort(), z3.RealSort())
        return f(x)

    def cast_to_f8e4m3(self, x, src):
        """Bit-precise float -> float8_e4m3fn (saturating cast of this torch build is NOT assumed:
        values above 448 after rounding are left as F(5,4) values > 448; callers clamp first)."""
        S54 = z3.FPSort(5, 4)
        y = z3.fpToFP(z3.RNE(), x, S54)
        # below 2^-6 the e4m3fn grid is the subnormal grid: multiples of 2^-9
        big = z3.FPSort(8, 24) if src != "float64" else z3.FPSort(11, 53)
        xw = z3.fpToFP(z3.RNE(), x, big)
        scaled = z3.fpMul(z3.RNE(), xw, z3.FPVal(512.0, big))
        r = z3.fpRoundToIntegral(z3.RNE(), scaled)
        sub = z3.fpToFP(z3.RNE(), z3.fpMul(z3.RNE(), r, z3.FPVal(1.0 / 512.0, big)), S54)
        small = z3.fpLT(z3.fpAbs(xw), z3.FPVal(2.0**-6, big))
        return z3.If(z3.fpIsNaN(x), z3.fpNaN(S54), z3.If(small, sub, y))

    # -- arithmetic on already-promoted operands of dtype d
    def binop(self, op, a, b, d):
        if d == "bool":
            if op in ("and", "mul"):
                return z3.And(a, b)
            if op in ("or",):
                return z3.Or(a, b)
            raise Unsupported(f"bool op {op}")
        if d in INT_DTYPES:
            return self._int_binop(op, a, b, d)
        if d in FLOAT_DTYPES:
            return self._float_binop(op, a, b, d)
        raise Unsupported(f"binop on {d}")

    def _int_binop(self, op, a, b, d):
        bits, signed = INT_DTYPES[d]
        if self.intmode == "bv":
            if op == "add":
                return a + b
            if op == "sub":
                return a - b
            if op == "mul":
                return a * b
            if op == "and":
                return a & b
            if op == "or":
                return a | b
            if op == "xor":
                return a ^ b
            if op == "lshift":
                return a << b
            if op == "rshift":
                return (a >> b) if signed else z3.LShR(a, b)
            if op == "floordiv":
                if signed:
                    raise Unsupported("signed bv floordiv")
                self.side.append(("div-nonzero", b != 0))
                return z3.UDiv(a, b)
            if op == "pow" and z3.is_bv_value(z3.simplify(a)) and z3.simplify(a).as_long() == 2:
                return z3.BitVecVal(1, bits) << b      # 2 ** e (wraps like the dtype for e >= bits)
            raise Unsupported(f"bv op {op}")
        if op == "add":
            return self.wrap(a + b, d)
        if op == "sub":
            return self.wrap(a - b, d)
        if op == "mul":
            return self.wrap(a * b, d)
        if op == "floordiv":
            self.side.append(("div-nonzero", b != 0))
            if concrete_int(b) is not None and concrete_int(b) > 0:
                return a / b  # z3 Int div == floor for positive divisor
            raise Unsupported("int floordiv by symbolic divisor")
        if op == "pow":
            ca = concrete_int(a)
            if ca == 2:
                # 2 ** e for an exponent in [0, bits): table (the result wraps like the dtype for larger exponents: not modelled)
                r = z3.Function("pow2_out_of_table", z3.IntSort(), z3.IntSort())(b)   # unknown outside the table
                for e in range(bits - 1, -1, -1):
                    r = z3.If(b == e, z3.IntVal(1 << e), r)
                return self.wrap(r, d)
            raise Unsupported("integer power with a base other than 2")
        if op in ("lshift", "rshift", "and", "or", "xor"):
            cb = concrete_int(b)
            if op == "lshift" and cb is not None:
                return self.wrap(a * (2**cb), d)
            if op == "rshift" and cb is not None:
                return a / (2**cb)  # arithmetic shift == floor division
            if op == "and" and cb is not None and cb >= 0 and (cb & (cb + 1)) == 0 and not signed:
                return a % (cb + 1)
            raise Unsupported(f"bit op {op} in int mode")
        raise Unsupported(f"int op {op}")

    def _float_binop(self, op, a, b, d):
        if self.floatmode == "R":
            if op == "add":
                return a + b
            if op == "sub":
                return a - b
            if op == "mul":
                return a * b
            if op == "truediv":
                self.side.append(("div-nonzero", b != 0))
                return a / b
            if op == "pow":
                # x ** y over the reals: small constant natural exponents are products; otherwise an uninterpreted function with the
                # facts x**1 == x, x**0 == 1, and x >= 0 -> x**y >= 0 (nothing else is assumed about it)
                bv = z3.simplify(b) if z3.is_expr(b) else b
                if z3.is_expr(bv) and z3.is_rational_value(bv) and bv.denominator_as_long() == 1 and 0 <= bv.numerator_as_long() <= 4:
                    r = z3.RealVal(1)
                    for _ in range(bv.numerator_as_long()):
                        r = r * a
                    return r
                f = z3.Function("pow_real", z3.RealSort(), z3.RealSort(), z3.RealSort())
                v = f(a, b)
                self.side.append(("fact", z3.And(z3.Implies(b == 1, v == a), z3.Implies(b == 0, v == 1), z3.Implies(a >= 0, v >= 0))))
                return v
            raise Unsupported(f"real op {op}")
        rm = z3.RNE()
        if op == "add":
            return z3.fpAdd(rm, a, b)
        if op == "sub":
            return z3.fpSub(rm, a, b)
        if op == "mul":
            return z3.fpMul(rm, a, b)
        if op == "truediv":
            return z3.fpDiv(rm, a, b)
        raise Unsupported(f"fp op {op}")

    def neg(self, a, d):
        if d in INT_DTYPES:
            if self.intmode == "bv":
                return -a
            return self.wrap(-a, d)
        if self.floatmode == "R":
            return -a
        return z3.fpNeg(a)

    def abs(self, a, d):
        if d in INT_DTYPES:
            if self.intmode == "bv":
                raise Unsupported("bv abs")
            return self.wrap(z3.If(a >= 0, a, -a), d)
        if self.floatmode == "R":
            return z3.If(a >= 0, a, -a)
        return z3.fpAbs(a)

    def round(self, a, d):
        """torch.round: half to even."""
        if d in INT_DTYPES:
            return a
        if self.floatmode == "R":
            # RNE : Real -> Int is a total function; its defining axiom is instantiated at each use
            f = z3.Function("RNE", z3.RealSort(), z3.IntSort())
            r = f(a)
            rr = z3.ToReal(r)
            half = z3.RealVal("1/2")
            self.side.append(("fact", z3.And(rr - a <= half, a - rr <= half,
                                             z3.Implies(z3.Or(rr - a == half, a - rr == half), r % 2 == 0))))
            return rr
        return z3.fpRoundToIntegral(z3.RNE(), a)

    def cmp(self, op, a, b, d):
        if d in FLOAT_DTYPES and self.floatmode == "F":
            return {"lt": z3.fpLT, "le": z3.fpLEQ, "gt": z3.fpGT, "ge": z3.fpGEQ, "eq": z3.fpEQ,
                    "ne": lambda x, y: z3.Not(z3.fpEQ(x, y))}[op](a, b)
        if d in INT_DTYPES and self.intmode == "bv":
            bits, signed = INT_DTYPES[d]
            if signed:
                return {"lt": lambda x, y: x < y, "le": lambda x, y: x <= y, "gt": lambda x, y: x > y,
                        "ge": lambda x, y: x >= y, "eq": lambda x, y: x == y, "ne": lambda x, y: x != y}[op](a, b)
            return {"lt": z3.ULT, "le": z3.ULE, "gt": z3.UGT, "ge": z3.UGE, "eq": lambda x, y: x == y,
                    "ne": lambda x, y: x != y}[op](a, b)
        return {"lt": lambda x, y: x < y, "le": lambda x, y: x <= y, "gt": lambda x, y: x > y,
                "ge": lambda x, y: x >= y, "eq": lambda x, y: x == y, "ne": lambda x, y: x != y}[op](a, b)

    def clamp(self, a, lo, hi, d):
        """torch.clamp(a, min=lo, max=hi) = min(max(a, lo), hi); NaN propagates in F."""
        if d in FLOAT_DTYPES and self.floatmode == "F":
            r = a
            if lo is not None:
                r = z3.If(z3.fpLT(r, lo), lo, r)
            if hi is not None:
                r = z3.If(z3.fpGT(r, hi), hi, r)
            return r
        r = a
        if lo is not None:
            r = z3.If(self.cmp("lt", r, lo, d), lo, r)
        if hi is not None:
            r = z3.If(self.cmp("gt", r, hi, d), hi, r)
        return r


def real_to_int_exact(x):
    """If the Real term x is syntactically integer-valued (ToReal(i), integral numerals, If-trees of those),
    return the equal Int term, else None.  Avoids ToInt(ToReal(.)) round trips in the solver."""
    if z3.is_app_of(x, z3.Z3_OP_TO_REAL):
        return x.arg(0)
    if z3.is_rational_value(x):
        if x.denominator_as_long() == 1:
            return z3.IntVal(x.numerator_as_long())
        return None
    if z3.is_app_of(x, z3.Z3_OP_ITE):
        a, b = real_to_int_exact(x.arg(1)), real_to_int_exact(x.arg(2))
        if a is None or b is None:
            return None
        return z3.If(x.arg(0), a, b)
    return None


def rne_int(x):
    """Round-half-to-even of a z3 Real, as a z3 Int."""
    r = z3.ToInt(x)
    frac = x - z3.ToReal(r)
    half = z3.RealVal("1/2")
    return z3.If(frac < half, r, z3.If(frac > half, r + 1, z3.If(r % 2 == 0, r, r + 1)))


# ----------------------------------------------------------------------------------------------
# torch type promotion (the subset quanto uses)

_CAT = {"bool": 0}
for _d in INT_DTYPES:
    _CAT[_d] = 1
for _d in FLOAT_DTYPES:
    _CAT[_d] = 2


def promote_types(a, b):
    if a == b:
        return a
    ca, cb = _CAT[a], _CAT[b]
    if ca != cb:
        return a if ca > cb else b
    if ca == 1:
        ba, sa = INT_DTYPES[a]
        bb, sb = INT_DTYPES[b]
        if sa == sb:
            return a if ba >= bb else b
        # signed/unsigned mix
        s, u = (a, b) if sa else (b, a)
        bs, bu = INT_DTYPES[s][0], INT_DTYPES[u][0]
        if bs > bu:
            return s
        for cand in ("int16", "int32", "int64"):
            if INT_DTYPES[cand][0] > bu:
                return cand
        raise Unsupported(f"promote {a},{b}")
    if ca == 2:
        f8 = ("float8_e4m3fn", "float8_e5m2")
        if a in f8 or b in f8:
            raise Unsupported(f"promotion with float8: {a},{b}")
        order = ["float16", "bfloat16", "float32", "float64"]
        if {a, b} == {"float16", "bfloat16"}:
            return "float32"
        return a if order.index(a) > order.index(b) else b
    return a


def result_type(da, dima, db, dimb):
    """dtype of `a op b`; dim = None for python scalars (da is then 'pyint'/'pyfloat'/'pybool'), 0 for 0-dim tensors."""

    def cat(d):
        if d in ("pyint",):
            return 1
        if d == "pyfloat":
            return 2
        if d == "pybool":
            return 0
        return _CAT[d]

    def prio(dim):
        if dim is None:
            return 0
        return 1 if dim == 0 else 2

    pa, pb = prio(dima), prio(dimb)
    if pa == pb:
        if pa == 0:
            # two python scalars: the wider python kind (bool < int < float); the caller maps it to the default tensor dtype
            if da.startswith("py") and db.startswith("py"):
                return max(da, db, key=cat)
            raise Unsupported("scalar-scalar promotion")
        return promote_types(da, db)
    hi_d, lo_d = (da, db) if pa > pb else (db, da)
    if cat(lo_d) <= cat(hi_d):
        return hi_d
    # lower-priority operand has a higher category
    if lo_d == "pyfloat":
        return "float32"
    if lo_d == "pyint":
        return "int64"
    return lo_d
