"""Check driver: collects obligations of one property, discharges them, replays refutations natively,
applies the known-findings file, writes the evidence file, prints VIOLATION / KNOWN-FINDING / UNDECIDED lines."""
import hashlib
import json
import os
import sys
import time
import traceback

import z3

from . import solve
from .interp import Engine, Infeasible
from .sym import Unsupported

VERIF = os.path.dirname(os.path.dirname(os.path.abspath(__file__)))
REPO = os.environ.get("QVC_REPO", "/repo")   # (QVC_REPO: scratch worktree when trying seeded changes; registered commands never set it)
OUT = os.environ.get("QVC_OUT", VERIF)         # where evidence/ and replays/ are written (scratch runs must not overwrite the committed evidence)
if REPO != "/repo":
    import sys as _sys
    _sys.path.insert(0, REPO)
    os.environ["PYTHONPATH"] = REPO + os.pathsep + os.environ.get("PYTHONPATH", "")


class Obl:
    def __init__(self, name, hyps, goal, level, instance, info, replay, timeout=None, implied_by=None):
        self.timeout = timeout
        self.implied_by = implied_by
        self.name, self.hyps, self.goal, self.level = name, hyps, goal, level
        self.instance, self.info, self.replay = instance, info or {}, replay
        self.result = None
        self.known = None


class Run:
    def __init__(self, pid, tier, seed):
        self.pid, self.tier, self.seed = pid, tier, seed
        self.t0 = time.time()
        self.obls = []
        self.undecided = []
        self.functions = {}
        self.inlined = set()
        self.contract_uses = {}
        self.canaries = []
        self.instances = {}
        self.assumptions = []
        self.trusted = set()
        self.not_decided = []
        self.bounded = []
        self.conformance = []
        self.vacuity = []
        self.violations = []
        self.known_printed = []
        self.notes = []
        self.drops = [
            "doc-strings", "type annotations", "decorators (replaced by their fixed meaning: staticmethod/classmethod/"
            "property binding, registration tables executed concretely, torch.library.impl -> dispatch-key table, "
            "contextmanager -> try/yield/finally)", "autograd ctx plumbing of Function.apply", "__repr__",
        ]
        self.timeout = float(os.environ.get("QVC_TIMEOUT", "60" if tier == "quick" else "300"))
        with open(os.path.join(VERIF, "known_findings.json")) as f:
            self.known = [k for k in json.load(f)["findings"] if k["property"] == pid]

    # ---------------------------------------------------------------- registration
    def engine(self, **kw):
        return Engine(repo=REPO, **kw)

    def under_contract(self, E, key):
        try:
            E.source_hash(key)
            self.functions[key] = dict(E.hashes[key])
        except KeyError:
            self.undecided.append({"obligation": f"locate:{key}", "reason": "function not found in the working tree"})

    def absorb(self, E):
        for k in E.inlined:
            self.inlined.add(k)
            if k not in self.functions:
                try:
                    E.source_hash(k)
                    d = dict(E.hashes[k])
                    d["role"] = "inlined"
                    self.functions[k] = d
                except Exception:
                    pass
        for k, v in E.contract_uses.items():
            self.contract_uses[k] = self.contract_uses.get(k, 0) + v

    def count_instance(self, **dims):
        for k, v in dims.items():
            self.instances.setdefault(k, set()).add(str(v))

    def assume(self, *names):
        self.trusted.update(names)

    def add(self, name, hyps, goal, level="property", instance=None, info=None, replay=None, timeout=None, implied_by=None):
        """level: 'property' (refutation = violation), 'helper' (contract drift), 'side' (undecided if refuted).
        implied_by: names of other obligations that together entail this one (a documented decomposition): if the
        solvers leave this one undecided but discharge all of those, it counts as discharged 'by decomposition'."""
        self.obls.append(Obl(name, list(hyps), goal, level, instance or {}, info, replay, timeout, implied_by))

    def add_smt2(self, name, smt2_text, level="property", instance=None, info=None, timeout=None):
        """An obligation given directly as SMT-LIB text (assert of the NEGATED goal; unsat = discharged), e.g. string lemmas for cvc5."""
        o = Obl(name, [], z3.BoolVal(False), level, instance or {}, info, None, timeout)
        o.smt2 = smt2_text
        self.obls.append(o)

    def add_path_obligations(self, results, prefix, instance=None, level="side", kinds=("assert", "side", "torch-pre", "internal")):
        """Internal obligations met while executing (asserts, divisor-positive, broadcast-compatibility, ...)."""
        for pi, r in enumerate(results):
            for o in r.obligations:
                if o.kind in kinds:
                    self.add(f"{prefix}/path{pi}/{o.name}@{o.loc}", o.hyps, o.goal, level=level, instance=instance,
                             info={"loc": o.loc})

    def undecide(self, name, reason, instance=None):
        self.undecided.append({"obligation": name, "reason": str(reason)[:300], "instance": instance or {}})

    def expect_paths(self, results, name, instance=None, allow_raise=()):
        """Every path must end in return (or a raise of an allowed type). Unsupported -> undecided."""
        ok = True
        for pi, r in enumerate(results):
            if r.outcome == "unsupported":
                self.undecide(name, f"unsupported construct: {r.value}", instance)
                ok = False
            changed = getattr(r, "module_state_changed", None)
            if changed:
                # the explored repository code left something in a module-level container: its next call would depend on this one
                self.add(f"{name}/keeps-no-module-level-state/path{pi}", r.hyps, z3.BoolVal(False), "property", instance or {},
                         {"changed_module_level_containers": [f"{a}::{b}" for a, b in changed]})
        return ok

    # ---------------------------------------------------------------- canaries / vacuity
    def canary(self, name, refuted, detail=""):
        """A deliberately broken variant (in-memory AST mutant) must be refuted."""
        self.canaries.append({"mutant": name, "expected": "refuted", "observed": "refuted" if refuted else "NOT refuted",
                              "detail": detail})

    def vacuity_check(self, name, hyps):
        s = z3.Solver()
        s.set("timeout", 5000)
        for h in hyps:
            s.add(h)
        r = s.check()
        self.vacuity.append({"what": name, "satisfiable": str(r)})
        if r == z3.unsat:
            self.undecide(f"vacuity:{name}", "hypotheses are contradictory: obligation would be vacuous")
        return r != z3.unsat

    # ---------------------------------------------------------------- discharge + report
    def finish(self, replay_fn=None):
        results = solve.discharge([(o.name, o.hyps, o.goal, o.timeout or self.timeout, getattr(o, "smt2", None)) for o in self.obls], timeout_s=self.timeout)
        for o, r in zip(self.obls, results):
            o.result = r
        byname = {o.name: o for o in self.obls}
        for o in self.obls:
            if o.result["verdict"] == "undecided" and o.implied_by:
                parts = [byname.get(n) for n in o.implied_by]
                if all(p is not None and p.result["verdict"] == "discharged" for p in parts):
                    o.result = dict(o.result, verdict="discharged", backend="decomposition")
        by_backend, tsum, tmax = {}, 0.0, 0.0
        for o in self.obls:
            r = o.result
            by_backend[r["backend"] or "none"] = by_backend.get(r["backend"] or "none", 0) + 1
            tsum += r["time"]
            tmax = max(tmax, r["time"])
        refuted = [o for o in self.obls if o.result["verdict"] == "refuted"]
        for o in self.obls:
            if o.result["verdict"] == "undecided":
                self.undecide(o.name, "solver: " + "; ".join(f"{b}:{v}({why})" for b, v, t, why in o.result["log"]), o.instance)
        lines = []
        for o in refuted:
            if o.level == "side":
                self.undecide(o.name, "side obligation not discharged (model or contract too weak); not a property-level refutation", o.instance)
                continue
            if o.level == "helper":
                # the summary of a callee no longer describes its body: every property-level proof that used the summary is void.
                # (Re-proving with the body inlined is not implemented: the run is UNDECIDED, never silently green.)
                lines.append(f"CONTRACT-DRIFT function={o.info.get('function', o.name)} obligation={o.name}")
                self.notes.append(f"helper contract refuted: {o.name}")
                self.undecide(o.name, f"helper contract of {o.info.get('function', '?')} refuted: the property-level obligations proved through it are not established", o.instance)
                continue
            self._violation(o, replay_fn, lines)
        bad_canaries = [c for c in self.canaries if c["observed"] != "refuted"]
        for c in bad_canaries:
            self.undecide(f"canary:{c['mutant']}", "a must-fail mutant was not refuted: engine or contract too weak")
        for l in lines:
            print(l)
        for u in self.undecided:
            print(f"UNDECIDED property={self.pid} obligation={u['obligation']} reason={u['reason'][:160]}")
        self.write_evidence(by_backend, tsum, tmax)
        nviol = len(self.violations)
        print(f"[{self.pid}] obligations={len(self.obls)} discharged={sum(1 for o in self.obls if o.result['verdict']=='discharged')} "
              f"refuted={len(refuted)} undecided={len(self.undecided)} violations={nviol} known={len(self.known_printed)} "
              f"solver_time={tsum:.1f}s wall={time.time()-self.t0:.1f}s")
        return 1 if nviol else 0

    def oracle_sanity(self):
        import re
        seen, bad = {}, 0
        for o in self.obls:
            if o.replay is None:
                continue
            key = (re.sub(r"/path\d+", "", o.name), json.dumps(o.instance, sort_keys=True, default=str))
            if key in seen:
                continue
            found, err = run_forked(lambda: o.replay({}, self.seed), timeout=300)
            seen[key] = found
            known = any(k.get("status") == "open" and o.name.startswith(k["obligation"]) for k in self.known)
            if err:
                print(f"ORACLE-ERROR {o.name}: {str(err)[:200]}")
            if found is not None and not known:
                bad += 1
                print(f"ORACLE-FAILS-ON-THIS-TREE {o.name} -> {str(found)[:260]}")
        print(f"[{self.pid}] oracle sanity: {len(seen)} distinct oracle calls, {bad} report a failing input without a known finding")
        return 1 if bad else 0

    def _violation(self, o, replay_fn, lines):
        os.makedirs(os.path.join(OUT, "replays"), exist_ok=True)
        h = hashlib.sha256((o.name + json.dumps(o.instance, sort_keys=True, default=str)).encode()).hexdigest()[:10]
        path = os.path.join(OUT, "replays", f"{self.pid}-{h}.json")
        rec = {"property": self.pid, "obligation": o.name, "instance": o.instance, "info": o.info,
               "solver": o.result["log"], "model": o.result["model"], "seed": self.seed, "tier": self.tier}
        found = None
        fn = None
        if o.replay is not None:
            fn = lambda: o.replay(o.result["model"] or {}, self.seed)
        elif replay_fn is not None:
            fn = lambda: replay_fn(o, o.result["model"] or {}, self.seed)
        if fn is not None:
            # one native replay per (obligation family, instance): paths of one instance share the oracle, unless it replays the solver's model
            import re as _re
            key = (_re.sub(r"/path\d+", "", o.name), json.dumps(o.instance, sort_keys=True, default=str))
            memo = self.__dict__.setdefault("_replay_memo", {})
            if key in memo and memo[key][0] is not None:
                found, err = memo[key]
            else:
                found, err = run_forked(fn, timeout=300)
                memo[key] = (found, err)
            if err:
                rec["replay_error"] = err  # a crash / failure of the replay harness is not a violation by itself
        rec["native_failing_input"] = found
        # known findings: an entry matches by obligation name prefix and (optional) instance predicate
        for k in self.known:
            if k.get("status") != "open":
                continue
            if o.name.startswith(k["obligation"]) and all(str(o.instance.get(a)) == str(b) for a, b in k.get("case", {}).items()):
                msg = f"KNOWN-FINDING: property={self.pid} {k['what']}"
                if msg not in self.known_printed:
                    self.known_printed.append(msg)
                    lines.append(msg)
                rec["known_finding"] = k["id"]
                o.known = k["id"]
                with open(path, "w") as f:
                    json.dump(rec, f, indent=1, default=str)
                return
        with open(path, "w") as f:
            json.dump(rec, f, indent=1, default=str)
        self.violations.append({"obligation": o.name, "replay": path, "reproduced": found is not None})
        suffix = "" if found is not None else " no-failing-input-found"
        lines.append(f"VIOLATION property={self.pid} replay={path}{suffix}")

    def write_evidence(self, by_backend, tsum, tmax):
        # obligations matched by an open known finding are the carved-out, genuinely failing cases: they are reported
        # under known_findings / known_finding_obligations and are not part of the proof claim
        kf = [o for o in self.obls if getattr(o, "known", None)]
        n = len(self.obls) - len(kf)
        disch = sum(1 for o in self.obls if o.result["verdict"] == "discharged")
        # obligations restricted away by a known finding count as not discharged; level drops to 'other'
        known_refuted = sum(1 for o in self.obls if o.result["verdict"] == "refuted")
        proof = (n > 0 and disch == n and not self.undecided)
        samples = []
        for o in self.obls[:: max(1, n // 8)][:10]:
            samples.append({"obligation": o.name, "level": o.level, "instance": o.instance, "hypotheses": len(o.hyps),
                            "goal": str(o.goal)[:300], "verdict": o.result["verdict"], "backend": o.result["backend"],
                            "time_s": round(o.result["time"], 3)})
        slowest = sorted(self.obls, key=lambda o: -o.result["time"])[:12]
        cov = {
            "obligations": n, "discharged": disch,
            "known_finding_obligations": [{"obligation": o.name, "finding": o.known} for o in kf],
            "slowest": [{"obligation": o.name, "time_s": round(o.result["time"], 2), "backend": o.result["backend"],
                         "verdict": o.result["verdict"]} for o in slowest],
            "checker_cmd": " ".join(sys.argv),
            "trusted_base": sorted(self.trusted),
            "functions_under_contract": self.functions,
            "instances": {k: sorted(v) for k, v in self.instances.items()},
            "by_backend": by_backend, "solver_time_s": {"sum": round(tsum, 2), "max": round(tmax, 2)},
            "samples": samples, "canaries": self.canaries, "conformance": self.conformance, "vacuity": self.vacuity,
            "bounded_standins": self.bounded, "known_findings": self.known_printed, "not_decided": self.not_decided,
            "undecided": self.undecided, "refuted": [o.name for o in self.obls if o.result["verdict"] == "refuted"],
            "extraction_drops": self.drops, "contract_uses_at_call_sites": self.contract_uses, "notes": self.notes,
            "evaluations": n, "distinct_nontrivial": len({o.name for o in self.obls if len(o.hyps) > 0}),
            "rule": "one evaluation = one proof obligation sent to a solver; non-trivial = has at least one hypothesis "
                    "and was not closed by the simplifier; distinct = distinct obligation name x instance",
        }
        if not proof:
            cov["explanation"] = (
                "contract-based deductive verification with undischarged parts: "
                f"{disch}/{n} obligations discharged; {len(self.undecided)} undecided; "
                f"{known_refuted} refuted (known findings / violations, see 'refuted'). "
                "Level is 'other' because a proof-level claim requires every obligation discharged.")
        ev = {"property_id": self.pid, "tier": self.tier, "seed": self.seed, "level": "proof" if proof else "other",
              "coverage": cov, "assumptions": self.assumptions, "wall_s": round(time.time() - self.t0, 2),
              "violations": len(self.violations)}
        os.makedirs(os.path.join(OUT, "evidence"), exist_ok=True)
        with open(os.path.join(OUT, "evidence", f"{self.pid}.json"), "w") as f:
            json.dump(ev, f, indent=1, default=str)


def run_forked(fn, timeout=300):
    """Run a native replay in a forked child (native code may crash or hang): returns (result, error-or-None)."""
    import pickle
    import select
    import signal

    rfd, wfd = os.pipe()
    pid = os.fork()
    if pid == 0:
        os.close(rfd)
        try:
            out = (fn(), None)
        except BaseException:
            out = (None, traceback.format_exc()[-1500:])
        try:
            with os.fdopen(wfd, "wb") as f:
                pickle.dump(out, f)
        finally:
            os._exit(0)
    os.close(wfd)
    data = b""
    deadline = time.time() + timeout
    with os.fdopen(rfd, "rb") as f:
        while time.time() < deadline:
            r, _, _ = select.select([f], [], [], 1.0)
            if r:
                chunk = os.read(f.fileno(), 1 << 16)
                if not chunk:
                    break
                data += chunk
    try:
        os.kill(pid, signal.SIGKILL)
    except ProcessLookupError:
        pass
    try:
        _, status = os.waitpid(pid, 0)
    except ChildProcessError:
        status = 0
    if data:
        try:
            return pickle.loads(data)
        except Exception:
            pass
    return None, f"replay process died or timed out (wait status {status})"


def main(argv=None):
    import argparse
    import importlib

    ap = argparse.ArgumentParser()
    ap.add_argument("pid")
    ap.add_argument("--tier", default=os.environ.get("VERIF_TIER", "quick"))
    ap.add_argument("--replay", default=None)
    ap.add_argument("--oracle-sanity", action="store_true",
                    help="developer mode: run the native replay oracle of every obligation on the current tree; an oracle that reports a failing "
                         "input for an obligation that is NOT refuted (and not a known finding) is too strict and would mis-attribute failures")
    a = ap.parse_args(argv)
    seed = int(os.environ.get("VERIF_SEED", "0"))
    sys.path.insert(0, VERIF)
    mod = importlib.import_module(f"props.{a.pid}")
    if a.replay:
        return mod.replay_file(a.replay)
    run = Run(a.pid, a.tier, seed)
    try:
        mod.build(run)
        if a.oracle_sanity:
            return run.oracle_sanity()
        return run.finish(getattr(mod, "replay", None))
    except Exception:
        traceback.print_exc()
        print(f"[{a.pid}] internal checker error (exit 3); no verdict")
        return 3
