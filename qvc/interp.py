"""qvc symbolic executor: path-sensitive forward execution of the Python AST of the real /repo sources.

Exploration is by *decision replay*: a function is executed from scratch once per path; at each
symbolic branch the recorded decision prefix is followed, new decision points push the alternative.
"""
import ast
import hashlib
import os

import z3

from . import sym
from .sym import Unsupported, concrete_bool, concrete_int, is_sym
from .values import (AtenOp, BoundMethod, Builtin, ClassVal, Closure, Device, DType, ExcVal, ExtClass, Namespace, Obj,
                     Opaque, Partial, STensor, Token)

MAX_UNROLL = 40
MAX_PATHS = 400


class ReturnEx(Exception):
    def __init__(self, value):
        self.value = value


class RaiseEx(Exception):
    def __init__(self, exc, node=None):
        self.exc = exc
        self.node = node


class BreakEx(Exception):
    pass


class ContinueEx(Exception):
    pass


class Infeasible(Exception):
    """The current path became infeasible (contradictory assumption)."""


class Env:
    def __init__(self, parent=None, vars=None, globals_env=None):
        self.parent = parent
        self.vars = vars if vars is not None else {}
        self.globals_env = globals_env or (parent.globals_env if parent else self)
        self.global_names = set()

    def lookup(self, name):
        e = self
        while e is not None:
            if name in e.vars:
                return e.vars[name]
            e = e.parent
        raise KeyError(name)

    def has(self, name):
        e = self
        while e is not None:
            if name in e.vars:
                return True
            e = e.parent
        return False

    def set(self, name, value):
        if name in self.global_names:
            self.globals_env.vars[name] = value
        else:
            self.vars[name] = value


class ModuleVal:
    def __init__(self, relpath, env, tree, source):
        self.relpath = relpath
        self.env = env
        self.tree = tree
        self.source = source
        self.skipped = []  # top-level statements the loader could not execute

    def __repr__(self):
        return f"<module {self.relpath}>"


class Frame:
    def __init__(self, closure, env, cls=None, selfval=None):
        self.closure = closure
        self.env = env
        self.cls = cls
        self.selfval = selfval
        self.yield_cb = None


class Obligation:
    def __init__(self, name, goal, hyps, kind="internal", loc=None, info=None):
        self.name = name
        self.goal = goal
        self.hyps = list(hyps)
        self.kind = kind
        self.loc = loc
        self.info = info or {}


class PathResult:
    def __init__(self, outcome, value, pc, facts, obligations, writes, decisions, side, log, ps=None):
        self.ps = ps if ps is not None else {}
        self.outcome = outcome  # 'return' | 'raise' | 'unsupported'
        self.value = value
        self.pc = pc
        self.facts = facts
        self.obligations = obligations
        self.writes = writes
        self.decisions = decisions
        self.side = side
        self.log = log

    @property
    def hyps(self):
        return list(self.pc) + list(self.facts)


class SuperProxy:
    def __init__(self, cls, selfval):
        self.cls = cls
        self.selfval = selfval


class NativeMethod:
    def __init__(self, obj, name):
        self.obj = obj
        self.name = name


class GenCM:
    """@contextmanager-decorated generator function, called."""

    def __init__(self, closure, args, kwargs):
        self.closure = closure
        self.args = args
        self.kwargs = kwargs


class Engine:
    def __init__(self, repo="/repo", intmode="int", floatmode="R", use_contracts=True, contracts=None):
        self.repo = repo
        self.alg = sym.Algebra(intmode, floatmode)
        self.modules = {}
        self.use_contracts = use_contracts
        self.contracts = contracts if contracts is not None else {}
        self.ext_modules = {}
        self.hashes = {}  # function key -> sha256 of source segment
        self.inlined = set()
        self.contract_uses = {}
        self.frames = []
        self.oplib = {}  # (lib, name, key) -> callable value (torch.library.impl registrations)
        self.opdefs = {}
        self.models = {}  # overrides for external names, e.g. 'torch.ops.quanto_ext.unpack'
        self.reset_path([])
        from . import torchmodel

        torchmodel.install(self)

    # ------------------------------------------------------------------ path state
    def reset_path(self, decisions):
        self.pc = []
        self.facts = []
        self.obls = []
        self.writes = []
        self.decisions = list(decisions)
        self.dpos = 0
        self.pending = []
        self.log = []
        self.alg.side = []
        self.side_seen = 0
        self.fresh_counter = 0
        self.frames = []
        self.ps = {}

    def hyps(self):
        return list(self.pc) + list(self.facts)

    def assume(self, f):
        f = sym.to_z3_bool(f)
        c = concrete_bool(f)
        if c is True:
            return
        if c is False:
            raise Infeasible()
        self.facts.append(f)

    def _absorb_side(self):
        # undefined-cast range facts are assumptions (they constrain an uninterpreted function)
        while self.side_seen < len(self.alg.side):
            kind, f = self.alg.side[self.side_seen]
            self.side_seen += 1
            if kind in ("undef-cast-range", "fact"):
                self.facts.append(f)
            else:
                self.oblige(f"side:{kind}", f, kind="side")

    def focus(self, r):
        """Make path result r the current path again (its reductions / groups / touched log), e.g. before property
        code evaluates element terms of r's values."""
        self.ps = r.ps
        self.ps["touched"] = []
        self.ps["lazy_facts"] = []
        self.side_seen = len(self.alg.side)

    def drain(self):
        """Facts (definitional axioms of RNE / undefined casts) produced by element evaluations done *after*
        a path ended, e.g. by property code building its goals.  Side obligations produced there are dropped:
        property code states its own goals."""
        out = []
        while self.side_seen < len(self.alg.side):
            kind, f = self.alg.side[self.side_seen]
            self.side_seen += 1
            if kind in ("undef-cast-range", "fact"):
                out.append(f)
        return out

    def oblige(self, name, goal, kind="internal", node=None, info=None):
        goal = sym.to_z3_bool(goal)
        if concrete_bool(goal) is True:
            self.obls.append(Obligation(name, z3.BoolVal(True), [], kind, self.loc(node), info))
            return
        self.obls.append(Obligation(name, goal, self.hyps(), kind, self.loc(node), info))

    def loc(self, node=None):
        if self.frames and node is not None and hasattr(node, "lineno"):
            return f"{self.frames[-1].closure.file}:{node.lineno}"
        if self.frames:
            return self.frames[-1].closure.file
        return None

    def fresh_name(self, prefix):
        self.fresh_counter += 1
        return f"{prefix}#{self.fresh_counter}"

    def feasible(self, cond):
        s = z3.Solver()
        s.set("timeout", 3000)
        for h in self.hyps():
            s.add(h)
        s.add(cond)
        r = s.check()
        return r != z3.unsat

    def branch(self, cond):
        """Decide a symbolic boolean: follow the decision prefix or open a new decision point."""
        self._absorb_side()
        c = concrete_bool(cond)
        if c is not None:
            return c
        cond = z3.simplify(cond)
        if self.dpos < len(self.decisions):
            d = self.decisions[self.dpos]
            self.dpos += 1
        else:
            ft = self.feasible(cond)
            ff = self.feasible(z3.Not(cond))
            if ft and ff:
                self.pending.append(self.decisions[: self.dpos] + [False])
                d = True
            elif ft:
                d = True
            elif ff:
                d = False
            else:
                raise Infeasible()
            self.decisions.append(d)
            self.dpos += 1
        self.pc.append(cond if d else z3.Not(cond))
        return d

    # ------------------------------------------------------------------ module loading
    def load_module(self, relpath):
        relpath = os.path.normpath(relpath)
        if relpath in self.modules:
            return self.modules[relpath]
        path = os.path.join(self.repo, relpath)
        with open(path) as f:
            source = f.read()
        tree = ast.parse(source)
        env = Env()
        env.vars["__name__"] = relpath[:-3].replace("/", ".")
        env.vars["__file__"] = path
        mod = ModuleVal(relpath, env, tree, source)
        self.modules[relpath] = mod
        fr = Frame(Closure(tree, env, "<module>", relpath), env)
        self.frames.append(fr)
        saved = (self.pc, self.facts, self.decisions, self.dpos)
        try:
            for st in tree.body:
                try:
                    self.exec_stmt(st, env)
                except Unsupported as u:
                    mod.skipped.append((getattr(st, "lineno", 0), str(u)))
                except RaiseEx as r:
                    mod.skipped.append((getattr(st, "lineno", 0), f"raised {r.exc}"))
        finally:
            self.frames.pop()
        return mod

    def resolve_import(self, relpath_from, module, level):
        """Return a ModuleVal / Namespace for an import statement found in file relpath_from."""
        if level == 0:
            top = module.split(".")[0]
            if top == "optimum":
                return self._load_dotted("/".join(module.split(".")))
            return self.ext_module(module)
        base = os.path.dirname(relpath_from)
        for _ in range(level - 1):
            base = os.path.dirname(base)
        parts = module.split(".") if module else []
        return self._load_dotted(os.path.join(base, *parts) if parts else base)

    def _load_dotted(self, p):
        if os.path.isdir(os.path.join(self.repo, p)):
            return self.load_module(os.path.join(p, "__init__.py"))
        return self.load_module(p + ".py")

    def ext_module(self, dotted):
        parts = dotted.split(".")
        if parts[0] not in self.ext_modules:
            self.ext_modules[parts[0]] = Namespace(parts[0])
        ns = self.ext_modules[parts[0]]
        for i, p in enumerate(parts[1:]):
            nxt = ns.get(p) if isinstance(ns, Namespace) else None
            if isinstance(nxt, Opaque):
                nxt = Namespace(".".join(parts[: i + 2]))
                ns.entries[p] = nxt
            ns = nxt
        return ns

    def get(self, key):
        """'path/to/file.py::Class.method' -> value."""
        relpath, qual = key.split("::")
        mod = self.load_module(relpath)
        parts = qual.split(".")
        v = mod.env.lookup(parts[0]) if mod.env.has(parts[0]) else self._find_def(mod, parts[0])
        for p in parts[1:]:
            if isinstance(v, ClassVal):
                v = v.ns[p]
            elif isinstance(v, Closure):
                v = self._nested_def(v, p)
            else:
                raise KeyError(key)
        return v

    def _find_def(self, mod, name):
        # a decorated function whose name was rebound (e.g. to None by a registering decorator)
        for st in mod.tree.body:
            if isinstance(st, (ast.FunctionDef, ast.ClassDef)) and st.name == name:
                return Closure(st, mod.env, name, mod.relpath)
        raise KeyError(name)

    def _nested_def(self, clo, name):
        for st in ast.walk(clo.node):
            if isinstance(st, ast.FunctionDef) and st.name == name and st is not clo.node:
                return Closure(st, clo.env, clo.qualname + "." + name, clo.file)
        raise KeyError(name)

    def find_function_node(self, relpath, qual):
        """AST node of a (possibly decorated / rebound) function, by qualified name, from the file on disk."""
        mod = self.load_module(relpath)
        parts = qual.split(".")
        body = mod.tree.body
        node = None
        for p in parts:
            found = None
            for st in body:
                if isinstance(st, (ast.FunctionDef, ast.ClassDef)) and st.name == p:
                    found = st
                    break
            if found is None:
                # nested function somewhere below
                for st in ast.walk(node) if node is not None else []:
                    if isinstance(st, ast.FunctionDef) and st.name == p and st is not node:
                        found = st
                        break
            if found is None:
                raise KeyError(f"{relpath}::{qual}")
            node = found
            body = found.body
        return mod, node

    def closure_for(self, key):
        relpath, qual = key.split("::")
        mod, node = self.find_function_node(relpath, qual)
        parts = qual.split(".")
        cls = None
        if len(parts) > 1 and mod.env.has(parts[0]) and isinstance(mod.env.lookup(parts[0]), ClassVal):
            cls = mod.env.lookup(parts[0])
            v = cls.ns.get(parts[1])
            if isinstance(v, Closure) and len(parts) == 2:
                return v
        kind = "function"
        for d in getattr(node, "decorator_list", []):
            if isinstance(d, ast.Name) and d.id in ("staticmethod", "classmethod", "property"):
                kind = d.id
        return Closure(node, mod.env, qual, relpath, cls=cls, kind=kind)

    def source_hash(self, key):
        relpath, qual = key.split("::")
        mod, node = self.find_function_node(relpath, qual)
        seg = ast.get_source_segment(mod.source, node) or ""
        h = hashlib.sha256(seg.encode()).hexdigest()
        self.hashes[key] = {"sha256": h, "line": node.lineno, "file": relpath, "lines": (node.end_lineno - node.lineno + 1)}
        return h

    def snippet(self, src, relmod=None, extra=None, name="driver"):
        """A driver function written in Python source, interpreted like repository code (used to compose calls)."""
        tree = ast.parse(src)
        fd = tree.body[0]
        env = Env(parent=self.load_module(relmod).env if relmod else None)
        env.vars.update(extra or {})
        return Closure(fd, env, name, "<driver>")

    def choice(self, name):
        """Non-deterministic boolean (e.g. 'the extension fails to build'): both outcomes are explored."""
        return self.branch(z3.Bool(name))

    # ------------------------------------------------------------------ exploration driver
    def explore(self, fn, setup, max_paths=MAX_PATHS, name=None):
        """Run `fn` on the arguments built by setup(E) along every feasible path.

        setup(E) -> (args, kwargs); it may call E.assume(...).  Returns list[PathResult]."""
        results = []
        work = [[]]
        n = 0
        while work:
            decisions = work.pop()
            n += 1
            if n > max_paths:
                raise Unsupported(f"more than {max_paths} paths in {name or fn}")
            self.reset_path(decisions)
            outcome, value = None, None
            mstate0 = self._module_containers()
            try:
                args, kwargs = setup(self)
                value = self.call(fn, list(args), dict(kwargs))
                self._absorb_side()
                outcome = "return"
            except RaiseEx as r:
                self._absorb_side()
                outcome, value = "raise", r.exc
            except Infeasible:
                outcome = "infeasible"
            except Unsupported as u:
                outcome, value = "unsupported", u
            except ReturnEx as r:  # pragma: no cover
                outcome, value = "return", r.value
            work.extend(self.pending)
            if outcome == "infeasible":
                continue
            results.append(PathResult(outcome, value, list(self.pc), list(self.facts), list(self.obls),
                                      list(self.writes), list(self.decisions), list(self.alg.side), list(self.log), self.ps))
            mstate1 = self._module_containers()
            results[-1].module_state_changed = sorted(k for k in mstate0 if k in mstate1 and mstate0[k] != mstate1[k])
        return results

    def _module_containers(self):
        """Size and keys of every module-level dict / list / set of the repository modules loaded so far (history-freedom checks)."""
        out = {}
        for rel, mod in list(self.modules.items()):
            for k, v in list(mod.env.vars.items()):
                if isinstance(v, dict):
                    out[(rel, k)] = ("dict", len(v), tuple(sorted(repr(x)[:50] for x in v.keys())))
                elif isinstance(v, (list, set)):
                    out[(rel, k)] = (type(v).__name__, len(v))
        return out

    # ------------------------------------------------------------------ calls
    def call(self, fn, args, kwargs=None, node=None):
        kwargs = kwargs or {}
        if isinstance(fn, Closure):
            return self.call_closure(fn, args, kwargs, node=node)
        if isinstance(fn, BoundMethod):
            return self.call(fn.func, [fn.selfval] + list(args), kwargs, node=node)
        if isinstance(fn, Partial):
            kw = dict(fn.kwargs)
            kw.update(kwargs)
            return self.call(fn.func, fn.args + list(args), kw, node=node)
        if isinstance(fn, Builtin):
            try:
                return fn.fn(self, *args, **kwargs) if fn.wants_engine else fn.fn(*args, **kwargs)
            except (AttributeError, TypeError, KeyError, IndexError) as e:
                # a model function met a value it does not cover (e.g. an opaque library object): undecided, never a crash or a verdict
                import traceback
                where = traceback.extract_tb(e.__traceback__)[-1]
                raise Unsupported(f"model of {fn.name} does not cover its arguments ({type(e).__name__}: {e} at {where.filename.split('/')[-1]}:{where.lineno})", node)
        if isinstance(fn, AtenOp):
            from . import torchmodel

            return torchmodel.call_aten(self, fn, args, kwargs)
        if isinstance(fn, ClassVal):
            return self.instantiate(fn, args, kwargs, node=node)
        if isinstance(fn, ExtClass):
            ctor, _ = fn.lookup("__construct__")
            if ctor is None:
                raise Unsupported(f"constructing external class {fn.name}")
            return ctor.fn(self, fn, *args, **kwargs)
        if isinstance(fn, NativeMethod):
            try:
                return getattr(fn.obj, fn.name)(*args, **kwargs)
            except (RaiseEx, Unsupported):
                raise
            except z3.Z3Exception as e:
                raise Unsupported(f"native method {fn.name} on symbolic value: {e}")
            except KeyError as e:
                raise RaiseEx(ExcVal(self.exc_class("KeyError"), [str(e)]), node)
            except ValueError as e:
                raise RaiseEx(ExcVal(self.exc_class("ValueError"), [str(e)]), node)
            except IndexError as e:
                raise RaiseEx(ExcVal(self.exc_class("IndexError"), [str(e)]), node)
        if isinstance(fn, Obj):
            m, _ = fn.cls.lookup("__call__")
            if m is not None:
                return self.call(m, [fn] + list(args), kwargs, node=node)
        if isinstance(fn, Opaque):
            if fn.path in self.models:
                return self.call(self.models[fn.path], args, kwargs, node=node)
            raise Unsupported(f"call of unmodelled external {fn.path}")
        if isinstance(fn, (list, tuple, dict, str, int)) or fn is None or isinstance(fn, STensor):
            raise RaiseEx(ExcVal(self.exc_class("TypeError"), [f"'{type(fn).__name__}' object is not callable"]), node)
        raise Unsupported(f"call of {fn!r}")

    def exc_class(self, name):
        return self.ext_modules["builtins"].entries[name]

    def call_closure(self, clo, args, kwargs, node=None):
        key = clo.key
        if self.use_contracts and key in self.contracts and not getattr(self, "_in_contract_target", None) == key:
            self.contract_uses[key] = self.contract_uses.get(key, 0) + 1
            return self.contracts[key](self, args, kwargs)
        if isinstance(clo.node, ast.Lambda):
            env = Env(parent=clo.env)
            self.bind_params(clo, clo.node.args, args, kwargs, env)
            fr = Frame(clo, env, cls=clo.cls)
            self.frames.append(fr)
            try:
                return self.eval(clo.node.body, env)
            finally:
                self.frames.pop()
        if clo.attrs.get("contextmanager"):
            return GenCM(clo, args, kwargs)
        self.inlined.add(key)
        env = Env(parent=clo.env)
        self.bind_params(clo, clo.node.args, args, kwargs, env)
        fr = Frame(clo, env, cls=clo.cls, selfval=args[0] if args else None)
        if len(self.frames) > 60:
            raise RaiseEx(ExcVal(self.exc_class("RecursionError"), ["maximum recursion depth exceeded"]), node)
        self.frames.append(fr)
        try:
            self.exec_block(clo.node.body, env)
            return None
        except ReturnEx as r:
            return r.value
        finally:
            self.frames.pop()

    def bind_params(self, clo, a, args, kwargs, env):
        args = list(args)
        kwargs = dict(kwargs)
        posparams = list(a.posonlyargs) + list(a.args)
        defaults = list(a.defaults)
        ndef = len(defaults)
        npos = len(posparams)
        for i, p in enumerate(posparams):
            if i < len(args):
                if p.arg in kwargs:
                    raise RaiseEx(ExcVal(self.exc_class("TypeError"), [f"multiple values for argument '{p.arg}'"]))
                env.vars[p.arg] = args[i]
            elif p.arg in kwargs:
                env.vars[p.arg] = kwargs.pop(p.arg)
            elif i >= npos - ndef:
                env.vars[p.arg] = self.eval(defaults[i - (npos - ndef)], clo.env)
            else:
                raise RaiseEx(ExcVal(self.exc_class("TypeError"), [f"{clo.qualname}() missing argument '{p.arg}'"]))
        extra = args[npos:]
        if a.vararg is not None:
            env.vars[a.vararg.arg] = tuple(extra)
        elif extra:
            raise RaiseEx(ExcVal(self.exc_class("TypeError"),
                                 [f"{clo.qualname}() takes {npos} positional arguments but {len(args)} were given"]))
        for p, d in zip(a.kwonlyargs, a.kw_defaults):
            if p.arg in kwargs:
                env.vars[p.arg] = kwargs.pop(p.arg)
            elif d is not None:
                env.vars[p.arg] = self.eval(d, clo.env)
            else:
                raise RaiseEx(ExcVal(self.exc_class("TypeError"), [f"missing keyword-only argument '{p.arg}'"]))
        if a.kwarg is not None:
            env.vars[a.kwarg.arg] = kwargs
        elif kwargs:
            raise RaiseEx(ExcVal(self.exc_class("TypeError"),
                                 [f"{clo.qualname}() got an unexpected keyword argument '{next(iter(kwargs))}'"]))

    def instantiate(self, cls, args, kwargs, node=None):
        new, owner = cls.lookup("__new__")
        if new is not None and isinstance(new, Closure):
            obj = self.call(new, [cls] + list(args), kwargs, node=node)
        elif new is not None and isinstance(new, Builtin):
            obj = new.fn(self, cls, *args, **kwargs)
        else:
            obj = Obj(cls)
        if isinstance(obj, Obj) and obj.cls is cls or (isinstance(obj, Obj) and isinstance(obj.cls, ClassVal) and obj.cls.is_subclass_of(cls)):
            init, _ = cls.lookup("__init__")
            if init is not None:
                if isinstance(init, Closure):
                    self.call(init, [obj] + list(args), kwargs, node=node)
                elif isinstance(init, Builtin):
                    init.fn(self, obj, *args, **kwargs)
        return obj

    # ------------------------------------------------------------------ statements
    def exec_block(self, stmts, env):
        for st in stmts:
            self.exec_stmt(st, env)

    def exec_stmt(self, st, env):
        m = getattr(self, "st_" + type(st).__name__, None)
        if m is None:
            raise Unsupported(f"statement {type(st).__name__}", st)
        return m(st, env)

    def st_Expr(self, st, env):
        if isinstance(st.value, ast.Constant):
            return  # doc-string
        if isinstance(st.value, ast.Yield):
            fr = self.frames[-1]
            if fr.yield_cb is None:
                raise Unsupported("yield outside @contextmanager", st)
            cb = fr.yield_cb
            fr.yield_cb = None  # a context manager yields once
            cb()
            return
        self.eval(st.value, env)

    def st_Pass(self, st, env):
        return

    def st_Global(self, st, env):
        env.global_names.update(st.names)

    def st_Import(self, st, env):
        fr = self.frames[-1]
        for al in st.names:
            if al.name.split(".")[0] == "optimum":
                mod = self.resolve_import(fr.closure.file, al.name, 0)
            else:
                mod = self.ext_module(al.name if al.asname else al.name.split(".")[0])
            env.set(al.asname or al.name.split(".")[0], mod)

    def st_ImportFrom(self, st, env):
        fr = self.frames[-1]
        mod = self.resolve_import(fr.closure.file, st.module or "", st.level)
        for al in st.names:
            if al.name == "*":
                if isinstance(mod, ModuleVal):
                    for k, v in mod.env.vars.items():
                        if not k.startswith("_"):
                            env.set(k, v)
                continue
            if isinstance(mod, ModuleVal):
                if mod.env.has(al.name):
                    v = mod.env.lookup(al.name)
                else:
                    # a sub-module?
                    sub = os.path.join(os.path.dirname(mod.relpath), al.name)
                    if os.path.exists(os.path.join(self.repo, sub + ".py")) or os.path.isdir(os.path.join(self.repo, sub)):
                        v = self._load_dotted(sub)
                    else:
                        raise Unsupported(f"cannot import {al.name} from {mod.relpath}", st)
            elif isinstance(mod, Namespace):
                v = mod.get(al.name)
            else:
                v = Opaque(f"{st.module}.{al.name}")
            env.set(al.asname or al.name, v)

    def st_FunctionDef(self, st, env):
        fr = self.frames[-1]
        if fr.closure.qualname == "<module>":
            qual = st.name
        else:
            qual = fr.closure.qualname + "." + st.name
        clo = Closure(st, env, qual, fr.closure.file, cls=fr.cls)
        v = clo
        for d in reversed(st.decorator_list):
            v = self.apply_decorator(d, v, env)
        env.set(st.name, v)

    def apply_decorator(self, d, v, env):
        if isinstance(d, ast.Name) and d.id in ("staticmethod", "classmethod", "property") and isinstance(v, Closure):
            v.kind = d.id
            return v
        if isinstance(d, ast.Name) and d.id == "contextmanager" and isinstance(v, Closure):
            v.attrs["contextmanager"] = True
            return v
        dec = self.eval(d, env)
        if isinstance(dec, Opaque):
            raise Unsupported(f"decorator {dec.path}", d)
        return self.call(dec, [v], {})

    def st_ClassDef(self, st, env):
        fr = self.frames[-1]
        bases = [self.eval(b, env) for b in st.bases]
        for b in bases:
            if not isinstance(b, (ClassVal, ExtClass)):
                raise Unsupported(f"base class {b!r}", st)
        qual = st.name if fr.closure.qualname == "<module>" else fr.closure.qualname + "." + st.name
        cls = ClassVal(st.name, bases, {}, file=fr.closure.file, qualname=qual)
        cenv = Env(parent=env)
        cenv.vars = cls.ns
        cfr = Frame(Closure(st, env, qual, fr.closure.file), cenv, cls=cls)
        self.frames.append(cfr)
        try:
            for s in st.body:
                if isinstance(s, ast.FunctionDef):
                    clo = Closure(s, env, qual + "." + s.name, fr.closure.file, cls=cls)
                    v = clo
                    for d in reversed(s.decorator_list):
                        v = self.apply_decorator(d, v, cenv)
                    cls.ns[s.name] = v
                elif isinstance(s, ast.AnnAssign) and s.value is None:
                    cls.ns.setdefault("__annotations__", []).append(s.target.id)
                else:
                    self.exec_stmt(s, cenv)
        finally:
            self.frames.pop()
        v = cls
        for d in reversed(st.decorator_list):
            v = self.apply_decorator(d, v, env)
        env.set(st.name, v)

    def st_Return(self, st, env):
        raise ReturnEx(self.eval(st.value, env) if st.value is not None else None)

    def st_Raise(self, st, env):
        if st.exc is None:
            raise Unsupported("bare raise", st)
        v = self.eval(st.exc, env)
        if isinstance(v, ExtClass):
            v = ExcVal(v, [])
        if not isinstance(v, ExcVal):
            raise Unsupported(f"raise of {v!r}", st)
        raise RaiseEx(v, st)

    def st_Assert(self, st, env):
        v = self.eval(st.test, env)
        c = self.as_bool_term(v)
        self.oblige("assert", c, kind="assert", node=st)
        cb = concrete_bool(c)
        if cb is False:
            raise RaiseEx(ExcVal(self.exc_class("AssertionError"), []), st)
        if cb is None:
            if not self.branch(c):
                raise RaiseEx(ExcVal(self.exc_class("AssertionError"), []), st)

    def st_Delete(self, st, env):
        for t in st.targets:
            if isinstance(t, ast.Name):
                env.vars.pop(t.id, None)
            elif isinstance(t, ast.Subscript):
                obj = self.eval(t.value, env)
                k = self.eval(t.slice, env)
                del obj[k]
            else:
                raise Unsupported("del target", st)

    def st_Assign(self, st, env):
        v = self.eval(st.value, env)
        for t in st.targets:
            self.assign(t, v, env)

    def st_AnnAssign(self, st, env):
        if st.value is not None:
            self.assign(st.target, self.eval(st.value, env), env)

    def assign(self, t, v, env):
        if isinstance(t, ast.Name):
            env.set(t.id, v)
        elif isinstance(t, (ast.Tuple, ast.List)):
            items = self.iterate(v)
            star = [i for i, e in enumerate(t.elts) if isinstance(e, ast.Starred)]
            if star:
                i = star[0]
                after = len(t.elts) - i - 1
                if len(items) < len(t.elts) - 1:
                    raise RaiseEx(ExcVal(self.exc_class("ValueError"), ["not enough values to unpack"]), t)
                for e, x in zip(t.elts[:i], items[:i]):
                    self.assign(e, x, env)
                self.assign(t.elts[i].value, list(items[i: len(items) - after]), env)
                for e, x in zip(t.elts[i + 1:], items[len(items) - after:]):
                    self.assign(e, x, env)
                return
            if len(items) != len(t.elts):
                raise RaiseEx(ExcVal(self.exc_class("ValueError"),
                                     [f"expected {len(t.elts)} values to unpack, got {len(items)}"]), t)
            for e, x in zip(t.elts, items):
                self.assign(e, x, env)
        elif isinstance(t, ast.Attribute):
            obj = self.eval(t.value, env)
            self.setattr(obj, t.attr, v, node=t)
        elif isinstance(t, ast.Subscript):
            obj = self.eval(t.value, env)
            k = self.eval_index(t.slice, env)
            self.setitem(obj, k, v, node=t)
        else:
            raise Unsupported(f"assignment target {type(t).__name__}", t)

    def st_AugAssign(self, st, env):
        opname = type(st.op).__name__
        if isinstance(st.target, ast.Name):
            cur = env.lookup(st.target.id)
            v = self.eval(st.value, env)
            if isinstance(cur, STensor):
                from . import torchmodel

                torchmodel.inplace_binop(self, opname, cur, None, v, node=st)
                return
            env.set(st.target.id, self.binop(opname, cur, v, st))
            return
        if isinstance(st.target, ast.Subscript):
            obj = self.eval(st.target.value, env)
            k = self.eval_index(st.target.slice, env)
            v = self.eval(st.value, env)
            if isinstance(obj, STensor):
                from . import torchmodel

                torchmodel.inplace_binop(self, opname, obj, k, v, node=st)
                return
            cur = self.getitem(obj, k, st)
            self.setitem(obj, k, self.binop(opname, cur, v, st), node=st)
            return
        if isinstance(st.target, ast.Attribute):
            obj = self.eval(st.target.value, env)
            cur = self.getattr(obj, st.target.attr, st)
            v = self.eval(st.value, env)
            self.setattr(obj, st.target.attr, self.binop(opname, cur, v, st), node=st)
            return
        raise Unsupported("augmented assignment target", st)

    def st_If(self, st, env):
        if self.truth(self.eval(st.test, env)):
            self.exec_block(st.body, env)
        else:
            self.exec_block(st.orelse, env)

    def st_While(self, st, env):
        n = 0
        while True:
            if not self.truth(self.eval(st.test, env)):
                break
            n += 1
            if n > MAX_UNROLL:
                raise Unsupported("while loop exceeds unrolling limit (needs an invariant)", st)
            try:
                self.exec_block(st.body, env)
            except BreakEx:
                return
            except ContinueEx:
                continue
        self.exec_block(st.orelse, env)

    def st_For(self, st, env):
        it = self.eval(st.iter, env)
        if isinstance(it, SymRange):
            i = it.start
            n = 0
            while True:
                cond = (i < it.stop) if it.step > 0 else (i > it.stop)
                if not self.truth(cond):
                    break
                n += 1
                if n > MAX_UNROLL:
                    raise Unsupported("for loop over symbolic range exceeds unrolling limit (needs an invariant)", st)
                self.assign(st.target, i, env)
                try:
                    self.exec_block(st.body, env)
                except BreakEx:
                    return
                except ContinueEx:
                    pass
                i = i + it.step
                ci = concrete_int(i)
                i = ci if ci is not None else i
            self.exec_block(st.orelse, env)
            return
        for x in self.iterate(it):
            self.assign(st.target, x, env)
            try:
                self.exec_block(st.body, env)
            except BreakEx:
                return
            except ContinueEx:
                continue
        self.exec_block(st.orelse, env)

    def st_Break(self, st, env):
        raise BreakEx()

    def st_Continue(self, st, env):
        raise ContinueEx()

    def st_Try(self, st, env):
        try:
            try:
                self.exec_block(st.body, env)
            except RaiseEx as r:
                for h in st.handlers:
                    if h.type is None or self.exc_matches(r.exc, self.eval(h.type, env)):
                        if h.name:
                            env.set(h.name, r.exc)
                        self.exec_block(h.body, env)
                        break
                else:
                    raise
            else:
                self.exec_block(st.orelse, env)
        finally:
            # Python semantics: finalbody runs on every exit (normal, return, raise, break)
            if st.finalbody:
                self._run_finally(st.finalbody, env)

    def _run_finally(self, body, env):
        import sys

        exc = sys.exc_info()[1]
        if isinstance(exc, (Unsupported, Infeasible)):
            return
        self.exec_block(body, env)

    def exc_matches(self, exc, spec):
        if isinstance(spec, tuple):
            return any(self.exc_matches(exc, s) for s in spec)
        if isinstance(spec, ExtClass):
            return exc.cls.is_subclass_of(spec)
        raise Unsupported(f"except clause {spec!r}")

    def st_With(self, st, env):
        self._with(st, 0, env)

    def _with(self, st, i, env):
        if i == len(st.items):
            self.exec_block(st.body, env)
            return
        item = st.items[i]
        cm = self.eval(item.context_expr, env)
        if isinstance(cm, GenCM):
            if item.optional_vars is not None:
                raise Unsupported("with ... as x on a generator context manager", st)
            clo = cm.closure
            genv = Env(parent=clo.env)
            self.bind_params(clo, clo.node.args, cm.args, cm.kwargs, genv)
            fr = Frame(clo, genv, cls=clo.cls)
            outer_frames = list(self.frames)

            def body_cb():
                saved = self.frames
                self.frames = outer_frames
                try:
                    self._with(st, i + 1, env)
                except ReturnEx as r:
                    r._from_body = True
                    raise
                finally:
                    self.frames = saved

            fr.yield_cb = body_cb
            self.frames.append(fr)
            try:
                try:
                    self.exec_block(clo.node.body, genv)
                except ReturnEx as r:
                    if getattr(r, "_from_body", False):
                        raise  # a return statement of the with-body passing through the generator's finally
                    if fr.yield_cb is not None:
                        raise Unsupported("context manager returned before yielding", st)
                    # a return of the generator itself after the yield: its value is ignored
            finally:
                self.frames.pop()
            return
        if isinstance(cm, Obj):
            enter, _ = cm.cls.lookup("__enter__")
            exit_, _ = cm.cls.lookup("__exit__")
            if enter is None or exit_ is None:
                raise Unsupported(f"with on {cm!r}", st)
            v = self.call(enter, [cm], {})
            if item.optional_vars is not None:
                self.assign(item.optional_vars, v, env)
            try:
                self._with(st, i + 1, env)
            except RaiseEx as r:
                sup = self.call(exit_, [cm, r.exc.cls, r.exc, None], {})
                if self.truth(sup):
                    return
                raise
            except (ReturnEx, BreakEx, ContinueEx):
                self.call(exit_, [cm, None, None, None], {})
                raise
            else:
                self.call(exit_, [cm, None, None, None], {})
            return
        if isinstance(cm, Token) and cm.path.startswith("cm:"):
            if cm.path == "cm:DisableTorchFunctionSubclass":
                old = self.ps.get("tf_disabled")
                self.ps["tf_disabled"] = True
                try:
                    self._with(st, i + 1, env)
                finally:
                    self.ps["tf_disabled"] = old
                return
            if cm.path in ("cm:no_grad", "cm:enable_grad"):
                old = self.ps.get("grad_enabled", True)
                self.ps["grad_enabled"] = (cm.path == "cm:enable_grad")
                try:
                    self._with(st, i + 1, env)
                finally:
                    self.ps["grad_enabled"] = old
                return
            self._with(st, i + 1, env)
            return
        raise Unsupported(f"with on {cm!r}", st)

    # ------------------------------------------------------------------ expressions
    def eval(self, node, env):
        m = getattr(self, "ex_" + type(node).__name__, None)
        if m is None:
            raise Unsupported(f"expression {type(node).__name__}", node)
        return m(node, env)

    def ex_Constant(self, node, env):
        return node.value

    def ex_Name(self, node, env):
        try:
            return env.lookup(node.id)
        except KeyError:
            pass
        if node.id == "__class__":
            for fr in reversed(self.frames):
                if fr.cls is not None:
                    return fr.cls
        b = self.ext_modules["builtins"]
        if node.id in b.entries:
            return b.entries[node.id]
        raise RaiseEx(ExcVal(self.exc_class("NameError"), [f"name '{node.id}' is not defined"]), node)

    def ex_Tuple(self, node, env):
        return tuple(self._elts(node.elts, env))

    def ex_List(self, node, env):
        return list(self._elts(node.elts, env))

    def _elts(self, elts, env):
        out = []
        for e in elts:
            if isinstance(e, ast.Starred):
                out.extend(self.iterate(self.eval(e.value, env)))
            else:
                out.append(self.eval(e, env))
        return out

    def ex_Dict(self, node, env):
        d = {}
        for k, v in zip(node.keys, node.values):
            if k is None:
                d.update(self.eval(v, env))
            else:
                d[self.eval(k, env)] = self.eval(v, env)
        return d

    def ex_Set(self, node, env):
        return set(self._elts(node.elts, env))

    def ex_JoinedStr(self, node, env):
        parts = []
        for v in node.values:
            if isinstance(v, ast.Constant):
                parts.append(str(v.value))
            else:
                try:
                    x = self.eval(v.value, env)
                    parts.append(self.to_str(x))
                except Unsupported:
                    parts.append("<?>")
        return "".join(parts)

    def to_str(self, x):
        if is_sym(x):
            c = concrete_int(x)
            return str(c) if c is not None else f"<{x}>"
        if isinstance(x, (STensor, Obj)):
            return repr(x)
        if isinstance(x, tuple):
            if any(is_sym(e) for e in x):
                cs = [concrete_int(e) if is_sym(e) else e for e in x]
                if any(c is None for c in cs):
                    return "<symbolic tuple>"
                x = tuple(cs)
            return str(x)
        return str(x)

    def ex_Lambda(self, node, env):
        fr = self.frames[-1]
        return Closure(node, env, fr.closure.qualname + ".<lambda>", fr.closure.file, cls=fr.cls)

    def ex_IfExp(self, node, env):
        if self.truth(self.eval(node.test, env)):
            return self.eval(node.body, env)
        return self.eval(node.orelse, env)

    def ex_BoolOp(self, node, env):
        """Python semantics: `a and b` / `a or b` return one of the operand VALUES; symbolic truth values are decided by
        branching (the decision is recorded in the path condition)."""
        is_and = isinstance(node.op, ast.And)
        v = None
        for e in node.values:
            v = self.eval(e, env)
            t = self.truth(v)
            if is_and and not t:
                return False if (is_sym(v) and z3.is_bool(v)) else v
            if not is_and and t:
                return True if (is_sym(v) and z3.is_bool(v)) else v
        if is_sym(v) and z3.is_bool(v):
            return True if is_and else False
        return v

    def ex_UnaryOp(self, node, env):
        v = self.eval(node.operand, env)
        if isinstance(node.op, ast.Not):
            if is_sym(v) and z3.is_bool(v):
                return z3.Not(v)
            return not self.truth(v)
        if isinstance(node.op, ast.USub):
            if isinstance(v, STensor):
                from . import torchmodel

                return torchmodel.unary(self, "neg", v)
            return -v
        if isinstance(node.op, ast.UAdd):
            return v
        if isinstance(node.op, ast.Invert):
            return ~v
        raise Unsupported("unary op", node)

    def ex_BinOp(self, node, env):
        a = self.eval(node.left, env)
        b = self.eval(node.right, env)
        return self.binop(type(node.op).__name__, a, b, node)

    def binop(self, opname, a, b, node=None):
        from . import torchmodel

        if isinstance(a, (STensor, Obj)) or isinstance(b, (STensor, Obj)):
            return torchmodel.py_binop(self, opname, a, b, node)
        if opname == "Add":
            if isinstance(a, (list, tuple, str)) or isinstance(b, (list, tuple, str)):
                try:
                    return a + b
                except TypeError as e:
                    raise RaiseEx(ExcVal(self.exc_class("TypeError"), [str(e)]), node)
            return self._arith(a, b, lambda x, y: x + y)
        if opname == "Sub":
            return self._arith(a, b, lambda x, y: x - y)
        if opname == "Mult":
            if isinstance(a, (list, tuple, str)) or isinstance(b, (list, tuple, str)):
                return a * b
            return self._arith(a, b, lambda x, y: x * y)
        if opname == "FloorDiv":
            return self.floordiv(a, b, node)
        if opname == "Mod":
            if isinstance(a, str):
                return a % b
            return self.mod(a, b, node)
        if opname == "Div":
            if not is_sym(a) and not is_sym(b):
                if b == 0:
                    raise RaiseEx(ExcVal(self.exc_class("ZeroDivisionError"), ["division by zero"]), node)
                return a / b
            a2 = z3.ToReal(a) if is_sym(a) and z3.is_int(a) else (a if is_sym(a) else z3.RealVal(a))
            b2 = z3.ToReal(b) if is_sym(b) and z3.is_int(b) else (b if is_sym(b) else z3.RealVal(b))
            self.oblige("side:div-nonzero", b2 != 0, kind="side", node=node)
            return a2 / b2
        if opname == "Pow":
            if not is_sym(a) and not is_sym(b):
                return a**b
            raise Unsupported("symbolic power", node)
        if opname in ("LShift", "RShift", "BitAnd", "BitOr", "BitXor"):
            if not is_sym(a) and not is_sym(b):
                return {"LShift": lambda x, y: x << y, "RShift": lambda x, y: x >> y, "BitAnd": lambda x, y: x & y,
                        "BitOr": lambda x, y: x | y, "BitXor": lambda x, y: x ^ y}[opname](a, b)
            raise Unsupported("symbolic python bit op", node)
        raise Unsupported(f"binary op {opname}", node)

    def _arith(self, a, b, f):
        if isinstance(a, bool):
            a = int(a)
        if isinstance(b, bool):
            b = int(b)
        try:
            r = f(a, b)
        except TypeError as e:
            raise RaiseEx(ExcVal(self.exc_class("TypeError"), [str(e)]))
        if is_sym(r):
            c = concrete_int(r)
            if c is not None and z3.is_int(r):
                return c
        return r

    def floordiv(self, a, b, node=None):
        if not is_sym(a) and not is_sym(b):
            if b == 0:
                raise RaiseEx(ExcVal(self.exc_class("ZeroDivisionError"), ["integer division or modulo by zero"]), node)
            return a // b
        a, b = sym.to_z3_int(a), sym.to_z3_int(b)
        cb = concrete_int(b)
        if cb is None or cb <= 0:
            # Python floor division == SMT div only for a positive divisor: make that an obligation
            self.oblige("side:divisor-positive", b > 0, kind="side", node=node)
        from .mono import exact_div

        r = exact_div(a, b)
        if r is not None:
            return r
        return a / b

    def mod(self, a, b, node=None):
        if not is_sym(a) and not is_sym(b):
            if b == 0:
                raise RaiseEx(ExcVal(self.exc_class("ZeroDivisionError"), ["integer division or modulo by zero"]), node)
            return a % b
        a, b = sym.to_z3_int(a), sym.to_z3_int(b)
        cb = concrete_int(b)
        if cb is None or cb <= 0:
            self.oblige("side:divisor-positive", b > 0, kind="side", node=node)
        from .mono import exact_div

        if exact_div(a, b) is not None:
            return 0
        return a % b

    def ex_Compare(self, node, env):
        left = self.eval(node.left, env)
        result = None
        for op, rn in zip(node.ops, node.comparators):
            right = self.eval(rn, env)
            r = self.compare(type(op).__name__, left, right, node)
            if result is None:
                result = r
            else:
                result = self._and(result, r)
            left = right
        return result

    def _and(self, a, b):
        if not is_sym(a) and not is_sym(b):
            return a and b
        return z3.And(sym.to_z3_bool(a), sym.to_z3_bool(b))

    def compare(self, op, a, b, node=None):
        from . import torchmodel

        if op == "Is":
            return self.identical(a, b)
        if op == "IsNot":
            r = self.identical(a, b)
            return z3.Not(r) if is_sym(r) else not r
        if op == "In":
            return self.contains(b, a, node)
        if op == "NotIn":
            r = self.contains(b, a, node)
            return z3.Not(r) if is_sym(r) else not r
        if op == "Eq":
            return self.eq(a, b)
        if op == "NotEq":
            r = self.eq(a, b)
            return z3.Not(r) if is_sym(r) else not r
        if isinstance(a, (STensor, Obj)) or isinstance(b, (STensor, Obj)):
            return torchmodel.py_binop(self, op, a, b, node)
        if isinstance(a, tuple) and isinstance(b, tuple) and op in ("Lt", "LtE", "Gt", "GtE"):
            if any(is_sym(x) for x in a + b):
                raise Unsupported("ordering of symbolic tuples", node)
        f = {"Lt": lambda x, y: x < y, "LtE": lambda x, y: x <= y, "Gt": lambda x, y: x > y, "GtE": lambda x, y: x >= y}[op]
        try:
            if isinstance(a, bool):
                a = int(a)
            if isinstance(b, bool):
                b = int(b)
            return f(a, b)
        except TypeError as e:
            raise RaiseEx(ExcVal(self.exc_class("TypeError"), [str(e)]), node)

    def identical(self, a, b):
        if a is None or b is None:
            if is_sym(a) or is_sym(b):
                return False
            return a is b
        if isinstance(a, bool) and isinstance(b, bool):
            return a == b
        if is_sym(a) and isinstance(b, bool):
            return a if b else z3.Not(a)
        if is_sym(b) and isinstance(a, bool):
            return b if a else z3.Not(b)
        if isinstance(a, int) and isinstance(b, int):
            return a == b
        return a is b

    def eq(self, a, b):
        if is_sym(a) or is_sym(b):
            if a is None or b is None:
                return False
            if isinstance(a, (int, float, bool)) or isinstance(b, (int, float, bool)) or (is_sym(a) and is_sym(b)):
                if isinstance(a, bool) and z3.is_bool(b):
                    return b if a else z3.Not(b)
                if isinstance(b, bool) and z3.is_bool(a):
                    return a if b else z3.Not(a)
                if isinstance(a, bool):
                    a = int(a)
                if isinstance(b, bool):
                    b = int(b)
                r = a == b
                c = concrete_bool(r)
                return c if c is not None else r
            return False
        if isinstance(a, (tuple, list)) and isinstance(b, (tuple, list)):
            if type(a) is not type(b) and not (isinstance(a, tuple) and isinstance(b, tuple)):
                # torch.Size is a tuple; list == tuple is False in Python
                if isinstance(a, list) != isinstance(b, list):
                    return False
            if len(a) != len(b):
                return False
            r = True
            for x, y in zip(a, b):
                e = self.eq(x, y)
                if e is False:
                    return False
                r = self._and(r, e)
            return r
        if isinstance(a, (STensor,)) or isinstance(b, (STensor,)):
            from . import torchmodel

            return torchmodel.py_binop(self, "Eq", a, b, None)
        if isinstance(a, Obj) and isinstance(b, Obj):
            m, _ = a.cls.lookup("__eq__")
            if m is not None:
                return self.call(m, [a, b], {})
            if a.cls.ns.get("__dataclass__"):
                return a is b or all(self.eq(a.fields[k], b.fields[k]) is True for k in a.cls.ns["__fields__"]) if a.cls is b.cls else False
            return a is b
        if isinstance(a, (Obj, ClassVal, ExtClass, DType, Device, Token, AtenOp, Closure, Builtin, Opaque)) or isinstance(
            b, (Obj, ClassVal, ExtClass, DType, Device, Token, AtenOp, Closure, Builtin, Opaque)
        ):
            if isinstance(a, Device) and isinstance(b, Device):
                return a == b
            return a is b
        try:
            return a == b
        except Exception:
            return False

    def contains(self, container, item, node=None):
        if isinstance(container, (tuple, list, set, frozenset)):
            r = False
            for x in container:
                e = self.eq(x, item)
                if e is True:
                    return True
                if e is not False:
                    r = e if r is False else z3.Or(r, e)
            return r
        if isinstance(container, dict):
            if is_sym(item):
                raise Unsupported("symbolic key lookup", node)
            try:
                return item in container
            except TypeError:
                return any(k is item for k in container)
        if isinstance(container, str):
            return item in container
        if isinstance(container, Obj):
            m, _ = container.cls.lookup("__contains__")
            if m is not None:
                return self.call(m, [container, item], {})
        raise Unsupported(f"'in' on {container!r}", node)

    def truth(self, v):
        if isinstance(v, bool):
            return v
        if v is None:
            return False
        if is_sym(v):
            if z3.is_bool(v):
                return self.branch(v)
            if z3.is_int(v) or z3.is_real(v):
                return self.branch(v != 0)
            raise Unsupported(f"truth of {v.sort()}")
        if isinstance(v, (int, float, str, list, tuple, dict, set)):
            return bool(v)
        if isinstance(v, STensor):
            from . import torchmodel

            return torchmodel.tensor_truth(self, v)
        if isinstance(v, Obj):
            m, _ = v.cls.lookup("__bool__")
            if m is not None:
                return self.truth(self.call(m, [v], {}))
            m, _ = v.cls.lookup("__len__")
            if m is not None:
                return self.truth(self.call(m, [v], {}) != 0)
            return True
        return True

    def as_bool_term(self, v):
        """A z3 Bool (or Python bool) denoting truthiness, without branching where possible."""
        if isinstance(v, bool):
            return v
        if is_sym(v) and z3.is_bool(v):
            return v
        if is_sym(v) and z3.is_int(v):
            return v != 0
        return self.truth(v)

    def ex_Attribute(self, node, env):
        obj = self.eval(node.value, env)
        return self.getattr(obj, node.attr, node)

    def ex_Subscript(self, node, env):
        obj = self.eval(node.value, env)
        k = self.eval_index(node.slice, env)
        return self.getitem(obj, k, node)

    def eval_index(self, node, env):
        if isinstance(node, ast.Slice):
            return slice(
                self.eval(node.lower, env) if node.lower is not None else None,
                self.eval(node.upper, env) if node.upper is not None else None,
                self.eval(node.step, env) if node.step is not None else None,
            )
        if isinstance(node, ast.Tuple):
            return tuple(self.eval_index(e, env) for e in node.elts)
        return self.eval(node, env)

    def ex_Slice(self, node, env):
        return self.eval_index(node, env)

    def ex_Starred(self, node, env):
        raise Unsupported("starred expression", node)

    def ex_Call(self, node, env):
        # zero-argument super()
        if isinstance(node.func, ast.Name) and node.func.id == "super" and not node.args:
            fr = self.frames[-1]
            # find the method frame (comprehension / lambda frames share it)
            for f in reversed(self.frames):
                if f.cls is not None and f.selfval is not None:
                    return SuperProxy(f.cls, f.selfval)
            raise Unsupported("super() outside a method", node)
        fn = self.eval(node.func, env)
        args = []
        for a in node.args:
            if isinstance(a, ast.Starred):
                args.extend(self.iterate(self.eval(a.value, env)))
            else:
                args.append(self.eval(a, env))
        kwargs = {}
        for k in node.keywords:
            if k.arg is None:
                d = self.eval(k.value, env)
                if not isinstance(d, dict):
                    raise Unsupported("** of a non-dict", node)
                kwargs.update(d)
            else:
                kwargs[k.arg] = self.eval(k.value, env)
        return self.call(fn, args, kwargs, node=node)

    def ex_ListComp(self, node, env):
        out = []
        self._comp(node.generators, 0, env, lambda e: out.append(self.eval(node.elt, e)))
        return out

    def ex_GeneratorExp(self, node, env):
        return self.ex_ListComp(node, env)

    def ex_SetComp(self, node, env):
        return set(self.ex_ListComp(node, env))

    def ex_DictComp(self, node, env):
        out = {}

        def add(e):
            out[self.eval(node.key, e)] = self.eval(node.value, e)

        self._comp(node.generators, 0, env, add)
        return out

    def _comp(self, gens, i, env, emit):
        if i == len(gens):
            emit(env)
            return
        g = gens[i]
        it = self.eval(g.iter, env)
        for x in self.iterate(it):
            e2 = Env(parent=env)
            self.assign(g.target, x, e2)
            if all(self.truth(self.eval(c, e2)) for c in g.ifs):
                self._comp(gens, i + 1, e2, emit)

    # ------------------------------------------------------------------ generic object protocol
    def iterate(self, v):
        if isinstance(v, (list, tuple)):
            return list(v)
        if isinstance(v, dict):
            return list(v.keys())
        if isinstance(v, (set, frozenset)):
            return list(v)
        if isinstance(v, str):
            return list(v)
        if isinstance(v, range):
            return list(v)
        if isinstance(v, SymRange):
            n = concrete_int(v.stop)
            s = concrete_int(v.start)
            if n is not None and s is not None:
                return list(range(s, n, v.step))
            raise Unsupported("iteration over a symbolic range outside a for loop")
        if isinstance(v, type({}.keys())) or isinstance(v, type({}.items())) or isinstance(v, type({}.values())):
            return list(v)
        if isinstance(v, (enumerate, zip, map, filter, reversed)) or hasattr(v, "__next__"):
            return list(v)
        if isinstance(v, STensor):
            from . import torchmodel

            return torchmodel.tensor_iter(self, v)
        raise Unsupported(f"iteration over {v!r}")

    def getattr(self, obj, name, node=None):
        from . import torchmodel

        if isinstance(obj, Obj):
            cv, owner = obj.cls.lookup(name)
            if isinstance(cv, Closure) and cv.kind == "property":
                return self.call(cv, [obj], {}, node=node)
            if name in obj.fields:
                return obj.fields[name]
            if cv is not None:
                return self.bind(cv, obj, owner)
            r = torchmodel.ext_getattr(self, obj, name, node)
            if r is not torchmodel.MISSING:
                return r
            if name == "__class__":
                return obj.cls
            if name == "__dict__":
                return obj.fields
            raise RaiseEx(ExcVal(self.exc_class("AttributeError"),
                                 [f"'{obj.cls.name}' object has no attribute '{name}'"]), node)
        if isinstance(obj, STensor):
            return torchmodel.tensor_getattr(self, obj, name, node)
        if isinstance(obj, SuperProxy):
            mro = obj.selfval.cls.mro() if isinstance(obj.selfval, Obj) else obj.selfval.mro()
            i = mro.index(obj.cls)
            for c in mro[i + 1:]:
                if name in c.ns:
                    selfarg = obj.selfval
                    return self.bind(c.ns[name], selfarg, c)
            if name == "__init__":
                return Builtin("object.__init__", lambda E, *a, **k: None)
            raise RaiseEx(ExcVal(self.exc_class("AttributeError"), [f"'super' object has no attribute '{name}'"]), node)
        if isinstance(obj, ClassVal):
            if name == "__name__":
                return obj.name
            if name == "__mro__":
                return tuple(obj.mro())
            cv, owner = obj.lookup(name)
            if cv is None:
                r = torchmodel.ext_class_getattr(self, obj, name, node)
                if r is not torchmodel.MISSING:
                    return r
                raise RaiseEx(ExcVal(self.exc_class("AttributeError"), [f"type object '{obj.name}' has no attribute '{name}'"]), node)
            if isinstance(cv, Closure) and cv.kind == "classmethod":
                return BoundMethod(obj, cv)
            if isinstance(cv, Builtin) and getattr(cv, "kind", None) == "classmethod":
                return BoundMethod(obj, cv)
            return cv
        if isinstance(obj, ExtClass):
            if name == "__name__":
                return obj.name
            for c in obj.mro():
                if name in c.ns:
                    return c.ns[name]
            raise Unsupported(f"attribute {name} of external class {obj.name}", node)
        if isinstance(obj, ModuleVal):
            if obj.env.has(name):
                return obj.env.lookup(name)
            sub = os.path.join(os.path.dirname(obj.relpath), name)
            if obj.relpath.endswith("__init__.py") and (
                os.path.exists(os.path.join(self.repo, sub + ".py")) or os.path.isdir(os.path.join(self.repo, sub))
            ):
                return self._load_dotted(sub)
            raise RaiseEx(ExcVal(self.exc_class("AttributeError"), [f"module has no attribute '{name}'"]), node)
        if isinstance(obj, Namespace):
            full = f"{obj.path}.{name}"
            if full in self.models:
                return self.models[full]
            return obj.get(name)
        if isinstance(obj, Opaque):
            full = f"{obj.path}.{name}"
            if full in self.models:
                return self.models[full]
            return Opaque(full)
        if isinstance(obj, DType):
            if name == "is_floating_point":
                return obj.is_floating_point
            if name == "itemsize":
                return {"float32": 4, "float16": 2, "bfloat16": 2, "int8": 1, "uint8": 1, "int32": 4, "int16": 2,
                        "float8_e4m3fn": 1, "float8_e5m2": 1, "int64": 8}[obj.name]
            raise Unsupported(f"dtype attribute {name}", node)
        if isinstance(obj, Device):
            if name == "type":
                return obj.type
            if name == "index":
                return obj.index
            raise Unsupported(f"device attribute {name}", node)
        if isinstance(obj, Closure):
            if name == "__name__":
                return obj.node.name
            if name in obj.attrs:
                return obj.attrs[name]
            raise Unsupported(f"function attribute {name}", node)
        if isinstance(obj, ExcVal):
            if name == "args":
                return tuple(obj.args)
            raise Unsupported(f"exception attribute {name}", node)
        if isinstance(obj, AtenOp):
            if name == "overloadpacket":
                return obj
            if name == "default":
                return obj
            if name == "__name__":
                return obj.name
            raise Unsupported(f"aten op attribute {name}", node)
        if isinstance(obj, BoundMethod) and name == "__self__":
            return obj.selfval
        from .values import PyNative

        if isinstance(obj, PyNative):
            if hasattr(obj, name):
                v = getattr(obj, name)
                return NativeMethod(obj, name) if callable(v) and not isinstance(v, (Closure, Builtin)) else v
            raise RaiseEx(ExcVal(self.exc_class("AttributeError"), [f"no attribute '{name}'"]), node)
        if isinstance(obj, (list, tuple, dict, str, set, int, float)) and not isinstance(obj, bool):
            if isinstance(obj, tuple) and name in ("numel",):
                from .values import numel_of

                return Builtin("Size.numel", lambda E: numel_of(obj))
            if hasattr(obj, name):
                return NativeMethod(obj, name)
            raise RaiseEx(ExcVal(self.exc_class("AttributeError"),
                                 [f"'{type(obj).__name__}' object has no attribute '{name}'"]), node)
        if obj is None:
            raise RaiseEx(ExcVal(self.exc_class("AttributeError"), [f"'NoneType' object has no attribute '{name}'"]), node)
        if is_sym(obj):
            raise RaiseEx(ExcVal(self.exc_class("AttributeError"), [f"number has no attribute '{name}'"]), node)
        if isinstance(obj, SymRange):
            raise Unsupported("range attribute", node)
        raise Unsupported(f"attribute {name} of {obj!r}", node)

    def bind(self, cv, obj, owner):
        if isinstance(cv, Closure):
            if cv.kind == "staticmethod":
                return cv
            if cv.kind == "classmethod":
                return BoundMethod(obj.cls if isinstance(obj, Obj) else obj, cv)
            if cv.kind == "property":
                return self.call(cv, [obj], {})
            return BoundMethod(obj, cv)
        if isinstance(cv, Builtin):
            k = getattr(cv, "kind", "method")
            if k == "static":
                return cv
            if k == "classmethod":
                return BoundMethod(obj.cls if isinstance(obj, Obj) else obj, cv)
            if k == "property":
                return cv.fn(self, obj)
            return BoundMethod(obj, cv)
        return cv

    def setattr(self, obj, name, v, node=None):
        if isinstance(obj, Obj):
            from . import torchmodel

            if torchmodel.ext_setattr(self, obj, name, v, node):
                return
            self.writes.append(("attr", obj, name, v, self.loc(node)))
            obj.fields[name] = v
            return
        if isinstance(obj, STensor):
            self.writes.append(("tensor-attr", obj, name, v, self.loc(node)))
            obj.attrs[name] = v
            return
        if isinstance(obj, ClassVal):
            obj.ns[name] = v
            return
        if isinstance(obj, ModuleVal):
            self.writes.append(("global", obj, name, v, self.loc(node)))
            obj.env.vars[name] = v
            return
        if isinstance(obj, Closure):
            obj.attrs[name] = v
            return
        raise Unsupported(f"attribute store on {obj!r}", node)

    def getitem(self, obj, k, node=None):
        from . import torchmodel

        if isinstance(obj, STensor):
            return torchmodel.tensor_getitem(self, obj, k, node)
        if isinstance(obj, (list, tuple, str)):
            if isinstance(k, slice):
                if any(is_sym(x) for x in (k.start, k.stop, k.step)):
                    raise Unsupported("symbolic slice of a python sequence", node)
                return obj[k]
            if is_sym(k):
                ck = concrete_int(k)
                if ck is None:
                    raise Unsupported("symbolic index into a python sequence", node)
                k = ck
            try:
                return obj[k]
            except IndexError:
                raise RaiseEx(ExcVal(self.exc_class("IndexError"), ["index out of range"]), node)
            except TypeError as e:
                raise RaiseEx(ExcVal(self.exc_class("TypeError"), [str(e)]), node)
        if isinstance(obj, dict):
            if is_sym(k):
                raise Unsupported("symbolic dict key", node)
            try:
                return obj[k]
            except KeyError:
                raise RaiseEx(ExcVal(self.exc_class("KeyError"), [k]), node)
            except TypeError:
                for kk, vv in obj.items():
                    if kk is k:
                        return vv
                raise RaiseEx(ExcVal(self.exc_class("KeyError"), [k]), node)
        if isinstance(obj, Obj):
            m, _ = obj.cls.lookup("__getitem__") if isinstance(obj.cls, ClassVal) else (None, None)
            if m is not None:
                return self.call(m, [obj, k], {})
            return torchmodel.py_getitem(self, obj, k, node)
        raise Unsupported(f"subscript of {obj!r}", node)

    def setitem(self, obj, k, v, node=None):
        from . import torchmodel

        if isinstance(obj, STensor):
            return torchmodel.tensor_setitem(self, obj, k, v, node)
        if isinstance(obj, (list, dict)):
            if is_sym(k):
                raise Unsupported("symbolic key store", node)
            try:
                obj[k] = v
            except TypeError:
                raise Unsupported("unhashable key", node)
            return
        raise Unsupported(f"subscript store on {obj!r}", node)


class SymRange:
    def __init__(self, start, stop, step=1):
        self.start, self.stop, self.step = start, stop, step
