"""Helpers shared by the property files."""
import os

import z3

from . import sym
from .sym import is_sym
from .values import Builtin, ExcVal, Obj, STensor, ExtClass


def zi(x):
    return sym.to_z3_int(x)


def idx_vars(prefix, shape):
    """Fresh index constants for `shape` and the in-bounds condition."""
    ids = [z3.Int(f"{prefix}{k}") for k in range(len(shape))]
    inb = [z3.And(i >= 0, i < zi(d)) for i, d in zip(ids, shape)]
    return ids, inb


def dims(prefix, rank, lo=1):
    ds = [z3.Int(f"{prefix}{k}") for k in range(rank)]
    return ds, [d >= lo for d in ds]


def touched_facts(E, pred):
    """Instantiate a universally quantified hypothesis about input tensors at every index read so far.

    pred(name, idx) -> z3 Bool or None."""
    out = []
    seen = set()
    for (name, rank, idx) in list(E.ps.get("touched", [])):
        key = (name, tuple(str(i) for i in idx))
        if key in seen:
            continue
        seen.add(key)
        f = pred(name, idx)
        if f is not None:
            out.append(f)
    return out


def shape_eq(a, b):
    if len(a) != len(b):
        return z3.BoolVal(False)
    return z3.And(*[zi(x) == zi(y) for x, y in zip(a, b)]) if a else z3.BoolVal(True)


def install_os_model(E):
    E.models["os.path.dirname"] = Builtin("os.path.dirname", lambda E2, p: os.path.dirname(p))
    E.models["os.path.join"] = Builtin("os.path.join", lambda E2, *p: os.path.join(*p))


def exc_name(v):
    return v.tname if isinstance(v, ExcVal) else str(v)


def parse_fp(txt, ebits, sbits):
    """A float from a solver model value: cvc5 '(fp #b0 #b00000 #b0111010000)' or z3 '1.5*(2**3)' / '-0.0' / '+oo' / 'NaN'."""
    import math
    import re

    txt = txt.strip()
    m = re.search(r"\(fp #b([01]) #b([01]+) #b([01]+)\)", txt)
    if m:
        sgn, e, f = int(m.group(1)), int(m.group(2), 2), int(m.group(3), 2)
        bias = (1 << (ebits - 1)) - 1
        fb = sbits - 1
        if e == (1 << ebits) - 1:
            v = math.inf if f == 0 else math.nan
        elif e == 0:
            v = f * 2.0 ** (1 - bias - fb)
        else:
            v = (1 + f / (1 << fb)) * 2.0 ** (e - bias)
        return -v if sgn else v
    if "NaN" in txt:
        return math.nan
    if "oo" in txt:
        return -math.inf if txt.startswith("-") else math.inf
    t = txt.replace("**", "^")
    m = re.fullmatch(r"([+-]?[0-9.]+)(?:\*\(2\^(-?\d+)\))?", t)
    if m:
        return float(m.group(1)) * (2.0 ** int(m.group(2)) if m.group(2) else 1.0)
    return None


def model_values(model, names, ebits, sbits):
    """Extract float values of constants / constant functions from a z3 dict model or a cvc5 model dump."""
    import re

    out = {}
    if "__cvc5_model__" in model:
        txt = model["__cvc5_model__"]
        for n in names:
            m = re.search(r"\(define-fun " + re.escape(n) + r" \([^)]*(?:\([^)]*\)[^)]*)*\) \(_ FloatingPoint \d+ \d+\) (\(fp [^)]*\)|[^\n]*)\)", txt)
            if m:
                out[n] = parse_fp(m.group(1), ebits, sbits)
        return out
    for n in names:
        if n in model:
            v = model[n]
            mm = re.search(r"else -> ([^\],]+)", v)
            out[n] = parse_fp(mm.group(1) if mm else v, ebits, sbits)
    return out


def mul_mod_hints(ds, G):
    """Instances of the arithmetic lemma `mul_mod_of_mod` (lemmas/Arith.lean): g | b -> g | a*b, for every way of
    splitting numel(ds) into (one dimension) x (product of the others).  True facts of arithmetic handed to the SMT
    solvers as hints because z3/cvc5 do not find them (nonlinear mod)."""
    from .values import numel_of

    out = []
    numel = zi(numel_of(ds))
    for k in range(len(ds)):
        others = [d for j, d in enumerate(ds) if j != k]
        if not others:
            continue
        n = zi(numel_of(others))
        out.append(z3.Implies(z3.And(G > 0, n % G == 0), z3.And(numel % G == 0, numel / G == zi(ds[k]) * (n / G), (n / G) * G == n)))
    return out


def lean_lemmas(run, names):
    """Lean/Mathlib lemmas used as hints: compiled in the thorough tier (an obligation discharged by `lean`), listed as
    assumptions in the quick tier."""
    import os
    import subprocess
    import time

    path = os.path.join(os.path.dirname(os.path.dirname(os.path.abspath(__file__))), "lemmas", "Arith.lean")
    if run.tier != "thorough":
        run.assumptions.append("arithmetic lemmas " + ", ".join(names) + " (lemmas/Arith.lean, Lean 4 + Mathlib): compiled in the thorough tier only")
        return
    t0 = time.time()
    p = subprocess.run(["lean", path], capture_output=True, text=True, cwd=os.path.dirname(path))
    ok = p.returncode == 0 and "error" not in p.stdout
    run.add("lean:lemmas/Arith.lean(" + ",".join(names) + ")", [], z3.BoolVal(ok), "side", {"backend": "lean", "time_s": round(time.time() - t0, 1)},
            {"stdout": p.stdout[-500:]})


def flat_unflat_hints(ids, dims):
    """Instances of lemmas/Arith.lean flat_div / flat_mod for the row-major flattening of in-bounds indices ids over dims:
    with f_t = (...(i0*d1 + i1)*d2 + ...) + i_t :   f_t / d_t == f_{t-1}   and   f_t % d_t == i_t."""
    out = []
    acc = zi(ids[0])
    for t in range(1, len(ids)):
        nxt = acc * zi(dims[t]) + zi(ids[t])
        out.append(z3.And(nxt / zi(dims[t]) == acc, nxt % zi(dims[t]) == zi(ids[t])))
        acc = nxt
    return out


def module_containers(E, relpath):
    """Snapshot of the mutable module-level containers (dict / list / set) of an interpreted repository module: their length and keys.
    Used for 'keeps no state between calls' frame obligations (a result must not depend on the history of earlier calls)."""
    out = {}
    env = E.load_module(relpath).env
    for k, v in env.vars.items():
        if isinstance(v, dict):
            out[k] = ("dict", len(v), tuple(sorted(repr(x)[:60] for x in v.keys())))
        elif isinstance(v, (list, set)):
            out[k] = (type(v).__name__, len(v), ())
    return out
