"""Helpers shared by the property files."""
import os

import z3

from . import sym
from .sym import is_sym
from .values import Builtin, ExcVal, Obj, STensor, ExtClass


def zi(x):
    return sym.to_z3_int(x)


def idx_vars(prefix, shape):
    """Fresh index constants for `shape` and the in-bounds condition."""
    ids = [z3.Int(f"{prefix}{k}") for k in range(len(shape))]
    inb = [z3.And(i >= 0, i < zi(d)) for i, d in zip(ids, shape)]
    return ids, inb


def dims(prefix, rank, lo=1):
    ds = [z3.Int(f"{prefix}{k}") for k in range(rank)]
    return ds, [d >= lo for d in ds]


def touched_facts(E, pred):
    """Instantiate a universally quantified hypothesis about input tensors at every index read so far.

    pred(name, idx) -> z3 Bool or None."""
    out = []
    seen = set()
    for (name, rank, idx) in list(E.ps.get("touched", [])):
        key = (name, tuple(str(i) for i in idx))
        if key in seen:
            continue
        seen.add(key)
        f = pred(name, idx)
        if f is not None:
            out.append(f)
    return out


def shape_eq(a, b):
    if len(a) != len(b):
        return z3.BoolVal(False)
    return z3.And(*[zi(x) == zi(y) for x, y in zip(a, b)]) if a else z3.BoolVal(True)


def install_os_model(E):
    E.models["os.path.dirname"] = Builtin("os.path.dirname", lambda E2, p: os.path.dirname(p))
    E.models["os.path.join"] = Builtin("os.path.join", lambda E2, *p: os.path.join(*p))


def exc_name(v):
    return v.tname if isinstance(v, ExcVal) else str(v)
