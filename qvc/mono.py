"""Monomial arithmetic on symbolic dimensions.

Dimension sizes are z3 Int terms that are (products of) positive atoms.  `exact_div(a, b)` returns the
quotient term when b's factors occur among a's factors (then a // b is exact and a % b == 0), else None.
Only sound for POSITIVE atoms; callers guarantee dims >= 1 for the atoms they divide by (the engine
emits the `divisor-positive` side obligation before calling this).
"""
import z3

from .sym import concrete_int, is_sym


def factors(t):
    """Return (coef:int, atoms: list of z3 terms) with t == coef * prod(atoms), flattening z3 products."""
    if not is_sym(t):
        return int(t), []
    t = z3.simplify(t)
    c = concrete_int(t)
    if c is not None:
        return c, []
    if z3.is_app(t) and t.decl().kind() == z3.Z3_OP_MUL:
        coef, atoms = 1, []
        for ch in t.children():
            c2, a2 = factors(ch)
            coef *= c2
            atoms.extend(a2)
        return coef, atoms
    return 1, [t]


def build(coef, atoms):
    if not atoms:
        return coef
    r = atoms[0]
    for a in atoms[1:]:
        r = r * a
    if coef != 1:
        r = z3.IntVal(coef) * r
    return z3.simplify(r)


def exact_div(a, b):
    ca, fa = factors(a)
    cb, fb = factors(b)
    if cb == 0:
        return None
    rest = list(fa)
    for f in fb:
        for i, g in enumerate(rest):
            if z3.eq(f, g):
                del rest[i]
                break
        else:
            return None
    if ca % cb != 0:
        return None
    return build(ca // cb, rest)
