"""Tensor layer of the PyTorch model: creation, point-wise ops, promotion, reductions, methods, aten dispatch."""
import z3

from . import sym
from .sym import Unsupported, concrete_bool, concrete_int, is_sym
from .values import (AtenOp, BoundMethod, Builtin, ClassVal, Closure, Device, DType, ExcVal, ExtClass, Obj, Opaque,
                     STensor, Token, contiguous_strides, numel_of)


def _tm():
    from . import torchmodel

    return torchmodel


def raise_(E, name, msg="", node=None):
    from .interp import RaiseEx

    raise RaiseEx(ExcVal(E.exc_class(name), [msg]), node)


def is_wrapper(o):
    return isinstance(o, Obj) and "_w_size" in o.fields


# ------------------------------------------------------------------------------------------------
# creation


def new_input(E, name, dtype, shape, device="cpu", requires_grad=False, strides=None):
    """Uninterpreted input tensor: elements are applications of a z3 function named after the tensor."""
    srt = E.alg.sort(dtype)
    rank = len(shape)
    if rank == 0:
        c = z3.Const(name, srt)
        if dtype in sym.INT_DTYPES and E.alg.intmode == "int":
            lo0, hi0 = sym.int_range(dtype)
            E.alg.side.append(("fact", z3.And(c >= lo0, c <= hi0)))
        elem = lambda idx: c
    else:
        f = z3.Function(name, *([z3.IntSort()] * rank), srt)

        int_range = sym.int_range(dtype) if (dtype in sym.INT_DTYPES and E.alg.intmode == "int") else None

        def elem(idx, f=f):
            idx2 = [sym.to_z3_int(i) for i in idx]
            E.ps.setdefault("touched", []).append((name, rank, idx2))
            v = f(*idx2)
            if int_range is not None:
                # typing fact: an element of an integer tensor lies in the range of its dtype
                E.alg.side.append(("fact", z3.And(v >= int_range[0], v <= int_range[1])))
            return v

    t = STensor(dtype, shape, elem, device=device, name=name, fresh=False, requires_grad=requires_grad)
    t.strides = tuple(strides) if strides is not None else None
    t.attrs["input_fn"] = name
    if dtype in sym.INT_DTYPES and E.alg.intmode == "int":
        t.attrs["range_fact"] = True
    return t


def elem_range_fact(E, t, idx):
    """For int-mode integer inputs: the element at idx lies in the dtype's range (a typing fact, assumed)."""
    lo, hi = sym.int_range(t.dtype)
    v = t.elem(idx)
    return z3.And(v >= lo, v <= hi)


def full(E, shape, value, dtype, device="cpu"):
    c = scalar_to(E, value, dtype)
    return STensor(dtype, list(shape), lambda idx: c, device=device, fresh=True)


def py_scalar_kind(v):
    if isinstance(v, bool) or (is_sym(v) and z3.is_bool(v)):
        return "pybool"
    if isinstance(v, int) or (is_sym(v) and z3.is_int(v)):
        return "pyint"
    if isinstance(v, float) or (is_sym(v) and z3.is_real(v)):
        return "pyfloat"
    return None


def scalar_to(E, v, dtype):
    """Python scalar (concrete or symbolic) -> scalar term of dtype."""
    alg = E.alg
    if not is_sym(v):
        if dtype in sym.INT_DTYPES and isinstance(v, float):
            v = int(v)
        return alg.const(v, dtype)
    if dtype in sym.FLOAT_DTYPES:
        r = z3.ToReal(v) if z3.is_int(v) else v
        if alg.floatmode == "R":
            return r
        return z3.fpToFP(z3.RNE(), r, alg.fpsort(dtype))
    if dtype in sym.INT_DTYPES:
        if not z3.is_int(v):
            raise Unsupported("symbolic float scalar to int tensor")
        if alg.intmode == "bv":
            return z3.Int2BV(v, sym.INT_DTYPES[dtype][0])
        return alg.wrap(v, dtype)
    raise Unsupported(f"scalar to {dtype}")


# ------------------------------------------------------------------------------------------------
# broadcasting and point-wise application


def same_dim(E, a, b):
    if not is_sym(a) and not is_sym(b):
        return a == b
    a, b = sym.to_z3_int(a), sym.to_z3_int(b)
    if z3.eq(z3.simplify(a), z3.simplify(b)):
        return True
    return None


def prove_quick(E, f, timeout=2000):
    s = z3.Solver()
    s.set("timeout", timeout)
    for h in E.hyps():
        s.add(h)
    s.add(z3.Not(f))
    return s.check() == z3.unsat


def broadcast_shapes(E, shapes, node=None):
    rank = max(len(s) for s in shapes)
    out = []
    maps = [[None] * len(s) for s in shapes]  # per operand, per own-dim: 'same' | 'one' | ('cond', dim)
    for k in range(1, rank + 1):
        dims = [(i, s[-k]) for i, s in enumerate(shapes) if len(s) >= k]
        # choose output dim: first dim that is not concrete 1
        cand = None
        for i, d in dims:
            if concrete_int(d) != 1:
                cand = d
                break
        if cand is None:
            cand = 1
        for i, d in dims:
            own = len(shapes[i]) - k
            cd = concrete_int(d)
            if cd == 1:
                maps[i][own] = "one" if concrete_int(cand) != 1 else "same"
                continue
            sd = same_dim(E, d, cand)
            if sd is True:
                maps[i][own] = "same"
            elif sd is False:
                raise_(E, "RuntimeError", f"The size of tensor a ({d}) must match the size of tensor b ({cand})", node)
            else:
                eqf = sym.to_z3_int(d) == sym.to_z3_int(cand)
                if prove_quick(E, eqf):
                    maps[i][own] = "same"
                else:
                    # broadcast-compatibility obligation: sizes equal, or one of them is 1
                    E.oblige("broadcast-compatible", z3.Or(eqf, sym.to_z3_int(d) == 1, sym.to_z3_int(cand) == 1),
                             kind="torch-pre", node=node)
                    maps[i][own] = ("cond", d)
        out.append(cand)
    out.reverse()
    return out, maps


def operand_index(shape, mp, idx):
    """Index into an operand of `shape` for the broadcast output index idx."""
    off = len(idx) - len(shape)
    res = []
    for j in range(len(shape)):
        m = mp[j]
        i = idx[off + j]
        if m == "same":
            res.append(i)
        elif m == "one":
            res.append(0)
        else:
            res.append(z3.If(sym.to_z3_int(m[1]) == 1, 0, sym.to_z3_int(i)))
    return res


def as_operand(E, x):
    """-> (kind, dtype, dim, shape, elem_fn, device)"""
    if isinstance(x, STensor):
        return ("tensor", x.dtype, len(x.shape), x.shape, x.elem, x.device)
    k = py_scalar_kind(x)
    if k is None:
        raise Unsupported(f"operand {x!r}")
    return ("scalar", k, None, [], None, None)


def pointwise(E, opname, operands, node=None, out_dtype=None, compute_dtype=None, fn=None):
    """Generic broadcasting n-ary point-wise op. operands: STensor or python scalars.

    fn(alg, elems(list of terms in compute dtype), dtype) -> term."""
    infos = [as_operand(E, x) for x in operands]
    tens = [(i, x) for i, x in enumerate(operands) if isinstance(x, STensor)]
    if not tens:
        raise Unsupported("pointwise without tensor")
    devs = {x.device.type for _, x in tens if len(x.shape) > 0}
    if len(devs) > 1:
        raise_(E, "RuntimeError", f"Expected all tensors to be on the same device, found {sorted(devs)}", node)
    device = tens[0][1].device if not devs else [x.device for _, x in tens if len(x.shape) > 0][0]
    if compute_dtype is None:
        d, dim = infos[0][1], infos[0][2]
        for inf in infos[1:]:
            d = sym.result_type(d, dim, inf[1], inf[2])
            dims = [x for x in (dim, inf[2]) if x is not None]
            dim = max(dims) if dims else None
        compute_dtype = d
    shapes = [inf[3] for inf in infos if inf[0] == "tensor"]
    oshape, maps = broadcast_shapes(E, shapes, node)
    res_dtype = out_dtype or compute_dtype
    alg = E.alg
    snaps = [x.snap() if isinstance(x, STensor) else None for x in operands]

    def elem(idx):
        vals = []
        ti = 0
        for x, inf, sf in zip(operands, infos, snaps):
            if inf[0] == "tensor":
                v = sf(operand_index(inf[3], maps[ti], idx))
                ti += 1
                vals.append(alg.cast(v, x.dtype, compute_dtype))
            else:
                vals.append(scalar_to(E, x, compute_dtype))
        return fn(alg, vals, compute_dtype)

    out = STensor(res_dtype, oshape, elem, device=device, fresh=True)
    # memory layout of the result: PyTorch keeps the (permuted / strided) layout of non-contiguous operands; the model does not compute
    # it - only results of all-contiguous operands are known to be contiguous (view() on the others is outside the model)
    if any(len(x.shape) > 1 and (x.strides is not None or x.attrs.get("layout_unknown")) and not x.attrs.get("known_contiguous") for _, x in tens):
        out.attrs["layout_unknown"] = True
    # autograd history (A-TORCH-NN): the result of an op on a tensor that requires grad (or has history) has history, when recording is on
    if E.ps.get("grad_enabled", True) and res_dtype in sym.FLOAT_DTYPES and any((x.requires_grad or x.attrs.get("grad_fn")) for _, x in tens):
        out.attrs["grad_fn"] = True
    return out


_ARITH = {"Add": "add", "Sub": "sub", "Mult": "mul", "Div": "truediv", "FloorDiv": "floordiv", "LShift": "lshift",
          "RShift": "rshift", "BitAnd": "and", "BitOr": "or", "BitXor": "xor"}
_CMP = {"Lt": "lt", "LtE": "le", "Gt": "gt", "GtE": "ge", "Eq": "eq", "NotEq": "ne"}
_PYOP_TO_ATEN = {"Add": "add", "Sub": "sub", "Mult": "mul", "Div": "div", "FloorDiv": "floor_divide", "Lt": "lt",
                 "LtE": "le", "Gt": "gt", "GtE": "ge", "Eq": "eq", "NotEq": "ne", "LShift": "__lshift__",
                 "RShift": "__rshift__", "BitAnd": "bitwise_and", "BitOr": "bitwise_or", "MatMult": "matmul", "Pow": "pow"}


def binary(E, op, a, b, node=None):
    """op in add/sub/mul/truediv/floordiv/lshift/rshift/and/or/xor/lt/le/gt/ge/eq/ne on tensors/scalars."""
    if op in ("lt", "le", "gt", "ge", "eq", "ne"):
        return pointwise(E, op, [a, b], node, out_dtype="bool", fn=lambda alg, v, d: alg.cmp(op, v[0], v[1], d))
    cd = None
    if op == "truediv":
        # true division: integer operands are promoted to the default float dtype
        infos = [as_operand(E, x) for x in (a, b)]
        d = sym.result_type(infos[0][1], infos[0][2], infos[1][1], infos[1][2]) if all(i[0] == "tensor" or True for i in infos) else None
        if d in sym.INT_DTYPES or d in ("pyint", "bool"):
            cd = "float32"
    return pointwise(E, op, [a, b], node, compute_dtype=cd, fn=lambda alg, v, d: alg.binop(op, v[0], v[1], d))


def unary(E, op, a, node=None):
    if op == "neg":
        return pointwise(E, op, [a], node, fn=lambda alg, v, d: alg.neg(v[0], d))
    if op == "abs":
        return pointwise(E, op, [a], node, fn=lambda alg, v, d: alg.abs(v[0], d))
    if op == "round":
        return pointwise(E, op, [a], node, fn=lambda alg, v, d: alg.round(v[0], d))
    if op == "relu":
        def f(alg, v, d):
            zero = alg.const(0, d)
            return z3.If(alg.cmp("gt", v[0], zero, d), v[0], zero) if not (d in sym.FLOAT_DTYPES and alg.floatmode == "F") else \
                z3.If(z3.fpIsNaN(v[0]), v[0], z3.If(z3.fpGT(v[0], zero), v[0], zero))
        return pointwise(E, op, [a], node, fn=f)
    if op == "reciprocal":
        def f(alg, v, d):
            one = alg.const(1, d)
            return alg.binop("truediv", one, v[0], d)
        cd = "float32" if a.dtype in sym.INT_DTYPES else None
        return pointwise(E, op, [a], node, compute_dtype=cd, fn=f)
    raise Unsupported(f"unary {op}")


def clamp(E, a, min=None, max=None, node=None):
    if min is None and max is None:
        raise_(E, "RuntimeError", "torch.clamp: At least one of 'min' or 'max' must not be None", node)
    ops = [a] + [x for x in (min, max) if x is not None]

    def f(alg, v, d):
        lo = v[1] if min is not None else None
        hi = v[-1] if max is not None else None
        return alg.clamp(v[0], lo, hi, d)

    # clamp keeps the tensor's dtype when bounds are python scalars (result_type handles it)
    return pointwise(E, "clamp", ops, node, fn=f)


def where(E, cond, a, b, node=None):
    if not isinstance(cond, STensor) or cond.dtype != "bool":
        raise Unsupported("where with non-bool condition")
    infos = [as_operand(E, x) for x in (a, b)]
    d = sym.result_type(infos[0][1], infos[0][2], infos[1][1], infos[1][2])
    if d.startswith("py"):
        d = {"pyint": "int64", "pyfloat": "float32", "pybool": "bool"}[d]
    tens = [x for x in (cond, a, b) if isinstance(x, STensor)]
    oshape, maps = broadcast_shapes(E, [t.shape for t in tens], node)
    alg = E.alg
    snaps = {id(x): x.snap() for x in tens}

    def elem(idx):
        vals = []
        ti = 0
        for x in (cond, a, b):
            if isinstance(x, STensor):
                v = snaps[id(x)](operand_index(x.shape, maps[ti], idx))
                ti += 1
                vals.append(v if x is cond else alg.cast(v, x.dtype, d))
            else:
                vals.append(scalar_to(E, x, d))
        return z3.If(vals[0], vals[1], vals[2])

    return STensor(d, oshape, elem, device=cond.device, fresh=True)


def to_dtype(E, t, dtype):
    d = dtype.name if isinstance(dtype, DType) else dtype
    if d == t.dtype:
        return t
    alg = E.alg
    tf = t.snap()
    r = STensor(d, t.shape, lambda idx: alg.cast(tf(idx), t.dtype, d), device=t.device, fresh=True)
    r.strides = t.strides
    return r


# ------------------------------------------------------------------------------------------------
# reductions (A-TORCH-RED): specification functions with defining axioms, instantiated explicitly


class RedInfo:
    def __init__(self, kind, src, dims, keepdim, res_fn, wit_fns, name):
        self.kind, self.src, self.dims, self.keepdim = kind, src, dims, keepdim
        self.src_fn = src.snap()
        self.res_fn, self.wit_fns, self.name = res_fn, wit_fns, name

    def kept(self, idx):
        return [i for k, i in enumerate(idx) if k not in self.dims]

    def full(self, kept, red):
        out, ki, ri = [], 0, 0
        for k in range(len(self.src.shape)):
            if k in self.dims:
                out.append(red[ri])
                ri += 1
            else:
                out.append(kept[ki])
                ki += 1
        return out

    def in_bounds(self, idx):
        return z3.And(*[z3.And(sym.to_z3_int(i) >= 0, sym.to_z3_int(i) < sym.to_z3_int(d)) for i, d in zip(idx, self.src.shape)])

    def bound_fact(self, E, idx):
        """src[idx] <= amax[kept(idx)]  (>= for amin), for an in-bounds idx."""
        v = self.src_fn(idx)
        r = self.res_fn(self.kept(idx))
        d = self.src.dtype
        c = E.alg.cmp("le" if self.kind == "amax" else "ge", v, r, d)
        if d in sym.FLOAT_DTYPES and E.alg.floatmode == "F":
            c = z3.Or(c, z3.fpIsNaN(r))
        return z3.Implies(self.in_bounds(idx), c)

    def witness_fact(self, E, kept):
        red = [w(kept) for w in self.wit_fns]
        fidx = self.full(kept, red)
        bounds = z3.And(*[z3.And(r >= 0, r < sym.to_z3_int(self.src.shape[k])) for r, k in zip(red, self.dims)]) if red else z3.BoolVal(True)
        v = self.src_fn(fidx)
        r = self.res_fn(kept)
        d = self.src.dtype
        eq = (v == r) if not (d in sym.FLOAT_DTYPES and E.alg.floatmode == "F") else z3.Or(z3.fpEQ(v, r), z3.And(z3.fpIsNaN(v), z3.fpIsNaN(r)))
        return z3.And(bounds, eq), fidx


def reduce_minmax(E, kind, t, dims, keepdim, node=None):
    rank = len(t.shape)
    if rank == 0:
        # the maximum of a single element is that element
        return STensor(t.dtype, [], t.snap(), device=t.device, fresh=True)
    if dims is None:
        dims = list(range(rank))
    dims = sorted({(d + rank) if d < 0 else d for d in dims})
    if not dims and rank > 0:
        dims = list(range(rank))  # observed: amax(x, dim=[]) reduces over all dimensions
    for d in dims:
        if d >= rank:
            raise_(E, "IndexError", "Dimension out of range", node)
    kept_dims = [k for k in range(rank) if k not in dims]
    if getattr(E, "concrete_reductions", False) and all(concrete_int(d) is not None if is_sym(d) else True for d in t.shape):
        return _explicit_minmax(E, kind, t, dims, keepdim, kept_dims)
    # hash-consing: a reduction of the same kind over the same dims of a tensor with syntactically the same element function is
    # the same function of the kept indices (congruence) - it reuses the earlier uninterpreted symbol and its witnesses
    key = _reduction_key(E, kind, t, dims)
    memo = E.ps.setdefault("reduction_memo", {})
    if key is not None and key in memo:
        info = memo[key]
        res_fn = info.res_fn
        if keepdim:
            oshape = [1 if k in dims else s_ for k, s_ in enumerate(t.shape)]
            elem = lambda idx: res_fn([i for k, i in enumerate(idx) if k not in dims])
        else:
            oshape = [s_ for k, s_ in enumerate(t.shape) if k not in dims]
            elem = lambda idx: res_fn(list(idx))
        r = STensor(t.dtype, oshape, elem, device=t.device, fresh=True)
        r.attrs["reduction"] = info
        if E.ps.get("grad_enabled", True) and (t.requires_grad or t.attrs.get("grad_fn")):
            r.attrs["grad_fn"] = True
        return r
    n = E.fresh_name(f"{kind}_{t.name}")
    srt = E.alg.sort(t.dtype)
    if kept_dims:
        f = z3.Function(n, *([z3.IntSort()] * len(kept_dims)), srt)
        res_fn = lambda kept: f(*[sym.to_z3_int(i) for i in kept])
    else:
        c = z3.Const(n, srt)
        res_fn = lambda kept: c
    wit_fns = []
    for j, d in enumerate(dims):
        if kept_dims:
            wf = z3.Function(f"{n}_w{j}", *([z3.IntSort()] * len(kept_dims)), z3.IntSort())
            wit_fns.append(lambda kept, wf=wf: wf(*[sym.to_z3_int(i) for i in kept]))
        else:
            wc = z3.Int(f"{n}_w{j}")
            wit_fns.append(lambda kept, wc=wc: wc)
    info = RedInfo(kind, t, dims, keepdim, res_fn, wit_fns, n)
    E.ps.setdefault("reductions", []).append(info)
    if key is not None:
        memo[key] = info
    if keepdim:
        oshape = [1 if k in dims else s for k, s in enumerate(t.shape)]
        elem = lambda idx: res_fn([i for k, i in enumerate(idx) if k not in dims])
    else:
        oshape = [s for k, s in enumerate(t.shape) if k not in dims]
        elem = lambda idx: res_fn(list(idx))
    r = STensor(t.dtype, oshape, elem, device=t.device, fresh=True)
    r.attrs["reduction"] = info
    if E.ps.get("grad_enabled", True) and (t.requires_grad or t.attrs.get("grad_fn")):
        r.attrs["grad_fn"] = True
    return r


def _reduction_key(E, kind, t, dims):
    """Structural key of a reduction: kind, dims, dtype, shape and the element term at canonical index variables (None if unavailable)."""
    try:
        ids = [z3.Int(f"__rk{k}") for k in range(len(t.shape))]
        side_n = len(E.alg.side)
        touched = E.ps.get("touched")
        tn = len(touched) if isinstance(touched, list) else None
        try:
            term = t.snap()(ids)
        finally:
            del E.alg.side[side_n:]
            if tn is not None:
                del touched[tn:]
        if not z3.is_expr(term):
            return None
        return (kind, tuple(dims), t.dtype, tuple(str(x) for x in t.shape), term.sexpr())
    except Unsupported:
        return None


def _explicit_minmax(E, kind, t, dims, keepdim, kept_dims):
    """Conformance mode (concrete shapes): the maximum / minimum is folded over the reduced slice explicitly."""
    import itertools

    shape = [concrete_int(d) if is_sym(d) else d for d in t.shape]
    tf = t.snap()
    op = "gt" if kind == "amax" else "lt"

    def res(kept):
        best = None
        for red in itertools.product(*[range(shape[d]) for d in dims]):
            idx, ki, ri = [], 0, 0
            for k in range(len(shape)):
                if k in dims:
                    idx.append(red[ri])
                    ri += 1
                else:
                    idx.append(kept[ki])
                    ki += 1
            v = tf(idx)
            best = v if best is None else z3.If(E.alg.cmp(op, v, best, t.dtype), v, best)
        return best

    if keepdim:
        oshape = [1 if k in dims else s for k, s in enumerate(shape)]
        elem = lambda idx: res([i for k, i in enumerate(idx) if k not in dims])
    else:
        oshape = [s for k, s in enumerate(shape) if k not in dims]
        elem = lambda idx: res(list(idx))
    return STensor(t.dtype, oshape, elem, device=t.device, fresh=True)


def reduction_facts(E, extra_points=(), rounds=2):
    """Instantiate the reduction axioms at every index at which an input tensor was read (and at witnesses)."""
    reds = E.ps.get("reductions", [])
    if not reds:
        return []
    facts = []
    seen = set()
    points = {}
    for (_, rank, idx) in list(E.ps.get("touched", [])):
        points.setdefault(rank, []).append(idx)
    for idx in extra_points:
        points.setdefault(len(idx), []).append(list(idx))
    for _ in range(rounds):
        newpts = {}
        for ri in reds:
            rank = len(ri.src.shape)
            for idx in list(points.get(rank, [])):
                key = (ri.name, "b", tuple(str(i) for i in idx))
                if key not in seen:
                    seen.add(key)
                    facts.append(ri.bound_fact(E, idx))
                kept = ri.kept(idx)
                key = (ri.name, "w", tuple(str(i) for i in kept))
                if key not in seen:
                    seen.add(key)
                    wf, fidx = ri.witness_fact(E, kept)
                    # the witness exists only if the reduced slice is non-empty: dims >= 1 is assumed of inputs
                    facts.append(wf)
                    newpts.setdefault(rank, []).append(fidx)
        for r, lst in newpts.items():
            points.setdefault(r, []).extend(lst)
    return facts


# ------------------------------------------------------------------------------------------------
# wrappers (tensor subclasses) and dispatch


def wrapper_attr(E, obj, name):
    f = obj.fields
    if name in ("shape",):
        return f["_w_size"]
    if name == "dtype":
        return f["_w_dtype"]
    if name == "device":
        return f["_w_device"]
    if name == "ndim":
        return len(f["_w_size"])
    if name == "requires_grad":
        return f["_w_requires_grad"]
    if name == "size":
        return Builtin("size", lambda E2, dim=None: f["_w_size"] if dim is None else E2.getitem(f["_w_size"], dim))
    if name == "stride":
        return Builtin("stride", lambda E2, dim=None: f["_w_stride"] if dim is None else E2.getitem(f["_w_stride"], dim))
    if name == "numel":
        return Builtin("numel", lambda E2: numel_of(f["_w_size"]))
    if name == "dim":
        return Builtin("dim", lambda E2: len(f["_w_size"]))
    if name == "grad_fn":
        return None
    if name == "is_floating_point":
        return Builtin("is_floating_point", lambda E2: f["_w_dtype"].is_floating_point)
    if name == "data":
        return obj
    return None


def ext_getattr(E, obj, name, node=None):
    tm = _tm()
    if is_wrapper(obj):
        r = wrapper_attr(E, obj, name)
        if r is not None or name == "grad_fn":
            return r
        if name in TENSOR_METHODS:
            return Builtin(f"Tensor.{name}", lambda E2, *a, **k: tensor_method(E2, obj, name, a, k, node))
    hook = E.ps.get("ext_getattr_hook") or getattr(E, "ext_getattr_hook", None)
    if hook is not None:
        r = hook(E, obj, name, node)
        if r is not tm.MISSING:
            return r
    return tm.MISSING


def ext_class_getattr(E, cls, name, node=None):
    return _tm().MISSING


def ext_setattr(E, obj, name, v, node=None):
    hook = getattr(E, "ext_setattr_hook", None)
    if hook is not None:
        return hook(E, obj, name, v, node)
    return False


def has_wrapper(x):
    if is_wrapper(x):
        return True
    if isinstance(x, (list, tuple)):
        return any(has_wrapper(y) for y in x)
    if isinstance(x, dict):
        return any(has_wrapper(y) for y in x.values())
    return False


def collect_wrappers(x, out):
    if is_wrapper(x):
        out.append(x)
    elif isinstance(x, (list, tuple)):
        for y in x:
            collect_wrappers(y, out)
    elif isinstance(x, dict):
        for y in x.values():
            collect_wrappers(y, out)
    return out


def dispatch(E, op, args, kwargs, node=None):
    """An aten op reached with at least one tensor-subclass argument: __torch_dispatch__ of the first one (A-TORCH-DISPATCH)."""
    ws = collect_wrappers([args, kwargs], [])
    w = ws[0]
    # subclass priority: a more derived class first
    for x in ws[1:]:
        if x.cls is not w.cls and isinstance(x.cls, ClassVal) and x.cls.is_subclass_of(w.cls):
            w = x
    td, _ = w.cls.lookup("__torch_dispatch__")
    if td is None:
        raise Unsupported(f"{w.cls.name} has no __torch_dispatch__")
    types = tuple({id(x.cls): x.cls for x in ws}.values())
    E.log.append(("dispatch", op.name, w.cls.name))
    return E.call(BoundMethod(w.cls, td), [op, types, tuple(args), dict(kwargs)], {}, node=node)


def call_aten(E, op, args, kwargs, node=None):
    if "." in op.name and op.name.split(".")[0] in ("quanto", "quanto_py", "quanto_ext"):
        # the overload packet of a custom op (reached again from a fallback with plain arguments)
        from .torchmodel import call_custom_op
        lib_, name_ = op.name.split(".", 1)
        return call_custom_op(E, lib_, name_, list(args), dict(kwargs))
    if has_wrapper(args) or has_wrapper(kwargs):
        return dispatch(E, op, list(args), kwargs, node)
    from . import cap, tm_index

    impl = ATEN.get(op.name) or tm_index.ATEN.get(op.name)
    if impl is None:
        raise Unsupported(f"aten op {op.name}")
    # A-TORCH-CAP: ops PyTorch does not implement for float8 payloads on this build (probed natively)
    flat = []

    def walk(x):
        if isinstance(x, STensor):
            flat.append(x)
        elif isinstance(x, (list, tuple)):
            for y in x:
                walk(y)

    walk(list(args))
    for t in flat:
        if t.dtype in ("float8_e4m3fn", "float8_e5m2") and not cap.supported(op.name, t.dtype):
            raise_(E, "NotImplementedError", f"\"{op.name}\" not implemented for '{t.dtype}'", node)
    return impl(E, *args, **kwargs)


def py_binop(E, opname, a, b, node=None):
    """Python operator with at least one tensor (or tensor-subclass) operand."""
    if isinstance(a, Obj) and not is_wrapper(a) or isinstance(b, Obj) and not is_wrapper(b):
        for o, other, refl in ((a, b, False), (b, a, True)):
            if isinstance(o, Obj) and not is_wrapper(o):
                mname = {"Eq": "__eq__", "NotEq": "__ne__"}.get(opname)
                if mname:
                    m, _ = o.cls.lookup(mname)
                    if m is not None:
                        return E.call(m, [o, other], {})
                    return (o is other) if opname == "Eq" else (o is not other)
        raise Unsupported(f"operator {opname} on object")
    if opname not in _PYOP_TO_ATEN:
        raise Unsupported(f"tensor operator {opname}")
    return call_aten(E, AtenOp(_PYOP_TO_ATEN[opname]), [a, b], {}, node)


def tensor_truth(E, t):
    if numel_concrete(t) not in (1,):
        raise_(E, "RuntimeError", "Boolean value of Tensor with more than one value is ambiguous")
    v = t.elem([0] * len(t.shape))
    if t.dtype == "bool":
        return E.branch(v)
    return E.branch(E.alg.cmp("ne", v, E.alg.const(0, t.dtype), t.dtype))


def numel_concrete(t):
    n = numel_of(t.shape)
    return concrete_int(n) if is_sym(n) else n


def tensor_iter(E, t):
    n = concrete_int(t.shape[0]) if t.shape else None
    if n is None:
        raise Unsupported("iteration over tensor with symbolic length")
    from . import tm_index

    return [tm_index.tensor_getitem(E, t, i) for i in range(n)]


def uninterpreted_function_result(E, name, args, kwargs):
    """An external function the model gives no semantics to: the result is recorded as the application of an
    uninterpreted function to its arguments, so that two calls on equal arguments can be recognised as equal."""
    rec = ("ufun", name, tuple(args), tuple(sorted(kwargs.items(), key=lambda kv: kv[0])))
    E.ps.setdefault("ufun_calls", []).append(rec)
    base = [a for a in list(args) + list(kwargs.values()) if isinstance(a, STensor)]
    if not base:
        raise Unsupported(f"{name} without tensor argument")
    t0 = base[0]
    n = E.fresh_name(f"{name}_out").replace("#", "_")
    out = new_input(E, n, t0.dtype, list(t0.shape), device=t0.device)
    out.fresh = True
    out.attrs["ufun"] = rec
    E.ps.setdefault("ufun_outs", []).append((rec, out))
    return out


def _softmax(E, x, dim, half_to_float=False):
    """aten._softmax: uninterpreted, with the one fact the callers rely on (A-TORCH-EW): every output element lies in [0, 1]
    (finite inputs).  With half_to_float the result is float32."""
    out = uninterpreted_function_result(E, "_softmax", (x, dim, half_to_float), {})
    if half_to_float is True and x.dtype == "float16":
        out.dtype = "float32"
    if E.alg.floatmode != "R":
        return out
    base = out._elem

    def elem(idx):
        v = base(idx)
        E.alg.side.append(("fact", z3.And(v >= 0, v <= 1)))
        return v

    out._elem = elem
    return out


# ------------------------------------------------------------------------------------------------
# attribute access on tensors

TENSOR_METHODS = {}


def tensor_getattr(E, t, name, node=None):
    if name == "shape":
        return tuple(t.shape)
    if name == "dtype":
        return DType(t.dtype)
    if name == "device":
        return t.device
    if name == "ndim":
        return len(t.shape)
    if name == "requires_grad":
        return t.requires_grad
    if name == "data":
        # `.data`: an alias of the same storage whose in-place updates do NOT bump the version counter (A-TORCH-NN)
        from .tm_index import view_of

        r = view_of(t, t.dtype, list(t.shape), lambda idx: list(idx), t.strides, identity=True)
        r.attrs["data_alias"] = True
        r.requires_grad = False
        return r
    if name == "_version":
        return t.root().attrs.get("_version", 0)
    if name == "grad_fn" or name == "grad":
        return t.attrs.get(name)
    if name == "is_cuda":
        return t.device.type == "cuda"
    if name == "T":
        return tensor_method(E, t, "t", (), {}, node)
    if name in t.attrs:
        return t.attrs[name]
    if name in TENSOR_METHODS:
        return Builtin(f"Tensor.{name}", lambda E2, *a, **k: tensor_method(E2, t, name, a, k, node))
    from . import cap

    if name.endswith("_") and not name.endswith("__") and cap.tensor_has_attr(name):
        # an in-place method the model does not cover: by PyTorch's naming convention it WRITES its receiver.
        # Modelled conservatively: the write is recorded (frame conditions) and the contents become unknown.
        def inplace(E2, *a, **k):
            from .tm_index import _record_write, write_region

            fresh = new_input(E2, E2.fresh_name(f"havoc_{name}").replace("#", "_"), t.dtype, list(t.shape), device=t.device)
            ff = fresh.snap()
            write_region(E2, t, lambda idx: z3.BoolVal(True), lambda idx: ff(idx), node)
            _record_write(E2, t, node)
            E2.log.append(("unmodelled-inplace", name))
            return t
        return Builtin(f"Tensor.{name}", inplace)
    if not cap.tensor_has_attr(name):
        raise_(E, "AttributeError", f"'Tensor' object has no attribute '{name}'", node)
    raise Unsupported(f"Tensor attribute '{name}' is not covered by the PyTorch model")


def tensor_method(E, t, name, args, kwargs, node=None):
    m = TENSOR_METHODS[name]
    if isinstance(m, str):
        return call_aten(E, AtenOp(m), [t] + list(args), kwargs, node)
    return m(E, t, *args, **kwargs)


def _size(E, t, dim=None):
    shp = tuple(t.shape) if isinstance(t, STensor) else t.fields["_w_size"]
    if dim is None:
        return shp
    return E.getitem(shp, dim)


def _stride(E, t, dim=None):
    if isinstance(t, STensor):
        st = t.strides if t.strides is not None else contiguous_strides(t.shape)
    else:
        st = t.fields["_w_stride"]
    if dim is None:
        return tuple(st)
    return E.getitem(tuple(st), dim)


def _to(E, t, *args, **kwargs):
    """Tensor.to(...): resolves to aten._to_copy when something changes (A-TORCH-DISPATCH), else returns self."""
    dtype = kwargs.pop("dtype", None)
    device = kwargs.pop("device", None)
    for a in args:
        if isinstance(a, DType):
            dtype = a
        elif isinstance(a, (Device, str)):
            device = a if isinstance(a, Device) else Device(a)
        elif isinstance(a, (STensor, Obj)):
            dtype = E.getattr(a, "dtype")
            device = E.getattr(a, "device")
        else:
            raise Unsupported(f"Tensor.to argument {a!r}")
    if isinstance(device, str):
        device = Device(device)
    cur_dtype = E.getattr(t, "dtype")
    cur_dev = E.getattr(t, "device")
    kw = {}
    changed = False
    if dtype is not None and dtype is not cur_dtype:
        kw["dtype"] = dtype
        changed = True
    if device is not None and device.type != cur_dev.type:
        kw["device"] = device
        changed = True
    if not changed:
        return t
    return call_aten(E, AtenOp("_to_copy"), [t], kw)


def _item(E, t):
    if numel_concrete(t) != 1:
        raise_(E, "RuntimeError", "a Tensor with more than one element cannot be converted to Scalar")
    return t.elem([0] * len(t.shape))


_DATA_PTRS = []


def _data_ptr(E, t):
    """Tensor.data_ptr(): the address of the first element.  Identity views (`.data`, detach, same-shape views) and reshapes share the
    address of their base; distinct storages have distinct addresses; a view with an offset (slice / select) is outside the model."""
    cur = t
    while cur.base is not None:
        if "slice_of" in cur.attrs or not (cur.attrs.get("identity_view") or cur.layout is not None and cur.layout[0] == "reshape"):
            raise Unsupported("data_ptr() of a view that may carry a storage offset")
        cur = cur.base
    for k, r in enumerate(_DATA_PTRS):
        if r is cur:
            return 4096 * (k + 1)
    _DATA_PTRS.append(cur)
    return 4096 * len(_DATA_PTRS)


TENSOR_METHODS.update({
    "size": _size, "stride": _stride, "to": _to, "item": _item, "data_ptr": _data_ptr,
    "numel": lambda E, t: numel_of(_size(E, t)),
    "dim": lambda E, t: len(_size(E, t)),
    "is_floating_point": lambda E, t: E.getattr(t, "dtype").is_floating_point,
    "cpu": lambda E, t: _to(E, t, device=Device("cpu")),
    "cuda": lambda E, t: _to(E, t, device=Device("cuda")),
    "float": lambda E, t: _to(E, t, dtype=DType("float32")),
    "half": lambda E, t: _to(E, t, dtype=DType("float16")),
    "type": lambda E, t, d=None: _to(E, t, dtype=d),
    "requires_grad_": lambda E, t, v=True: t,
    "is_inference": lambda E, t: False,
    "numpy": lambda E, t: t,      # ndarray stand-in: same element model (numpy ops used by the AWQ code are index maps / bit ops)
    "astype": lambda E, t, d: to_dtype(E, t, d if not isinstance(d, str) else DType(d)),
    "dequantize": lambda E, t: raise_(E, "NotImplementedError", "dequantize on a plain tensor is aten.dequantize (not supported)"),
    "new_empty": lambda E, t, *size, dtype=None, device=None, **kw: _new_like(E, t, size, None, dtype, device),
    "new_zeros": lambda E, t, *size, dtype=None, device=None, **kw: _new_like(E, t, size, 0, dtype, device),
    "new_ones": lambda E, t, *size, dtype=None, device=None, **kw: _new_like(E, t, size, 1, dtype, device),
})


def _new_like(E, t, size, val, dtype, device):
    """Tensor.new_empty / new_zeros / new_ones: a fresh tensor with the receiver's dtype and device (new_empty: unknown contents)."""
    if len(size) == 1 and isinstance(size[0], (list, tuple)):
        size = size[0]
    d = dtype.name if dtype is not None else t.dtype
    dev = device if device is not None else t.device
    if isinstance(dev, str):
        dev = Device(dev)
    if val is None:
        return new_input(E, E.fresh_name("empty").replace("#", "_"), d, list(size), device=dev)
    return full(E, list(size), val, d, dev)
for _n in ["reciprocal", "reshape", "view", "permute", "t", "transpose", "expand", "unsqueeze", "squeeze", "select", "flatten",
           "contiguous", "clone", "detach", "abs", "neg", "round", "clamp", "relu", "mul", "div", "add", "sub", "lt",
           "amax", "amin", "max", "min", "sum", "matmul", "mm", "bmm", "split", "chunk", "copy_", "all", "any", "equal",
           "bitwise_and", "bitwise_right_shift", "__lshift__", "__rshift__", "is_same_size", "where", "softmax", "eq",
           "ne", "gt", "ge", "le", "unbind", "narrow", "slice", "_unsafe_view", "cat", "stack", "floor_divide", "view_as",
           "reshape_as", "expand_as", "type_as", "isnan", "isinf", "isfinite", "as_strided"]:
    TENSOR_METHODS.setdefault(_n, _n)


# ------------------------------------------------------------------------------------------------
# aten implementations on plain tensors (point-wise / reductions / creation); shape ops live in tm_index


def _bin(op):
    def f(E, a, b, **kw):
        if kw.get("alpha", 1) != 1 or [k for k in kw if k not in ("alpha",)]:
            raise Unsupported(f"kwargs {list(kw)} of aten.{op}")
        return binary(E, op, a, b)
    return f


def _amax(kind):
    def f(E, t, dim=None, keepdim=False):
        if isinstance(dim, int):
            dim = [dim]
        return reduce_minmax(E, kind, t, list(dim) if dim is not None else None, keepdim)
    return f


def _max(kind):
    def f(E, t, dim=None, keepdim=False):
        if dim is not None:
            raise Unsupported("torch.max with dim (returns indices)")
        r = reduce_minmax(E, kind, t, None, False)
        return r
    return f


def _all(E, t):
    """torch.all(t): an uninterpreted boolean with its defining axioms instantiated at touched points (forall)."""
    n = E.fresh_name("all")
    c = z3.Bool(n)
    rank = len(t.shape)
    if rank == 0:
        v = t.elem([])
        r = v if t.dtype == "bool" else E.alg.cmp("ne", v, E.alg.const(0, t.dtype), t.dtype)
        return STensor("bool", [], lambda idx: r, device=t.device)
    # all(t) <=> forall idx in bounds: t[idx];  encoded with a quantifier
    ids = [z3.Int(f"{n}_i{k}") for k in range(rank)]
    inb = z3.And(*[z3.And(i >= 0, i < sym.to_z3_int(d)) for i, d in zip(ids, t.shape)])
    v = t.elem(ids)
    b = v if t.dtype == "bool" else E.alg.cmp("ne", v, E.alg.const(0, t.dtype), t.dtype)
    E.assume(c == z3.ForAll(ids, z3.Implies(inb, b)))
    return STensor("bool", [], lambda idx: c, device=t.device)


def _equal(E, a, b):
    """torch.equal(a, b) -> python bool: same size and all elements equal."""
    if len(a.shape) != len(b.shape):
        return False
    se = E.eq(tuple(a.shape), tuple(b.shape))
    rank = len(a.shape)
    n = E.fresh_name("equal")
    if rank == 0:
        ee = E.alg.cmp("eq", a.elem([]), E.alg.cast(b.elem([]), b.dtype, a.dtype), a.dtype)
        return E._and(se, ee)
    ids = [z3.Int(f"{n}_i{k}") for k in range(rank)]
    inb = z3.And(*[z3.And(i >= 0, i < sym.to_z3_int(d)) for i, d in zip(ids, a.shape)])
    ee = z3.ForAll(ids, z3.Implies(inb, E.alg.cmp("eq", a.elem(ids), b.elem(ids), a.dtype)))
    c = z3.Bool(n)
    E.assume(c == z3.And(sym.to_z3_bool(se), ee))
    return c


def _allclose(E, a, b, rtol=1e-05, atol=1e-08, equal_nan=False):
    """torch.allclose(a, b): all |a - b| <= atol + rtol * |b| (same shapes or broadcastable 0-dim); R algebra only."""
    if E.alg.floatmode != "R":
        raise Unsupported("torch.allclose outside the real algebra")
    if len(a.shape) != len(b.shape) and len(b.shape) != 0:
        raise Unsupported("torch.allclose with broadcasting")
    rank = len(a.shape)
    n = E.fresh_name("allclose")
    ab = lambda t: z3.If(t >= 0, t, -t)
    close = lambda x, y: ab(x - y) <= z3.RealVal(str(atol)) + z3.RealVal(str(rtol)) * ab(y)
    if rank == 0:
        return close(a.elem([]), b.elem([]))
    ids = [z3.Int(f"{n}_i{k}") for k in range(rank)]
    inb = z3.And(*[z3.And(i >= 0, i < sym.to_z3_int(d)) for i, d in zip(ids, a.shape)])
    ee = z3.ForAll(ids, z3.Implies(inb, close(a.elem(ids), b.elem(ids) if len(b.shape) else b.elem([]))))
    c = z3.Bool(n)
    E.assume(c == ee)
    return c


def _like(val):
    def f(E, t, dtype=None, device=None, **kw):
        d = dtype.name if dtype is not None else t.dtype
        dev = device if device is not None else t.device
        if isinstance(dev, str):
            dev = Device(dev)
        return full(E, list(t.shape), val, d, dev)
    return f


def _isfinite_like(which):
    def f(E, t):
        alg = E.alg

        def el(idx):
            v = t.elem(idx)
            if t.dtype in sym.FLOAT_DTYPES and alg.floatmode == "F":
                return {"isnan": z3.fpIsNaN(v), "isinf": z3.fpIsInf(v),
                        "isfinite": z3.Not(z3.Or(z3.fpIsNaN(v), z3.fpIsInf(v)))}[which]
            return z3.BoolVal(which == "isfinite")
        return STensor("bool", t.shape, el, device=t.device)
    return f


ATEN = {
    "add": _bin("add"), "sub": _bin("sub"), "mul": _bin("mul"), "div": _bin("truediv"),
    "pow": _bin("pow"), "floor_divide": _bin("floordiv"), "__lshift__": _bin("lshift"), "__rshift__": _bin("rshift"),
    "bitwise_and": _bin("and"), "bitwise_or": _bin("or"), "bitwise_right_shift": _bin("rshift"),
    "bitwise_left_shift": _bin("lshift"),
    "lt": _bin("lt"), "le": _bin("le"), "gt": _bin("gt"), "ge": _bin("ge"), "eq": _bin("eq"), "ne": _bin("ne"),
    "neg": lambda E, a: unary(E, "neg", a), "abs": lambda E, a: unary(E, "abs", a),
    "round": lambda E, a: unary(E, "round", a), "relu": lambda E, a: unary(E, "relu", a),
    "clamp": lambda E, a, min=None, max=None: clamp(E, a, min, max),
    "reciprocal": lambda E, a: unary(E, "reciprocal", a),
    "where": lambda E, c, a, b: where(E, c, a, b),
    "amax": _amax("amax"), "amin": _amax("amin"),
    "max": _max("amax"), "min": _max("amin"),
    "all": _all, "equal": _equal,
    "isnan": _isfinite_like("isnan"), "isinf": _isfinite_like("isinf"), "isfinite": _isfinite_like("isfinite"),
    "is_same_size": lambda E, a, b: E.eq(tuple(a.shape), tuple(b.shape)),
    "conv2d": lambda E, *a, **k: uninterpreted_function_result(E, "conv2d", a, k),
    "layer_norm": lambda E, *a, **k: uninterpreted_function_result(E, "layer_norm", a, k),
    "pad": lambda E, *a, **k: uninterpreted_function_result(E, "pad", a, k),
    "_softmax": lambda E, *a, **k: _softmax(E, *a, **k),
}


# ------------------------------------------------------------------------------------------------
# torch.* functions


def _torch_fn(aten_name):
    def f(E, *args, **kwargs):
        return call_aten(E, AtenOp(aten_name), list(args), kwargs)
    return f


def _zeros_like(val):
    def f(E, *size, dtype=None, device=None, **kw):
        if len(size) == 1 and isinstance(size[0], (list, tuple)):
            size = size[0]
        d = dtype.name if dtype is not None else "float32"
        dev = device if device is not None else Device("cpu")
        if isinstance(dev, str):
            dev = Device(dev)
        return full(E, list(size), val, d, dev)
    return f


def _arange(E, *a, dtype=None, device=None, **kw):
    if len(a) == 1:
        start, end, step = 0, a[0], 1
    elif len(a) == 2:
        start, end, step = a[0], a[1], 1
    else:
        start, end, step = a
    if is_sym(step) or is_sym(start):
        raise Unsupported("arange with symbolic start/step")
    d = dtype.name if dtype is not None else "int64"
    if step <= 0:
        raise Unsupported("arange with non-positive step")
    n = E.floordiv(E.binop("Add", E.binop("Sub", end, start), step - 1), step)
    dev = device if device is not None else Device("cpu")
    r = STensor(d, [n], lambda idx: scalar_to(E, E.binop("Add", start, E.binop("Mult", idx[0], step)), d), device=dev)
    r.attrs["int_elem"] = lambda idx: sym.to_z3_int(E.binop("Add", start, E.binop("Mult", idx[0], step)))
    return r


def _tensor(E, data, dtype=None, device=None, **kw):
    dev = device if device is not None else Device("cpu")
    if isinstance(dev, str):
        dev = Device(dev)
    if isinstance(data, STensor):
        return to_dtype(E, data, dtype) if dtype is not None else data
    k = py_scalar_kind(data)
    if k is not None:
        d = dtype.name if dtype is not None else {"pyint": "int64", "pyfloat": "float32", "pybool": "bool"}[k]
        return full(E, [], data, d, dev)
    if isinstance(data, (list, tuple)) and all(py_scalar_kind(x) is not None for x in data):
        d = dtype.name if dtype is not None else ("float32" if any(py_scalar_kind(x) == "pyfloat" for x in data) else "int64")
        vals = [scalar_to(E, x, d) for x in data]

        def el(idx):
            r = vals[-1]
            for j in range(len(vals) - 2, -1, -1):
                r = z3.If(sym.to_z3_int(idx[0]) == j, vals[j], r)
            return r
        return STensor(d, [len(vals)], el, device=dev)
    raise Unsupported("torch.tensor of nested data")


TORCH_FUNCS = {
    "zeros": _zeros_like(0), "ones": _zeros_like(1), "arange": _arange, "tensor": _tensor,
    "is_tensor": lambda E, x: isinstance(x, STensor) or is_wrapper(x),
    "allclose": _allclose, "ones_like": _like(1), "zeros_like": _like(0),
    "maximum": lambda E, a, b: pointwise(E, "maximum", [a, b], fn=lambda alg, v, d: z3.If(alg.cmp("ge", v[0], v[1], d), v[0], v[1])),
    "minimum": lambda E, a, b: pointwise(E, "minimum", [a, b], fn=lambda alg, v, d: z3.If(alg.cmp("le", v[0], v[1], d), v[0], v[1])),
}
for _n in ["reciprocal", "abs", "neg", "round", "clamp", "relu", "amax", "amin", "max", "min", "all", "equal", "where", "mul", "div",
           "add", "sub", "lt", "cat", "stack", "matmul", "mm", "bmm", "squeeze", "unsqueeze", "reshape", "permute",
           "transpose", "t", "split", "chunk", "bitwise_and", "bitwise_right_shift", "bitwise_left_shift", "flatten",
           "sum", "isnan", "isinf", "isfinite", "clone", "_int_mm", "_weight_int8pack_mm", "softmax", "any"]:
    TORCH_FUNCS.setdefault(_n, _torch_fn(_n))
