"""Equational reasoning over reshape / permute chains (DESIGN 2.3, tensor-algebra layer).

Sound laws used (A-TORCH-IDX: reshape is row-major and stride independent, permute is an index permutation):
  reshape(x, shape(x)) = x            reshape(reshape(x, a), b) = reshape(x, b)
  permute(x, id) = x                  permute(permute(x, p), q) = permute(x, p o q)
"""
import z3

from .sym import is_sym, to_z3_int


def chain(t):
    """-> (root tensor, [ops in application order]); op = ('reshape', out_shape) | ('permute', dims)."""
    ops = []
    while True:
        if t.layout is not None:
            kind, src, arg = t.layout
            ops.append((kind, tuple(arg), tuple(t.shape)))
            t = src
        elif t.attrs.get("identity_view") and t.base is not None:
            t = t.base
        else:
            break
    ops.reverse()
    return t, ops


def dims_equal(E, a, b, hyps):
    if len(a) != len(b):
        return False
    for x, y in zip(a, b):
        if not is_sym(x) and not is_sym(y):
            if x != y:
                return False
            continue
        x, y = to_z3_int(x), to_z3_int(y)
        if z3.eq(z3.simplify(x), z3.simplify(y)):
            continue
        s = z3.Solver()
        s.set("timeout", 5000)
        for h in hyps:
            s.add(h)
        s.add(x != y)
        if s.check() != z3.unsat:
            return False
    return True


def normalise(E, root_shape, ops, hyps):
    """Rewrite to a normal form; returns the remaining ops (empty list = identity)."""
    cur = [("root", None, tuple(root_shape))]
    for op in ops:
        kind, arg, oshape = op
        if kind == "reshape":
            # merge with a preceding reshape
            while len(cur) > 1 and cur[-1][0] == "reshape":
                cur.pop()
            if dims_equal(E, cur[-1][2], oshape, hyps):
                continue  # reshape to the current shape is the identity
            cur.append(op)
        else:
            # a permute that only moves dimensions of size 1 is a reshape
            inshape = cur[-1][2]
            non_unit = [d for d in range(len(inshape)) if not dims_equal(E, (inshape[d],), (1,), hyps)]
            moved = [d for d in arg if d in non_unit]
            if moved == sorted(moved):
                op = ("reshape", oshape, oshape)
                kind = "reshape"
                while len(cur) > 1 and cur[-1][0] == "reshape":
                    cur.pop()
                if not dims_equal(E, cur[-1][2], oshape, hyps):
                    cur.append(op)
            elif len(cur) > 1 and cur[-1][0] == "permute":
                prev = cur.pop()
                comp = tuple(prev[1][d] for d in arg)
                if comp == tuple(range(len(comp))):
                    continue
                cur.append(("permute", comp, oshape))
            elif tuple(arg) == tuple(range(len(arg))):
                continue
            else:
                cur.append(op)
        # a reshape that became adjacent to an earlier reshape after a cancellation
        changed = True
        while changed:
            changed = False
            if len(cur) > 2 and cur[-1][0] == "reshape" and cur[-2][0] == "reshape":
                last = cur.pop()
                cur.pop()
                if not dims_equal(E, cur[-1][2], last[2], hyps):
                    cur.append(last)
                changed = True
            elif len(cur) > 1 and cur[-1][0] == "reshape" and dims_equal(E, cur[-2][2], cur[-1][2], hyps):
                cur.pop()
                changed = True
    return cur[1:]
