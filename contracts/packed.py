"""Sidecar contracts for optimum/quanto/tensor/qbits/packed.py used at call sites by other properties.

PackedTensor is specified against an abstract view: `codes` (the uint8 tensor that was packed).
  pack(t, bits)   requires t.dtype == uint8, bits in (2,4), every element < 2**bits
                  ensures  result.view == t (snapshot), result.bits == bits, size/stride == t's,
                           payload: uint8, shape (ceil(rows*bits/8), *rest)            [dense]
  unpack()        ensures  result == view, as a fresh tensor of shape size, dtype uint8  [lossless]
Both clauses are exactly what C04 proves about the real bodies (round trip + dense), so using them here is
modular reasoning, not an extra assumption; C04 failing invalidates them.
"""
import z3

from qvc import sym
from qvc.lib import idx_vars, zi
from qvc.tm_tensor import new_input, raise_
from qvc.torchmodel import make_wrapper_subclass
from qvc.values import STensor

KEY_PACK = "optimum/quanto/tensor/qbits/packed.py::PackedTensor.pack"
KEY_UNPACK = "optimum/quanto/tensor/qbits/packed.py::PackedTensor.unpack"


def pack_contract(E, args, kwargs):
    cls, t = args[0], args[1]
    bits = args[2] if len(args) > 2 else kwargs.get("bits", 4)
    E.oblige("pre:PackedTensor.pack:bits in (2,4)", z3.BoolVal(bits in (2, 4)), kind="callee-pre")
    E.oblige("pre:PackedTensor.pack:dtype uint8", z3.BoolVal(isinstance(t, STensor) and t.dtype == "uint8"), kind="callee-pre")
    ids, inb = idx_vars(E.fresh_name("pk").replace("#", "_"), t.shape)
    v = t.elem(ids)
    fit = (v >= 0) if E.alg.intmode == "int" else z3.BoolVal(True)
    lim = (v < (1 << bits)) if E.alg.intmode == "int" else z3.ULT(v, 1 << bits)
    E.oblige("pre:PackedTensor.pack:values fit in `bits` bits", z3.Implies(z3.And(*inb) if inb else z3.BoolVal(True), z3.And(fit, lim)),
             kind="callee-pre")
    rows = t.shape[0] if t.shape else 1
    vpi = 8 // bits
    prow = E.floordiv(E.binop("Add", rows, vpi - 1), vpi)
    src = t.attrs.get("unpacked_from")
    if src is not None and src[1] == bits:
        # pack is a function of the codes: packing the codes just unpacked from payload P gives P again
        # (pack(unpack(pack(T))) == pack(T) follows from unpack(pack(T)) == T, C04)
        payload = STensor("uint8", [prow] + list(t.shape[1:]), src[0].snap(), device=t.device, fresh=True)
    else:
        payload = new_input(E, E.fresh_name("payload").replace("#", "_"), "uint8", [prow] + list(t.shape[1:]), device=t.device)
        payload.fresh = True
    o = make_wrapper_subclass(E, cls, tuple(t.shape), strides=None, dtype=E.ext_modules["torch"].entries["uint8"], device=t.device)
    o.fields["_bits"] = bits
    o.fields["_data"] = payload
    ghost = STensor("uint8", list(t.shape), t.snap(), device=t.device)
    o.fields["_ghost_codes"] = ghost
    # the abstract view is a function of the payload (unpack o pack == id, C04): it travels with payload-preserving moves
    payload.attrs["ghost_codes"] = ghost
    return o


def unpack_contract(E, args, kwargs):
    p = args[0]
    g = p.fields.get("_ghost_codes")
    if g is None and isinstance(p.fields.get("_data"), STensor):
        g = p.fields["_data"].attrs.get("ghost_codes")
        if g is not None:
            p.fields["_ghost_codes"] = g
    if g is None:
        from qvc.sym import Unsupported

        raise Unsupported("PackedTensor without abstract view (not built through the pack contract)")
    bits = p.fields.get("_bits")
    gf = g.snap()

    def elem(idx):
        v = gf(idx)
        if isinstance(bits, int):
            # UNPACK masks every value to `bits` bits (C04 specification of the unpack kernels)
            E.alg.side.append(("fact", z3.And(v >= 0, v < (1 << bits)) if E.alg.intmode == "int" else z3.ULT(v, 1 << bits)))
        return v

    out = STensor("uint8", list(p.fields["_w_size"]), elem, device=g.device, fresh=True)
    if isinstance(p.fields.get("_data"), STensor):
        out.attrs["unpacked_from"] = (p.fields["_data"], bits)
    return out


def install(E):
    E.contracts[KEY_PACK] = pack_contract
    E.contracts[KEY_UNPACK] = unpack_contract
