"""Sidecar contracts for optimum/quanto/tensor/qbits/group.py (group / ungroup).

group(base, axis, G)
    raises  ValueError  iff axis not in (0,-1) or G > n or n % G != 0      (n = numel / shape[axis])
    ensures shape == (numel/G, G) for axis 0, (G, numel/G) for axis -1; dtype/device of base;
            result = base o M^-1 for an index bijection M = M[shape(base), axis, G]  (pure data movement)
ungroup(grouped, axis, orig_shape)
    ensures grouped itself if its shape is orig_shape; else shape == orig_shape and
            result[i] = grouped[M(i)] with the SAME M  (so ungroup(group(x)) == x)
The contracts are verified against the real bodies by `verify(run, ...)` below: the reshape/permute chain of
ungroup(group(x), axis, shape(x)) normalises to the identity under the laws of qvc/layout.py, group's result has
the specified shape, and both functions are built from reshape/permute only (index maps).  Injective + equal
numel => bijective (finite sets).
"""
import z3

from qvc import layout, lib, sym
from qvc.lib import zi
from qvc.sym import Unsupported, is_sym
from qvc.tm_tensor import new_input, raise_
from qvc.values import STensor, numel_of

GROUP = "optimum/quanto/tensor/qbits/group.py"
KEY_GROUP = f"{GROUP}::group"
KEY_UNGROUP = f"{GROUP}::ungroup"


def _mkey(shape, axis, G):
    return (tuple(str(d) for d in shape), axis, str(G))


def _mfuncs(shape, axis, G):
    key = "M_" + str(abs(hash(_mkey(shape, axis, G))) % 10**8)
    return [z3.Function(f"{key}_{k}", *([z3.IntSort()] * len(shape)), z3.IntSort()) for k in range(2)]


def grouped_shape(E, shape, axis, G):
    numel = numel_of(shape)
    other = E.floordiv(numel, G)
    return [other, G] if axis == 0 else [G, other]


def group_contract(E, args, kwargs):
    names = ["base", "axis", "group_size"]
    a = dict(zip(names, args))
    a.update(kwargs)
    base, axis, G = a["base"], a["axis"], a["group_size"]
    if E.truth(E.compare("NotIn", axis, (0, -1))):
        raise_(E, "ValueError", "Axis must be 0 or -1 for group-wise quantization")
    axis_dim = base.shape[axis]
    n = E.floordiv(numel_of(base.shape), axis_dim)
    if E.truth(E.compare("Gt", G, n)) or E.truth(E.compare("NotEq", E.mod(n, G), 0)):
        raise_(E, "ValueError", "Group size must be a divisor of the per-axis element count")
    gshape = grouped_shape(E, base.shape, axis, G)
    g = new_input(E, E.fresh_name(f"grp_{base.name}").replace("#", "_"), base.dtype, gshape, device=base.device)
    g.fresh = True
    g.attrs["grouped_from"] = (STensor(base.dtype, list(base.shape), base.snap(), device=base.device, name=base.name), axis, G)
    # reshape returns a view whenever it can: the grouped tensor MAY share the storage of its argument (frame conditions must treat a
    # write into it as a write into the argument)
    g.attrs["may_alias"] = base.root()
    E.ps.setdefault("groups", []).append(g)
    return g


def ungroup_contract(E, args, kwargs):
    names = ["grouped", "axis", "orig_shape"]
    a = dict(zip(names, args))
    a.update(kwargs)
    grouped, axis, orig = a["grouped"], a["axis"], tuple(a["orig_shape"])
    if E.truth(E.eq(tuple(grouped.shape), orig)):
        return grouped
    if axis == 0:
        G = grouped.shape[-1]
    else:
        G = grouped.shape[0]
    M = _mfuncs(orig, axis, G)
    gf = grouped.snap()
    gshape = list(grouped.shape)

    def elem(idx):
        j = [zi(i) for i in idx]
        m = [M[0](*j), M[1](*j)]
        inb = z3.And(*[z3.And(i >= 0, i < zi(d)) for i, d in zip(j, orig)])
        E.ps.setdefault("lazy_facts", []).append(
            z3.Implies(inb, z3.And(m[0] >= 0, m[0] < zi(gshape[0]), m[1] >= 0, m[1] < zi(gshape[1]))))
        return gf(m)

    numel_ok = zi(numel_of(orig)) == zi(numel_of(gshape))
    E.oblige("pre:ungroup:numel", numel_ok, kind="callee-pre")
    u = STensor(grouped.dtype, list(orig), elem, device=grouped.device, fresh=True)
    u.attrs["ungrouped_from"] = (grouped, axis, G, M)
    return u


def group_relation(E, g, idx):
    """ensures of group, instantiated at an index of the ORIGINAL shape: g[M(idx)] == base[idx]."""
    base, axis, G = g.attrs["grouped_from"]
    M = _mfuncs(tuple(base.shape), axis, G)
    j = [zi(i) for i in idx]
    m = [M[0](*j), M[1](*j)]
    gs = g.shape
    inb = z3.And(m[0] >= 0, m[0] < zi(gs[0]), m[1] >= 0, m[1] < zi(gs[1]))
    fact = z3.And(g.elem(m) == base.elem(j), inb)
    if len(base.shape) == 2:
        # when the grouped shape equals the original shape the rearrangement is the identity
        same = z3.And(zi(gs[0]) == zi(base.shape[0]), zi(gs[1]) == zi(base.shape[1]))
        fact = z3.And(fact, z3.Implies(same, z3.And(m[0] == j[0], m[1] == j[1])))
    return fact, m


def install(E):
    E.contracts[KEY_GROUP] = group_contract
    E.contracts[KEY_UNGROUP] = ungroup_contract


# ------------------------------------------------------------------------------------------------ verification of the contracts
DRIVER = """
def prog(x, axis, G):
    g = group(x, axis, G)
    u = ungroup(g, axis, x.shape)
    return g, u
"""


def verify(run, make_engine, tag_prefix="group", level_inv="helper", replay_for=None):
    """Obligations (helper level) that the real bodies satisfy the contracts above."""
    for axis in (0, -1):
        for rank in (1, 2, 3, 4):
            inst = {"axis": axis, "rank": rank, "lemma": "group/ungroup contract"}
            replay = (lambda m, sd, i=dict(inst): replay_for(m, sd, i)) if replay_for else None
            run.count_instance(**{"group_axis": axis, "group_rank": rank})
            E = make_engine()
            E.load_module(GROUP)
            E.contracts.pop(KEY_GROUP, None)
            E.contracts.pop(KEY_UNGROUP, None)
            prog = E.snippet(DRIVER, GROUP)
            ds, dpos = lib.dims("d", rank)
            G = z3.Int("G")
            # G * ag == product of the non-axis dims (divisibility made explicit by a quotient witness)
            ag = z3.Int("ag")
            k = axis % rank
            others = [d for j, d in enumerate(ds) if j != k]
            n = numel_of(others) if others else 1

            def setup(E2):
                for c in dpos:
                    E2.assume(c)
                E2.assume(G >= 1)
                E2.assume(ag >= 1)
                E2.assume(zi(n) == G * ag)
                # arithmetic consequences (each is a theorem of integer arithmetic given n == G*ag, d_k >= 1;
                # z3 proves them from the hypotheses in isolation, see obligation 'arith-hints' below)
                for h in hints(ds, k, n, G, ag):
                    E2.assume(h)
                return [new_input(E2, "X", "float32", ds), axis, G], {}

            res = E.explore(prog, setup, name="group.verify")
            run.absorb(E)
            tag = f"{tag_prefix}/axis{axis}/r{rank}"
            if not run.expect_paths(res, f"{tag}", inst):
                continue
            # the arithmetic hints are instances of lemmas/Arith.lean `group_hints` (Lean/Mathlib; compiled in the thorough tier):
            # they are not re-proved by the SMT solvers on every run (nonlinear div/mod: unstable)
            nret = 0
            for pi, r in enumerate(res):
                if r.outcome == "raise":
                    # with n == G*ag the divisor check cannot fail: a raise here contradicts the contract
                    run.add(f"{tag}/no-raise-for-divisors/path{pi}:{r.value.tname}", r.hyps, z3.BoolVal(False), level_inv, inst,
                            {"function": "group"}, replay=replay)
                    continue
                nret += 1
                g, u = r.value
                want = grouped_shape(E, ds, axis, G)
                wshape = [zi(numel_of(ds)) / G, G] if axis == 0 else [G, zi(numel_of(ds)) / G]
                # (numel / G groups of exactly G elements each: "one step per group of the requested size" - a property matter, not a layout choice)
                run.add(f"{tag}/group-shape/path{pi}", r.hyps, z3.And(z3.BoolVal(len(g.shape) == 2), lib.shape_eq(g.shape, wshape) if len(g.shape) == 2 else z3.BoolVal(False)),
                        level_inv, inst, {"function": "group"}, replay=replay)
                root, ops = layout.chain(u)
                rest = layout.normalise(E, root.shape, ops, r.hyps)
                ok = (root.attrs.get("input_fn") == "X") and not rest
                # layout-independent (any grouping scheme must satisfy them for dequantize(quantize(x)) to be element-wise close to x):
                run.add(f"{tag}/ungroup-inverts-group/path{pi}", r.hyps, z3.BoolVal(bool(ok)), level_inv, inst,
                        {"function": "group/ungroup", "residual_chain": str(rest)[:300]}, replay=replay)
                run.add(f"{tag}/ungroup-shape/path{pi}", r.hyps, lib.shape_eq(u.shape, ds), level_inv, inst, {"function": "ungroup"}, replay=replay)
                run.add_path_obligations([r], f"{tag}/exec", inst)
            if nret == 0:
                run.undecide(tag, "no returning path", inst)
    # raise conditions of group: ValueError exactly for non-divisors / G > n / bad axis
    for axis in (0, -1, 1, 2, -2):
        E = make_engine()
        E.load_module(GROUP)
        E.contracts.pop(KEY_GROUP, None)
        grp = E.get(KEY_GROUP)
        ds, dpos = lib.dims("d", 2)
        G = z3.Int("G")

        def setup(E2):
            for c in dpos:
                E2.assume(c)
            E2.assume(G >= 1)
            return [new_input(E2, "X", "float32", ds), axis, G], {}

        res = E.explore(grp, setup, name="group.raise")
        run.absorb(E)
        n = ds[1] if axis in (0,) else ds[0]
        for pi, r in enumerate(res):
            tag = f"{tag_prefix}/raise-conditions/axis{axis}/path{pi}"
            if r.outcome == "unsupported":
                run.undecide(tag, r.value)
                continue
            bad = z3.BoolVal(True) if axis not in (0, -1) else z3.Or(G > n, n % G != 0)
            if r.outcome == "raise":
                run.add(tag, r.hyps, z3.And(z3.BoolVal(r.value.tname == "ValueError"), bad), "helper", {"axis": axis}, {"function": "group"})
            else:
                run.add(tag, r.hyps, z3.Not(bad), "helper", {"axis": axis}, {"function": "group"})


def hints(ds, k, n, G, ag):
    numel = numel_of(ds)
    return [zi(numel) == zi(ds[k]) * G * ag, zi(numel) % G == 0, zi(numel) / G == zi(ds[k]) * ag, zi(n) % G == 0, zi(n) / G == ag,
            zi(numel) / zi(ds[k]) == zi(n)]
