import Mathlib

/-! Arithmetic lemmas that the SMT layer of qvc takes as hints (DESIGN section 5).
    Checked by `lean` in the thorough tier of the checks that use them. -/

/-- If `g` divides `b` then it divides `a * b` (used for reshape([-1, G]) of a tensor whose per-axis
    element count is a multiple of the group size). -/
theorem mul_mod_of_mod (a b g : ℕ) (h : b % g = 0) : (a * b) % g = 0 := by
  have hd : g ∣ b := Nat.dvd_of_mod_eq_zero h
  exact Nat.mod_eq_zero_of_dvd (Dvd.dvd.mul_left hd a)

/-- Splitting one dimension: position `r * g + c` (0 ≤ c < g) of a row-major flattening lies in
    block `r / ag` of blocks of `ag * g` elements. -/
theorem split_dim_div (r c g ag : ℕ) (hc : c < g) (_hag : 0 < ag) : (r * g + c) / (ag * g) = r / ag := by
  have hg : 0 < g := Nat.lt_of_le_of_lt (Nat.zero_le c) hc
  rw [Nat.mul_comm ag g, ← Nat.div_div_eq_div_mul]
  congr 1
  rw [Nat.add_comm, Nat.add_mul_div_right _ _ hg, Nat.div_eq_of_lt hc, Nat.zero_add]

/-- Finite-sum linearity (used by C07 / C11: scale factors move out of the contraction). -/
theorem sum_linear (n : ℕ) (c : ℝ) (f : ℕ → ℝ) :
    (Finset.range n).sum (fun k => c * f k) = c * (Finset.range n).sum f := by
  rw [Finset.mul_sum]

/-- An injective map between finite types of equal cardinality is bijective (group / ungroup). -/
theorem inj_bij {α β : Type} [Fintype α] [Fintype β] (f : α → β) (h : Fintype.card α = Fintype.card β)
    (hf : Function.Injective f) : Function.Bijective f :=
  (Fintype.bijective_iff_injective_and_card f).2 ⟨hf, h⟩

/-- Every step preserves the invariant ⇒ every finite program does (C05 / C06 / C09 / C12 induction). -/
inductive Reach {S : Type} (step : S → S → Prop) : S → S → Prop
  | refl (s : S) : Reach step s s
  | tail {s t u : S} : Reach step s t → step t u → Reach step s u

theorem inv_reach {S : Type} (Inv : S → Prop) (step : S → S → Prop)
    (h : ∀ s t, Inv s → step s t → Inv t) : ∀ s t, Reach step s t → Inv s → Inv t := by
  intro s t hr hs
  induction hr with
  | refl => exact hs
  | tail _ hst ih => exact h _ _ ih hst

/-- Row-major flattening of two indices is inverted by div / mod (used for view(-1, K) followed by view(batch..., N)). -/
theorem flat_div (a b n : ℕ) (hb : b < n) : (a * n + b) / n = a := by
  have hn : 0 < n := Nat.lt_of_le_of_lt (Nat.zero_le b) hb
  rw [Nat.add_comm, Nat.add_mul_div_right _ _ hn, Nat.div_eq_of_lt hb, Nat.zero_add]

theorem flat_mod (a b n : ℕ) (hb : b < n) : (a * n + b) % n = b := by
  rw [Nat.add_comm, Nat.add_mul_mod_self_right, Nat.mod_eq_of_lt hb]

/-- The arithmetic hints handed to the SMT solvers for grouped tensors (contracts/group.py `hints`):
    with per-axis count `n = g * ag` and `numel = dk * n`. -/
theorem group_hints (dk n g ag : ℕ) (hg : 0 < g) (hdk : 0 < dk) (hn : n = g * ag) :
    (dk * n) = dk * g * ag ∧ (dk * n) % g = 0 ∧ (dk * n) / g = dk * ag ∧ n % g = 0 ∧ n / g = ag ∧ (dk * n) / dk = n := by
  subst hn
  refine ⟨by ring, ?_, ?_, ?_, ?_, ?_⟩
  · exact Nat.mod_eq_zero_of_dvd ⟨dk * ag, by ring⟩
  · have : dk * (g * ag) = g * (dk * ag) := by ring
    rw [this, Nat.mul_div_cancel_left _ hg]
  · exact Nat.mul_mod_right g ag
  · exact Nat.mul_div_cancel_left ag hg
  · exact Nat.mul_div_cancel_left (g * ag) hdk

/-- Correct rounding is monotone.  Let `F` be any set of reals (the finite values of a float format) and `rnd` any function
    that returns, for every real, a member of `F` nearest to it (whatever the tie rule).  Then `rnd` is monotone.  With
    `rnd (a / s)` = the IEEE-754 quotient (the standard defines it as the correctly rounded real quotient) and `a / s ≤ b / s`
    for `a ≤ b`, `0 < s`, this is `A-IEEE-MONO` of C01 away from overflow (where the quotient saturates to ±inf, which is
    monotone too). -/
theorem nearest_monotone (F : Set ℝ) (rnd : ℝ → ℝ) (hmem : ∀ y, rnd y ∈ F)
    (hnear : ∀ y, ∀ f ∈ F, |y - rnd y| ≤ |y - f|) : Monotone rnd := by
  intro y1 y2 h
  by_contra hc
  have hlt : rnd y2 < rnd y1 := not_le.mp hc
  have h1 := hnear y1 (rnd y2) (hmem y2)
  have h2 := hnear y2 (rnd y1) (hmem y1)
  have e1 : (rnd y1 + rnd y2) / 2 ≤ y1 := by
    by_contra hh
    push_neg at hh
    rcases abs_cases (y1 - rnd y1) with ⟨ha, _⟩ | ⟨ha, _⟩ <;>
      rcases abs_cases (y1 - rnd y2) with ⟨hb, _⟩ | ⟨hb, _⟩ <;> linarith
  have e2 : y2 ≤ (rnd y1 + rnd y2) / 2 := by
    by_contra hh
    push_neg at hh
    rcases abs_cases (y2 - rnd y1) with ⟨ha, _⟩ | ⟨ha, _⟩ <;>
      rcases abs_cases (y2 - rnd y2) with ⟨hb, _⟩ | ⟨hb, _⟩ <;> linarith
  have e : y1 = y2 := le_antisymm h (le_trans e2 e1)
  rw [e] at hlt
  exact lt_irrefl _ hlt

/-- Division by a positive real is monotone in the dividend (the real-number half of `A-IEEE-MONO`). -/
theorem div_pos_monotone (a b s : ℝ) (hs : 0 < s) (h : a ≤ b) : a / s ≤ b / s :=
  div_le_div_of_nonneg_right h (le_of_lt hs)

/-- Both halves together: a correctly rounded quotient by a positive divisor is monotone in the dividend. -/
theorem rounded_div_monotone (F : Set ℝ) (rnd : ℝ → ℝ) (hmem : ∀ y, rnd y ∈ F)
    (hnear : ∀ y, ∀ f ∈ F, |y - rnd y| ≤ |y - f|) (a b s : ℝ) (hs : 0 < s) (h : a ≤ b) :
    rnd (a / s) ≤ rnd (b / s) :=
  nearest_monotone F rnd hmem hnear (div_pos_monotone a b s hs h)
